"""C06 — a connection code creates at most one mapping, and only while valid."""
import itertools
import json
import os
from concurrent.futures import ThreadPoolExecutor

import vlib

KEY_OVERLAP = "overlapping-activations"
KEY_APPEND = "failed-index-append-leaves-mapping"
N_TADDR = 7      # target-address shapes of harness/cmd/c06/main.go targetAddrs (IPv4, hostname, bracketed / zoned IPv6, ports 1 and 65535)
STATES = ["valid", "revoked", "activated", "absent"]
KINDS = {"act": 0, "rev": 1, "tick": 2, "list": 3, "stall": 4, "cancel": 4}   # a cancellation is a 0 s stall for the model


def act(listen, laddr=0, fault=-1, nocode=False):
    return {"kind": "act", "listen": listen, "laddr": laddr, "fault": fault, "nocode": nocode}


def rev(fault=-1):
    return {"kind": "rev", "listen": 0, "laddr": 0, "fault": fault, "nocode": False}


LIST = {"kind": "list", "listen": 0, "laddr": 0, "fault": -1, "nocode": False}   # the code's owner lists its codes
TICK = {"kind": "tick", "listen": 0, "laddr": 0, "fault": -1, "nocode": False}


def case(threads, sched, state="valid", qmax=50, pre=(), target=77, taddr=0, stream="structured", world="", ttl_ms=0):
    """world "" = all callers over one memory store; "cluster" = every caller on its own node (hybrid storage with a
    private local cache, ONE shared cache, stock hybrid.DefaultConfig routing), results observed from a further node"""
    return {"qmax": qmax, "pre": [list(p) for p in pre], "state": state, "target": target, "taddr": taddr,
            "threads": threads, "sched": list(sched), "stream": stream, "world": world, "ttl_ms": ttl_ms}


def on_cluster(c):
    d = dict(c)
    d["world"] = "cluster"
    return d


def on_shared(c):
    """all callers use ONE service instance over one store (one node serving several clients)"""
    d = dict(c)
    d["world"] = "shared"
    return d


def last_second(c):
    """the same case on a code whose whole activation period is 900 ms: every Update runs with 0 < remaining < 1 s"""
    d = dict(c)
    d["ttl_ms"] = 900
    return d


def listing_cases(rng, n_act, n_rev, thorough):
    """read paths with side effects as callers: the owner lists its codes (lazy clean-up, asynchronous purge).
    Activator parked before its claim (after 1, 2 or 3 actions) while the owner revokes and then lists; every
    interleaving of activator x revoker x listing prefixes; listings around the expiry tick."""
    out = []
    for p in range(0, n_act + 1):                       # activator parked after p actions; revoke; list; go on
        for w in ("", "cluster"):
            out.append(case([act(101, 0), rev(), dict(LIST)], [0] * p + [1] * 5 + [2] * 8 + [0] * 14, world=w))
            out.append(case([act(101, 0), dict(LIST), rev()], [0] * p + [1] * 3 + [2] * 5 + [1] * 8 + [0] * 14, world=w))
    for p in range(0, 5):                               # two activators, the second parked too
        out.append(case([act(101, 0), act(102, 1), rev(), dict(LIST)], [0] * p + [1] * 3 + [2] * 5 + [3] * 8 + [1] * 14 + [0] * 14))
    n3 = 400 if not thorough else 0
    pre = merges3(4, 4, 3)                              # activator up to its claim x full revoke x listing call + start of purge
    if not thorough:
        pre = [rand_merge(rng, [4, 4, 3]) for _ in range(n3)]
    for s in pre:
        out.append(case([act(101, 0), rev(), dict(LIST)], list(s) + [2] * 6))
    for _ in range(6000 if thorough else 150):          # complete runs at random, with faults
        out.append(case([act(101, 0, fault=rng.choice([-1, -1, -1] + list(range(10)))), rng.choice([rev(), act(102, 1)]), dict(LIST)],
                        rand_merge(rng, [n_act + 3, n_rev + 6, 8]), state=rng.choice(["valid"] * 6 + ["revoked", "activated", "absent"])))
    for j in range(40 if thorough else 8):              # listing after the activation period has ended (lazy index clean-up / purge)
        ths = [act(101, 0), rng.choice([rev(), act(102, 1)]), dict(LIST), dict(TICK)]
        p, q = rng.randrange(0, n_act + 1), rng.randrange(0, 5)
        out.append(case(ths, [0] * p + [1] * q + [3] + rand_merge(rng, [n_act + 4 - p, 8, 8, 0])))
    return out


def stall(d):
    """d seconds pass on the store's clock (key lifetimes run out); the callers' own clock is not moved, so the sum of the
    stalls of a case stays well below the 600 s activation window"""
    return {"kind": "stall", "listen": d, "laddr": 0, "fault": -1, "nocode": False}


def cancel(k):
    """the service context of caller k is cancelled (node shutdown / service Close racing with the call in flight)"""
    return {"kind": "cancel", "listen": k, "laddr": 0, "fault": -1, "nocode": False}


def cancel_cases(rng, n_act, thorough):
    """crash points: the service context of a caller is cancelled at every storage-operation boundary of its call; the
    call runs on (the code decides); then the code is activated again from a FRESH service over the same store"""
    out = []
    for w in ("", "cluster"):
        for p in range(0, n_act + 2):
            for again in (act(102, 1), act(101, 2)):
                out.append(case([act(101, 0), dict(again), cancel(0)], [0] * p + [2] + [0] * 16 + [1] * 14, world=w))
            out.append(case([rev(), act(102, 1), cancel(0)], [0] * p + [2] + [0] * 8 + [1] * 14, world=w))
            out.append(case([act(101, 0, fault=rng.choice(range(10))), act(102, 1), cancel(0)], [0] * p + [2] + [0] * 16 + [1] * 14, world=w))
    for _ in range(3000 if thorough else 120):          # both callers' contexts cancelled somewhere in a random interleaving
        ths = [act(101, 0, fault=rng.choice([-1, -1, -1] + list(range(10)))), rng.choice([act(102, 1), act(101, 2), rev()]),
               cancel(0), cancel(1), act(103, 0)]
        out.append(case(ths, rand_merge(rng, [n_act + 3, n_act + 3, 1, 1, 0]) + [4] * 14, world=rng.choice(["", "cluster"])))
    return out


def read_fault_cases(rng):
    """BEYOND the property's stated fault class ("all single storage-write failures"): one READ of a mapping record by an
    activation fails (quota scan, create-existence check, any read-back after the write), no write fails; then the code
    is activated again.  Predicate-only cells: the model has no read faults, these runs are not replayed on it."""
    out = []
    for k in (1, 2, 3, 4):
        for pre in ((), ((101, 1),), ((101, 2),)):
            for w in ("", "cluster"):
                a = act(101, 0)
                a["rfault1"] = k
                out.append(case([a, act(102, 1)], [0] * 18 + [1] * 14, pre=pre, world=w))
                out.append(case([dict(a), act(102, 1)], [0] * 3 + [1] * 3 + [0] * 16 + [1] * 14, pre=pre, world=w))
    return out


def target_shape_cases():
    """a code generated for every target-address shape, activated (alone, against a second activator, across nodes): the
    mapping must carry the code's address byte for byte and the matching host / port / protocol"""
    out = []
    for ta in range(N_TADDR):
        for w in ("", "cluster", "shared"):
            out.append(case([act(101, ta % 3)], [], taddr=ta, world=w))
            out.append(case([act(101, 0), act(102, 1)], [0, 1, 1, 0], taddr=ta, world=w))
        out.append(case([act(101, 0, fault=9), act(102, 1)], [0] * 20 + [1] * 14, taddr=ta))   # first fails late, second wins
    return out


def stall_cases(rng, n_act, thorough):
    """TIME: caller 0 parked after each of its actions (in particular after its claim), then a stall smaller / larger than
    every lifetime the code uses below the window (admission marker 30 s; a 30 s claim lease would lapse too), then
    another caller — other client, same client, revoker — runs to completion, then caller 0 goes on"""
    out = []
    for w in ("", "cluster", "shared"):
        for p in range(0, n_act + 1):
            for d in (10, 31, 200):
                for other in (act(102, 1), act(101, 2), rev()):
                    out.append(case([act(101, 0), dict(other), stall(d)], [0] * p + [2] + [1] * 12 + [0] * 14, world=w))
            out.append(case([act(101, 0), act(102, 1), stall(20), stall(25)], [0] * p + [2] + [1] * 3 + [3] + [1] * 10 + [0] * 14, world=w))
    for _ in range(8000 if thorough else 250):          # stalls anywhere in random interleavings, with faults
        ths = [act(101, 0, fault=rng.choice([-1, -1, -1] + list(range(10)))), rng.choice([act(102, 1), act(101, 2), rev()]),
               stall(rng.choice([5, 29, 31, 60, 250])), stall(rng.choice([1, 31, 100]))]
        out.append(case(ths, rand_merge(rng, [n_act + 3, n_act + 3, 1, 1]), qmax=rng.choice([1, 2, 50]),
                        world=rng.choice(["", "", "cluster", "shared"])))
    return out


def parked_cases(world):
    """caller 0 parked after each of its storage actions (in particular: after its claim, after creating the mapping,
    after writing the code record) while caller 1 — another client, the same client, a revoker — runs to completion"""
    out = []
    for p in range(1, 12):
        for other in (act(102, 1), act(101, 2), rev()):
            out.append(case([act(101, 0), dict(other)], [0] * p + [1] * 12, world=world))
            out.append(case([dict(other), act(101, 0)], [1] * p + [0] * 12, world=world))
    return out


# the witness of DESIGN.md C06: both callers read the code before either writes it
WITNESSES = [
    case([act(101, 0), act(102, 1)], [0, 1]),
    case([act(101, 0), act(101, 0)], [0, 0, 1, 1]),
    case([act(101, 0), act(102, 1), act(103, 2)], [0, 1, 2, 2, 1, 0]),
    # the global-list append of the only caller fails (its forward write #1 on the unrepaired tree, #2 with the claim)
    case([act(101, 0, fault=1)], []),
    case([act(101, 0, fault=2)], []),
    # revoke racing an activation
    case([act(101, 0), rev()], [0, 1, 1, 1, 1]),
    case([rev(), act(101, 0)], [0, 1, 1, 0]),
    # two nodes: node 0 is parked right after its claim while node 1 runs to completion (and the mirror image,
    # and node 0 parked right BEFORE its claim)
    case([act(101, 0), act(102, 1)], [0] * 4 + [1] * 12, world="cluster"),
    case([act(101, 0), act(102, 1)], [1] * 4 + [0] * 12, world="cluster"),
    case([act(101, 0), act(102, 1)], [0] * 3 + [1] * 12, world="cluster"),
    case([act(101, 0), act(101, 2)], [0] * 4 + [1] * 12, world="cluster"),
    case([act(101, 0), rev()], [0] * 3 + [1] * 4 + [0] * 12, world="cluster"),
    # one node, one service instance, two clients: caller 0 parked right after its claim while caller 1 runs
    case([act(101, 0), act(102, 1)], [0] * 4 + [1] * 12, world="shared"),
    case([act(101, 0), act(102, 1)], [0, 1], world="shared"),
    # activation across the end of the activation period
    case([act(101, 0), TICK], [0, 0, 0, 0, 1]),
    case([act(101, 0), TICK, act(102, 1)], [0, 0, 0, 0, 0, 0, 0, 2, 2, 1]),
]


def merges(na, nb):
    """all interleavings of na actions of caller 0 with nb actions of caller 1"""
    for pos in itertools.combinations(range(na + nb), na):
        s = [1] * (na + nb)
        for p in pos:
            s[p] = 0
        yield s


def merges3(na, nb, nc):
    """all interleavings of na / nb / nc actions of callers 0 / 1 / 2"""
    n = na + nb + nc
    for pa in itertools.combinations(range(n), na):
        rest = [p for p in range(n) if p not in pa]
        for pb in itertools.combinations(rest, nb):
            s = [2] * n
            for p in pa:
                s[p] = 0
            for p in pb:
                s[p] = 1
            yield s


def rand_merge(rng, counts):
    s = [i for i, c in enumerate(counts) for _ in range(c)]
    rng.shuffle(s)
    return s


def gen_structured(rng, n, tick_share=0.0):
    out = []
    for _ in range(n):
        nthr = rng.choice([2, 2, 2, 3, 3])
        clients = rng.choice([[101, 102, 103], [101, 101, 102], [101], [77, 101]])
        ths = []
        for _ in range(nthr):
            if rng.random() < 0.25:
                ths.append(rev(fault=rng.choice([-1, -1, -1, 0, 1, 2])))
            else:
                ths.append(act(rng.choice(clients), rng.randrange(3), fault=rng.choice([-1, -1, -1] + list(range(11)))))
        with_tick = rng.random() < tick_share
        if with_tick:
            ths.insert(rng.randrange(len(ths) + 1), dict(TICK))
        state = rng.choice(["valid"] * 12 + ["revoked", "activated", "absent"])
        qmax, pre = 50, []
        if rng.random() < 0.3:
            qmax = rng.choice([1, 2, 2, 3])
            pre = [[c, rng.choice([0, 1, 1, 2])] for c in sorted(set(clients))]
        k = rng.random()
        real = [i for i, t in enumerate(ths) if t["kind"] != "tick"]
        if k < 0.15:
            sched = [i for i in real for _ in range(16)]                 # sequential
        elif k < 0.3:
            sched = [i for _ in range(16) for i in real]                 # round robin
        elif k < 0.6:
            sched = rand_merge(rng, [rng.randrange(0, 15) if t["kind"] != "tick" else 0 for t in ths])
        else:
            sched = [rng.choice(real) for _ in range(rng.choice([2, 4, 8, 12, 20, 30]))]
        if with_tick:
            ti = [i for i, t in enumerate(ths) if t["kind"] == "tick"][0]
            sched.insert(rng.randrange(len(sched) + 1), ti)
        out.append(case(ths, sched, state=state, qmax=qmax, pre=pre, taddr=rng.randrange(N_TADDR)))
    return out


def gen_malformed(rng, n):
    """separate stream: empty code, listen client 0, unparsable listen address, dead codes, callers that never run"""
    out = []
    for _ in range(n):
        ths = []
        for _ in range(rng.choice([1, 2, 3])):
            r = rng.random()
            if r < 0.3:
                ths.append(act(rng.choice([101, 102]), -1, fault=rng.choice([-1, 0, 3])))
            elif r < 0.5:
                ths.append(act(0, 0))
            elif r < 0.7:
                ths.append(act(101, 1, nocode=True))
            elif r < 0.85:
                ths.append(rev(fault=rng.choice([-1, 5])))
            else:
                ths.append(act(102, 2, fault=rng.choice([-1, 40])))
        sched = [rng.randrange(len(ths) + 1) for _ in range(rng.choice([0, 3, 9, 25]))]      # may name a non-existent caller
        out.append(case(ths, sched, state=rng.choice(STATES), qmax=rng.choice([0, 1, 50]), pre=[[101, rng.choice([0, 1])]],
                        stream="malformed"))
    return out


def expand_admission(s, n_core):
    """schedule over the n_core non-admission actions of each caller -> schedule of the code with the admission marker:
    the SetNX sits right before a caller's quota scan (its action #1), the Delete right after its last action.
    Used for callers with DIFFERENT listen clients, whose markers are distinct keys (those actions commute with
    everything the other caller does); same-client pairs and random full interleavings are generated separately."""
    cnt, out = {}, []
    for c in s:
        k = cnt.get(c, 0)
        cnt[c] = k + 1
        out.append(c)
        if k == 1 or k == n_core - 1:
            out.append(c)
    return out


def exhaustive(rng, claim, admit, thorough):
    """2 concurrent activators: every interleaving of their storage actions (thorough), every single-fault position"""
    n_core = 9 if claim else 8
    n_act = n_core + (2 if admit else 0)
    out = []
    if thorough:
        ms = list(merges(n_core, n_core))
    else:
        ms = [rand_merge(rng, [n_core, n_core]) for _ in range(250)]
    for s in ms:
        out.append(case([act(101, 0), act(102, 1)], expand_admission(s, n_core) if admit else s))
    same = ms if thorough else ms[:60]
    for s in same[::4]:
        out.append(case([act(101, 0), act(101, 2)], expand_admission(s, n_core) if admit else s, qmax=rng.choice([1, 2, 50])))
    if admit:
        # same listen client: every interleaving of the two callers' actions up to and including the claim
        # (Get, Admit, Quota, Claim), with quota 1/2/50, and of the complete runs at random
        for s in merges(4, 4):
            for q in (1, 2, 50):
                out.append(case([act(101, 0), act(101, 2)], s, qmax=q))
        for _ in range(20000 if thorough else 200):
            out.append(case([act(101, 0), act(rng.choice([101, 101, 102]), 1)], rand_merge(rng, [n_act + 2, n_act + 2]),
                            qmax=rng.choice([1, 2, 50])))
    # all single-fault positions of caller 0 (and of both), random interleavings with the rollback actions included
    per = 1500 if thorough else 12
    for k in range(n_act + 1):
        for _ in range(per):
            f1 = rng.choice([-1, -1, k, rng.randrange(n_act)])
            out.append(case([act(101, 0, fault=k), act(rng.choice([101, 102]), 1, fault=f1)], rand_merge(rng, [16, 16])))
    # activation against revocation: EVERY interleaving of one activator and one revoker, in both tiers
    # (mutual exclusion of a successful revocation and a successful activation; revoked-before-Claim never creates)
    n_rev = 4 if claim else 3
    mr = list(merges(n_act, n_rev))
    for s in mr:
        out.append(case([act(101, 0), rev()], s))
    # two activators + one revoker: every interleaving of the actions up to and including each caller's claim
    # (everything after is drained in caller order), thorough: all, quick: a sample;
    # plus random full interleavings of the three complete runs
    n_pre = 3 + (1 if admit else 0)
    pre3 = merges3(n_pre, n_pre, n_rev)
    if not thorough:
        pre3 = [rand_merge(rng, [n_pre, n_pre, n_rev]) for _ in range(300)]
    for s in pre3:
        out.append(case([act(101, 0), act(rng.choice([101, 102]), 1), rev()], s))
    for _ in range(20000 if thorough else 150):
        out.append(case([act(101, 0), act(102, 1), rev()], rand_merge(rng, [n_act + 5, n_act + 5, n_rev + 1])))
    if not thorough:
        mr = rng.sample(mr, 60)
    for k in range(n_act + 1):
        for s in (mr if thorough else mr[:6])[:: 3]:
            out.append(case([act(101, 0, fault=k), rev(fault=rng.choice([-1, -1, 0, 1, 2]))], s + [0] * 6 + [1] * 2))
    return out


def tick_cases(rng, n, claim, admit):
    """the activation period ends at every position of one activator's run, with a second caller around"""
    out = []
    n_act = (9 if claim else 8) + (2 if admit else 0)
    pos = list(range(n_act + 1))
    for j in range(n):
        p = pos[j % len(pos)]
        other = rng.choice([act(102, 1), rev(), act(101, 0, fault=rng.choice([-1, 4, 5]))])
        q = rng.randrange(0, 5)
        sched = [0] * p + [1] * q + [2] + rand_merge(rng, [n_act + 6 - p, 8])
        out.append(case([act(101, 0, fault=rng.choice([-1, -1, 6, 7])), other, dict(TICK)], sched))
    return out


def run_parallel(binary, cases, par=8):
    par = max(1, min(par, len(cases) // 20 + 1))
    chunks = [cases[i::par] for i in range(par)]
    with ThreadPoolExecutor(par) as ex:
        res = list(ex.map(lambda ch: vlib.run_harness(binary, ch, timeout=1700), chunks))
    outs = [None] * len(cases)
    for i, r in enumerate(res):
        for j, o in enumerate(r):
            outs[i + j * par] = o
    return outs


def case_value(c, o):
    ths = [[KINDS[t["kind"]], 0 if t["kind"] == "cancel" else t["listen"], t["laddr"] + 1, t["fault"] + 1, bool(t["nocode"])]
           for t in c["threads"]]
    obs = [[t["res"], t["map"] + 2, list(t["trace"])] for t in o["threads"]]

    def rec(r):
        r = list(r)
        r[4] = 99 if r[4] == 1000000 else r[4]
        return r
    return [bool(o["variant_claim"]), bool(o["variant_cleanup"]), c["qmax"], [list(p) for p in c["pre"]], STATES.index(c["state"]),
            c["target"], c["taddr"], ths, list(o["sched"]), obs,
            [[r[0], r[1], r[2], r[3] + 1, r[4] + 1] for r in o["mains"]], list(o["glob"]), [list(e) for e in o["cidx"]],
            rec(o["bycode"]), rec(o["byid"]), bool(o["claimset"]), bool(o["ticked"]), bool(o.get("variant_admit")),
            int(o.get("admitkeys", 0)), bool(o.get("tidx"))]


def overlapping(o):
    iv = [(t["first"], t["done"]) for t in o["threads"] if t["first"] >= 0 and t["done"] >= 0]
    return any(a[0] <= b[1] and b[0] <= a[1] for a, b in itertools.combinations(iv, 2))


def run(ctx, only_cases=None):
    thorough = ctx.tier == "thorough"
    binary = vlib.build_harness("C06")
    gen_changed = vlib.write_if_changed(os.path.join(vlib.COQ, "Gen", "C06.v"), vlib.harness_text(binary, ["gen"]))
    broken = None
    try:
        pinfo = vlib.coq_properties("C06")
        vlib.proof_coverage(ctx, pinfo, "make -C coq Properties/C06.vo Proofs/SideC06.vo && coqc Properties/C06.v (Print Assumptions audit)",
                            extra_obligations=6)
    except vlib.Broken as b:
        broken = b
    probe = vlib.run_harness(binary, [WITNESSES[0]])[0]
    claim, cleanup, admit = bool(probe["variant_claim"]), bool(probe["variant_cleanup"]), bool(probe.get("variant_admit"))
    if only_cases is not None:
        cases = only_cases
    else:
        cases = []
        cdir = os.path.join(vlib.VERIF, "corpus", "C06")
        for f in sorted(os.listdir(cdir)) if os.path.isdir(cdir) else []:
            if f.endswith(".json"):
                cases.append(json.load(open(os.path.join(cdir, f)))["case"])
        cases += [dict(w) for w in WITNESSES]
        cases += gen_structured(ctx.rng, 6000 if thorough else 260)
        cases += gen_malformed(ctx.rng, 600 if thorough else 40)
        ex = exhaustive(ctx.rng, claim, admit, thorough)
        cases += ex
        cases += tick_cases(ctx.rng, 120 if thorough else 20, claim, admit)
        cases += gen_structured(ctx.rng, 80 if thorough else 8, tick_share=1.0)
        # the same schedules across nodes: every caller on its own hybrid-storage node over one shared cache
        pool = [c for c in cases if c.get("world", "") == "" and not any(t["kind"] == "tick" for t in c["threads"])]
        cases += [on_cluster(c) for c in (ex if thorough else ctx.rng.sample(ex, min(len(ex), 500)))]
        cases += [on_cluster(c) for c in ctx.rng.sample(pool, min(len(pool), 3000 if thorough else 300))]
        # ... and with all callers on ONE service instance (same node), parked at every point incl. after the claim
        cases += parked_cases("shared") + parked_cases("cluster")
        cases += [on_shared(c) for c in ctx.rng.sample(ex, min(len(ex), 40000 if thorough else 300))]
        cases += [on_shared(c) for c in ctx.rng.sample(pool, min(len(pool), 3000 if thorough else 200))]
        # read paths with side effects as callers (never in shared worlds: the clean-up goroutine cannot be told apart there)
        n_act = (9 if claim else 8) + (2 if admit else 0)
        cases += listing_cases(ctx.rng, n_act, 4 if claim else 3, thorough)
        # TIME: stalls of the store's clock between a caller's actions
        cases += stall_cases(ctx.rng, n_act, thorough)
        # crash points: service context cancelled at each storage-operation boundary, then a fresh activation
        cases += cancel_cases(ctx.rng, n_act, thorough)
        cases += read_fault_cases(ctx.rng)
        cases += target_shape_cases()
        # last-second cells: the same overlapping schedules on a code that lives 900 ms
        cases += [last_second(c) for c in parked_cases("") + parked_cases("cluster")]
        cases += [last_second(c) for c in ctx.rng.sample(ex, min(len(ex), 20000 if thorough else 200))]
    # code-string collisions (generator.go GenerateUnique, service.go CreateConnectionCode): a separate, predicate-only mode
    # (creation is not a thread kind of the model): four-string code space, adversarial draws
    if only_cases is not None:
        collide = [c for c in cases if c.get("world") == "collide"]
        cases = [c for c in cases if c.get("world") != "collide"]
    else:
        collide = [case([], [], state=st, world="collide") for st in ("valid", "revoked", "activated") for _ in range(40 if thorough else 6)]
    for c, o in zip(collide, vlib.run_harness(binary, collide) if collide else []):
        for v in o["viol"]:
            ctx.violation(v["kind"], "real conncode service, code-string collisions: " + v["msg"], {"case": c, "observed": o})
    outs = run_parallel(binary, cases, par=8)
    # ---- the property predicate evaluated by the harness on the real code's outputs
    nviol = {}
    for c, o in zip(cases, outs):
        kinds = [v["kind"] for v in o["viol"]]
        for v in o["viol"]:
            k = v["kind"]
            if k == "more-than-one-mapping" and len(set(kinds)) > 1:
                continue          # consequence of the other finding of the same case
            key = k
            if k == "two-success-overlapping":
                key = KEY_OVERLAP if not claim else "overlapping-activations-despite-claim"
            elif k == KEY_APPEND and cleanup:
                key = "failed-index-append-leaves-mapping-despite-cleanup"
            nviol[key] = nviol.get(key, 0) + 1
            if nviol[key] == 1:
                ctx.violation(key, "real conncode service: " + v["msg"], {"case": c, "observed": o})
    # ---- model vs implementation
    idx = [i for i, o in enumerate(outs) if not o["ambiguous"] and not any(v["kind"] == "stuck" for v in o["viol"])
           and not any(t.get("rfault1") for t in cases[i]["threads"])]      # read-fault cells are predicate-only
    terms = [case_value(cases[i], outs[i]) for i in idx]
    mism, unmodelled = [], 0
    try:
        res, pred = vlib.model_eval("C06", terms, predict=True)
        for k, ok in enumerate(res):
            if ok:
                continue
            if "n999" in (pred[k] or ""):
                unmodelled += 1          # the model reached the one branch it does not describe (deletion of a re-written expired record)
                continue
            mism.append(k)
        small = [k for k in range(len(terms)) if len(outs[idx[k]]["sched"]) <= 24][:20]
        vm_bad = sorted(small[j] for j in vlib.vm_crosscheck("C06", [terms[k] for k in small]))
        if vm_bad != sorted(k for k in small if not res[k]):
            raise vlib.Broken("extracted runner and vm_compute disagree on the C06 model", str(vm_bad))
        ctx.coverage["vm_compute_crosschecked_cases"] = len(small)
    except vlib.Broken as b:
        broken = broken or b
        pred = [None] * len(terms)
    for k in mism[:3]:
        if not ctx.violations:
            ctx.violation("model-mismatch", "Corr/C06.check: ConnCode model (%s variant) and the real conncode service disagree on a replayed "
                          "schedule on which the Go-side predicate holds" % ("repaired" if claim else "pinned"),
                          {"case": cases[idx[k]], "observed": outs[idx[k]], "model_predicts": pred[k]}, found_input=False)
    # ---- coverage
    nontriv = set()
    stats = {"activators": 0, "revokers": 0, "ticks": 0, "faults_hit": 0, "successes": 0, "overlapping_runs": 0,
             "initial_state": {s: 0 for s in STATES}, "structured": 0, "malformed": 0, "ambiguous_timing_skipped": 0,
             "read_fault_cells_predicate_only": 0, "listing_callers": 0, "last_second_cells": 0, "stalls": 0, "service_context_cancellations": 0, "cluster_world_runs": 0, "shared_service_instance_runs": 0, "entries_skipped_caller_blocked_outside_store": 0,
             "model_unmodelled_branch_skipped": unmodelled}
    for c, o in zip(cases, outs):
        stats["activators"] += sum(t["kind"] == "act" for t in c["threads"])
        stats["revokers"] += sum(t["kind"] == "rev" for t in c["threads"])
        stats["ticks"] += 1 if o["ticked"] else 0
        stats["listing_callers"] += sum(t["kind"] == "list" for t in c["threads"])
        stats["read_fault_cells_predicate_only"] += 1 if any(t.get("rfault1") for t in c["threads"]) else 0
        stats["service_context_cancellations"] += sum(1 for t, ti in zip(o["threads"], c["threads"]) if ti["kind"] == "cancel" and t["res"] == 100)
        stats["stalls"] += sum(1 for t, ti in zip(o["threads"], c["threads"]) if ti["kind"] == "stall" and t["res"] == 100)
        stats["last_second_cells"] += 1 if c.get("ttl_ms") else 0
        stats["cluster_world_runs"] += 1 if c.get("world") == "cluster" else 0
        stats["shared_service_instance_runs"] += 1 if c.get("world") == "shared" else 0
        stats["entries_skipped_caller_blocked_outside_store"] += int(o.get("skipped", 0))
        stats["faults_hit"] += sum(1 for t in o["threads"] if t.get("faulted"))
        ok = sum(1 for t, ti in zip(o["threads"], c["threads"]) if ti["kind"] == "act" and t["res"] == 0)
        stats["successes"] += ok
        stats["initial_state"][c["state"]] += 1
        stats[c.get("stream", "structured")] += 1
        stats["ambiguous_timing_skipped"] += 1 if o["ambiguous"] else 0
        if overlapping(o):
            stats["overlapping_runs"] += 1
            if ok:
                nontriv.add(json.dumps([c["threads"], o["sched"], c["state"], c["qmax"], c["pre"], c.get("world", "")], sort_keys=True))
    samples = [{"case": cases[i], "observed": outs[i]} for i in (0, len(cases) // 2) if i < len(cases)]
    ctx.coverage.update({
        "evaluations": len(cases), "distinct_nontrivial": len(nontriv),
        "rule": "schedules of 1-3 concurrent ActivateConnectionCode/RevokeConnectionCode calls (each on its own service instance, one shared "
                "store) + an optional expiry tick, replayed deterministically through a gated storage double, one designated forward write "
                "failing; the harness evaluates the at-most-one / shape / failed-leaves-nothing / dead-code predicate on results and raw storage "
                "contents; the extracted model replays the executed schedule and is compared on result class, returned mapping, storage-call "
                "trace and final storage contents. non-trivial = at least two callers whose storage actions overlap in the executed schedule and "
                "at least one successful activation; distinct by (callers, executed schedule, initial state, quota).",
        "samples": samples,
        "code_string_collision_cells_predicate_only": len(collide),
        "variant_of_the_tree": {"atomic_claim": claim, "create_cleanup": cleanup, "quota_admission_marker": admit},
        "model_vs_impl_cases": len(terms), "model_vs_impl_mismatches": len(mism), "impl_property_failures": nviol,
        "input_distribution": stats, "generated_file_changed": gen_changed,
    })
    ctx.assumptions += [
        "each storage call is atomic (memory.Storage mutex / one Redis command); Redis-side TTL expiry is represented by the tick",
        "reads of a mapping's own main record are merged with the preceding storage action (harness and model use the same granularity)",
        "rollback / cleanup / release calls (RemoveFromList, Delete) do not fail: single-fault hypothesis, faults are injected into forward writes only",
        "generated mapping ids are fresh (C15); id generation and release run ungated on the raw store",
        "expiry is exercised with a real 250 ms activation period; runs whose pre/post-expiry phase took longer than 25 ms are skipped, not compared",
    ]
    if broken is not None:
        raise broken


def replay(ctx, path):
    r = json.load(open(path))
    run(ctx, only_cases=[r["replay"]["case"]])

"""C18 — repeated authentication failures lock an address out for the ban period
(brute-force protector, IP black/white list, token bucket, gate order of HandleHandshake)."""
import json
import os
import re

import vlib

NS = 10 ** 9
MS = 10 ** 6
BASE = NS                      # offset added to every time stamp handed to the model (keeps perturbed times positive)
EPS = 4 * MS                   # perturbation of the measured times for the robust-decision mask
MARGIN = 30 * MS               # margin of the spec-level predicates
OPC = {"fail": 0, "succ": 1, "query": 2, "ban": 3, "unban": 4, "cleanup": 5, "bladd": 6, "blrm": 7, "wladd": 8,
       "wlrm": 9, "allowed": 10, "blcleanup": 11, "allowip": 12, "rlcleanup": 13, "hs": 14, "restart": 15}
DUR_OPS = ("ban", "bladd")
# token forms of a ClientID == 0 handshake, probed on the real handler at the start of every run (harness kind "tokens")
TOK = {"forms": ["new-client"], "registers": [True], "charged": [True]}


def hs_kind(arg):
    """(kind, x) of a handshake op; kind 0 = unknown non-zero client id, 1 / 2 = ClientID 0 with token form x, generation
    ok / failing; 3 / 4 / 5 = the registered client on long-lived connection x: phase 1, phase 2 wrong, phase 2 correct"""
    return arg % 10, arg // 10


def hs_model_kind(arg):
    kind, form = hs_kind(arg)
    if kind in (1, 2) and not TOK["registers"][form % len(TOK["registers"])]:
        return 3        # ClientID 0 with a token that does not register: charged, then `client not found`
    if kind == 6:
        return 0        # a non-zero unknown client id, whatever token comes with it: not a registration, never charged
    if kind in (3, 4, 5):
        return kind + 1 + 10 * form     # phase 1 / phase 2 wrong / phase 2 correct on the long-lived connection `form`
    return kind

CURRENT = (1, 1, 0, 0, 0)     # [cond_unban, keep_stronger, late_goroutines, anon_resets, first_match]
# explanations of an observation by a defect the model keeps as a pinned variant: ([variant flags ...], finding keys);
# with several flag tuples an answer may come from any of them (first-match lookup: Go map order decides per call)
EXPLAIN = []
for _anon in (0, 1):
    for _keep in (1, 0):
        for _cond, _late in ((1, 0), (0, 1)):
            _keys = ([] if _keep else ["ban-weakened"]) + ([] if _cond else ["unban-erases-reban"]) + \
                    (["anon-registration-resets-failures"] if _anon else [])
            if _keys:
                EXPLAIN.append(([(_cond, _keep, _late, _anon, 0)], _keys))
# (the first-match blacklist lookup, variant flag 5, is not explained through model runs: which record it meets first
#  depends on the Go map iteration of each call; see shadow_situation)
EXPLAIN.sort(key=lambda e: len(e[1]))
RACES = {
    "ban": ("unban-erases-reban", "BanIP(ip,3ms); sleep 8ms; IsBanned(ip)=false; BanIP(ip,1h); sleep 5ms; IsBanned(ip)"),
    "bl": ("blacklist-removal-erases-readd", "AddToBlacklist(ip,3ms); sleep 8ms; IsAllowed(ip)=true; AddToBlacklist(ip,1h); sleep 5ms; IsAllowed(ip)"),
    "perm": ("lazy-unban-erases-permanent-ban", "BanIP(ip,3ms); sleep 8ms; IsBanned(ip)=false; BanIP(ip,permanent); sleep 5ms; IsBanned(ip)"),
    "permfail": ("lazy-unban-erases-permanent-ban", "BanIP(ip,3ms); sleep 8ms; IsBanned(ip)=false; RecordFailure(ip) x PermanentBanAt; sleep 5ms; IsBanned(ip)"),
    "blperm": ("blacklist-removal-erases-permanent-entry", "AddToBlacklist(ip,3ms); sleep 8ms; IsAllowed(ip)=true; AddToBlacklist(ip,permanent); sleep 5ms; IsAllowed(ip)"),
}
KEY_TEXT = {
    "ban-weakened": "a ban in force is replaced by a weaker one (banIP overwrites unconditionally)",
    "unban-erases-reban": "the unban spawned by IsBanned/IsAllowed on an expired entry erases an entry re-established meanwhile",
    "expired-exact-entry-shadows-cidr": "IsAllowed judges by the first matching blacklist record only (exact key, then the ranges in map order): a lapsed one hides an entry in force",
    "anon-registration-resets-failures": "handleFirstConnection calls RecordSuccess: registering a new anonymous client, which proves no credential, clears the address's failure record",
}


# ------------------------------------------------------------------------------------------------
# generators (one PRNG: ctx.rng).  Times on a 50 ms grid with +-8 ms jitter; window 225 ms and ban 325 ms
# fall between grid points, so most decisions are >= 9 ms away from a boundary.
# ------------------------------------------------------------------------------------------------
def rand_cfg(rng):
    rate = rng.choice([7, 13, 20])
    return {"maxf": rng.choice([2, 3, 3, 4]), "window_ms": 225, "ban_ms": 325, "perm": rng.choice([5, 6, 8, 50]),
            "rate": rate, "burst": rng.choice([2, 3]), "ttl_ms": 475}


class Script:
    def __init__(self, rng):
        self.rng = rng
        self.ops = []
        self.slot = 0
        self.k = 0            # ops already placed in this slot

    def at(self):
        return self.slot * 50 + 8 + self.k * 3 + self.rng.randrange(0, 3)

    def op(self, name, ip=1, arg=0):
        if name == "hs" and arg in (1, 2) and self.rng.random() < 0.6:
            arg += 10 * self.rng.randrange(len(TOK["forms"]))      # any candidate token form of a ClientID 0 handshake
            if self.rng.random() < 0.2:
                arg = 6 + 10 * (arg // 10)                          # the same token sent with a stale NON-ZERO client id
        self.ops.append({"at": self.at(), "op": name, "ip": ip, "arg": arg})
        self.k += 1
        if self.k >= 5:
            self.wait(1)

    def wait(self, slots=1):
        self.slot += slots
        self.k = 0


def gen_lockout(rng, cfg):
    s = Script(rng)
    a, b = 1, 2
    for _ in range(cfg["maxf"] - 1):
        s.op("fail", a)
        if rng.random() < 0.4:
            s.wait(1)
    if rng.random() < 0.3:
        s.op("fail", b)
    if rng.random() < 0.25:          # the last failure falls outside the window: no ban
        s.wait(5)
    s.op("query", a)
    s.op("fail", a)
    s.op("query", a)
    s.wait(1)
    for _ in range(rng.randrange(2, 6)):
        r = rng.random()
        if r < 0.35:
            s.op("query", a)
        elif r < 0.5:
            s.op("hs", a, rng.choice([0, 1]))
        elif r < 0.65:
            s.op("cleanup")
        elif r < 0.75:
            s.op("fail", a)
        elif r < 0.85:
            s.op("query", b)
        else:
            s.op("succ", a)
        s.wait(rng.choice([1, 1, 2]))
    s.wait(rng.choice([3, 6, 7]))
    s.op("query", a)
    s.wait(1)
    s.op("ban", a, rng.choice([0, 120, 620]))
    s.wait(1)
    s.op("query", a)
    for _ in range(cfg["maxf"]):
        s.op("fail", a)
    s.wait(rng.choice([1, 4, 8]))
    s.op("query", a)
    s.wait(2)
    s.op("hs", a, 0)
    return s.ops


def gen_mix(rng, cfg):
    s = Script(rng)
    names = ["fail"] * 8 + ["query"] * 6 + ["succ", "ban", "unban", "cleanup", "cleanup", "bladd", "blrm", "wladd", "wlrm",
             "allowed", "allowed", "blcleanup", "allowip", "allowip", "allowip", "rlcleanup", "hs", "hs", "hs"]
    for _ in range(rng.randrange(12, 30)):
        n = rng.choice(names)
        ip = rng.choice([1, 1, 1, 2, 3])
        arg = 0
        if n in DUR_OPS:
            arg = rng.choice([0, 70, 120, 170, 420, 2000])
        elif n == "allowip":
            arg = rng.choice([1, 1, 1, 2, 3])
        elif n == "hs":
            arg = rng.choice([0, 0, 1, 1, 2])
        s.op(n, ip, arg)
        if rng.random() < 0.55:
            s.wait(rng.choice([1, 1, 1, 2, 3, 5]))
    s.wait(rng.choice([1, 7]))
    for ip in (1, 2):
        s.op("query", ip)
        s.op("allowed", ip)
    return s.ops


def gen_perm(rng, cfg):
    """slow brute force: stay below MaxFailures per window, reach the lifetime threshold"""
    s = Script(rng)
    a = 1
    per = cfg["maxf"] - 1
    n = 0
    while n < cfg["perm"] + 1 and s.slot < 40:
        for _ in range(per):
            s.op("fail", a)
            n += 1
        s.op("query", a)
        if rng.random() < 0.3:
            s.op("cleanup")
        s.wait(5 if per > 1 else 3)
    s.wait(rng.choice([1, 8]))
    s.op("query", a)
    s.op("cleanup")
    s.wait(8)
    s.op("query", a)
    for _ in range(cfg["maxf"]):
        s.op("fail", a)
    s.wait(8)
    s.op("query", a)
    s.op("hs", a, 0)
    return s.ops


def gen_blacklist(rng, cfg):
    s = Script(rng)
    a, b = 1, 2
    s.op("allowed", a)
    s.op("bladd", a, rng.choice([0, 120, 170, 420]))
    s.op("allowed", a)
    s.op("hs", a, rng.choice([0, 1]))
    s.wait(1)
    for _ in range(rng.randrange(3, 9)):
        r = rng.random()
        if r < 0.35:
            s.op("allowed", a)
        elif r < 0.45:
            s.op("wladd", a)
        elif r < 0.55:
            s.op("wlrm", a)
        elif r < 0.65:
            s.op("blcleanup")
        elif r < 0.75:
            s.op("bladd", rng.choice([a, b]), rng.choice([0, 120, 320]))
        elif r < 0.8:
            s.op("blrm", a)
        elif r < 0.9:
            s.op("hs", a, rng.choice([0, 1, 2]))
        else:
            s.op("allowed", b)
        s.wait(rng.choice([1, 1, 2, 3]))
    s.wait(rng.choice([1, 9]))
    s.op("allowed", a)
    s.op("allowed", b)
    return s.ops


def gen_bucket(rng, cfg):
    s = Script(rng)
    a = 3
    for _ in range(rng.randrange(8, 22)):
        r = rng.random()
        if r < 0.6:
            s.op("allowip", a, rng.choice([1, 1, 1, 2, cfg["burst"]]))
        elif r < 0.75:
            s.op("hs", a, rng.choice([1, 1, 2]))
        elif r < 0.85:
            s.op("rlcleanup")
        else:
            s.op("allowip", 2, 1)
        if rng.random() < 0.5:
            s.wait(rng.choice([1, 1, 2, 3, 11]))
    return s.ops


def gen_reban(rng, cfg):
    """expired entry -> query (spawns the removal) -> re-established one slot later -> queries"""
    s = Script(rng)
    a = 1
    bl = rng.random() < 0.4
    add, q = ("bladd", "allowed") if bl else ("ban", "query")
    s.op(add, a, 70)
    s.op(q, a)
    s.wait(2)
    s.op(q, a)
    s.wait(1)
    s.op(add, a, rng.choice([0, 420, 2000]))
    s.op(q, a)
    s.wait(1)
    s.op("blcleanup" if bl else "cleanup")
    s.op(q, a)
    s.wait(rng.choice([1, 3]))
    s.op(q, a)
    if not bl:
        s.op("hs", a, 0)
    return s.ops


def gen_firstfail(rng, cfg):
    """one early failure, a gap longer than the window, MaxFailures-1 failures, a clean-up, one more failure"""
    s = Script(rng)
    a = 1
    s.op("fail", a)
    if rng.random() < 0.5:
        s.op("query", a)
    s.wait(rng.choice([5, 6, 8]))
    for _ in range(cfg["maxf"] - 1):
        s.op("hs", a, 0) if rng.random() < 0.3 else s.op("fail", a)
    if rng.random() < 0.5:
        s.wait(1)
    s.op("cleanup")
    s.op("fail", a)
    s.op("query", a)
    s.wait(rng.choice([1, 2, 3]))
    s.op("query", a)
    s.op("hs", a, rng.choice([0, 1]))
    s.wait(rng.choice([6, 8]))
    s.op("cleanup")
    s.op("query", a)
    return s.ops


def gen_anon(rng, cfg):
    """wrong credentials interleaved with anonymous registrations from the same address"""
    s = Script(rng)
    a = 1
    n = 0
    while n < cfg["maxf"] + 1:
        for _ in range(rng.randrange(1, cfg["maxf"])):
            s.op("hs", a, 0)
            n += 1
        s.op("hs", a, 1)
        if rng.random() < 0.3:
            s.op("query", a)
    s.op("query", a)
    s.wait(1)
    s.op("hs", a, 0)
    s.op("query", a)
    return s.ops


def gen_restart(rng, cfg):
    """the lists are persisted: permanent / temporary (time left, lapsed) exact and range entries, whitelist entries,
    restarts (every component rebuilt over the same storage) at various points"""
    s = Script(rng)
    exact = rng.choice([[5, 6, 7], [5, 40, 7], [41, 6, 40]])   # exact entries inside and outside the range below
    exact = list(exact)
    rng.shuffle(exact)
    rk = rng.choice([1002, 1002, 2001])    # range entry 10.1.0.32/28 (or the /27 around it): addresses 40, 41
    durs = [0, 0, 120, 170, 420, 620]
    s.op("bladd", exact[0], rng.choice(durs))
    if rng.random() < 0.8:
        s.op("bladd", rk, rng.choice([0, 0, 170, 620]))
    if rng.random() < 0.6:
        s.op("bladd", exact[1], rng.choice(durs))
    if rng.random() < 0.3:
        s.op("wladd", rng.choice([exact[1], 41, 1002, 9]))
    if rng.random() < 0.4:
        s.op("ban", exact[0], rng.choice([0, 620]))
    for _ in range(rng.randrange(2, 5)):
        s.wait(rng.choice([1, 1, 2, 3, 4]))
        s.op("restart", 0)
        probes = [exact[0], exact[1], 40, 41, 50]
        rng.shuffle(probes)
        for a in probes[:rng.randrange(2, 6)]:
            s.op("hs", a, rng.choice([0, 1])) if rng.random() < 0.25 else s.op("allowed", a)
        if rng.random() < 0.3:
            s.op("query", exact[0])
        r = rng.random()
        if r < 0.15:
            s.op("blrm", rng.choice([exact[0], rk]))
        elif r < 0.3:
            s.op("bladd", exact[2], rng.choice(durs))
        elif r < 0.4:
            s.op("blcleanup")
        elif r < 0.5:
            s.op("wlrm", rng.choice([exact[1], 41, 1002]))
    s.wait(rng.choice([1, 9]))
    for a in (exact[0], 40, exact[2]):
        s.op("allowed", a)
    return s.ops


def gen_overlap(rng, cfg):
    """several entries matching one address: exact 40 / the /28 with key 1002 (32..47) / the /27 with key 2001 (32..63),
    with different deadlines (lapsed, time left, permanent), edited, collected and reloaded; probes inside and outside"""
    s = Script(rng)
    keys = [40, 1002, 2001, 1003, 50]
    durs = [0, 70, 70, 120, 170, 420, 620]
    for k in rng.sample(keys, rng.randrange(2, 5)):
        s.op("bladd", k, rng.choice(durs))
    for _ in range(rng.randrange(3, 8)):
        s.wait(rng.choice([1, 1, 2, 3, 4]))
        for a in rng.sample([40, 41, 50, 60, 70], rng.randrange(1, 4)):
            s.op("hs", a, rng.choice([0, 1])) if rng.random() < 0.2 else s.op("allowed", a)
        r = rng.random()
        if r < 0.3:
            s.op("bladd", rng.choice(keys), rng.choice(durs))
        elif r < 0.4:
            s.op("blrm", rng.choice(keys))
        elif r < 0.5:
            s.op("blcleanup")
        elif r < 0.6:
            s.op("restart", 0)
        elif r < 0.65:
            s.op("wladd", rng.choice([41, 1003]))
        elif r < 0.7:
            s.op("wlrm", rng.choice([41, 1003]))
    s.wait(rng.choice([1, 9]))
    for a in (40, 41, 50, 60):
        s.op("allowed", a)
    return s.ops


def gen_regrate(rng, cfg):
    """bursts of ClientID 0 handshakes from one address mixing every token form (those the handler registers and those it
    does not), waits, more bursts"""
    s = Script(rng)
    a = 3
    nf = len(TOK["forms"])
    reg_forms = [f for f in range(nf) if TOK["registers"][f]] or [0]
    for _ in range(rng.randrange(2, 5)):
        for _ in range(rng.randrange(3, 9)):
            f = rng.choice(reg_forms) if rng.random() < 0.75 else rng.randrange(nf)
            s.ops.append({"at": s.at(), "op": "hs", "ip": a, "arg": rng.choice([1, 1, 1, 2, 6, 6]) + 10 * f})
            s.k += 1
            if s.k >= 5:
                s.wait(1)
        if rng.random() < 0.3:
            s.op("allowip", a, 1)
        s.wait(rng.choice([1, 2, 4, 11]))
    return s.ops


def gen_multiconn(rng, cfg):
    """one address, several connections: each collects a challenge (phase 1) while the address is below the threshold;
    wrong responses on some put the ban in place; then every kind of handshake message arrives on the others"""
    s = Script(rng)
    a = rng.choice([1, 2])
    base = 10 * a                      # connection ids are unique within a case
    k = cfg["maxf"] + rng.randrange(1, 4)
    for c in range(k):
        s.op("hs", a, 3 + 10 * (base + c))
    if rng.random() < 0.3:
        s.wait(1)
    for c in range(cfg["maxf"]):
        s.op("hs", a, rng.choice([4, 4, 0]) + (10 * (base + c)))
    s.op("query", a)
    for _ in range(rng.randrange(3, 8)):
        c = base + rng.randrange(cfg["maxf"], k)
        r = rng.random()
        if r < 0.35:
            s.op("hs", a, 5 + 10 * c)
        elif r < 0.55:
            s.op("hs", a, 4 + 10 * c)
        elif r < 0.7:
            s.op("hs", a, 3 + 10 * (base + k + rng.randrange(3)))
        elif r < 0.8:
            s.op("hs", a, 1)
        elif r < 0.9:
            s.op("query", a)
        else:
            s.op("cleanup")
        if rng.random() < 0.4:
            s.wait(rng.choice([1, 2]))
    s.wait(rng.choice([7, 8]))
    s.op("hs", a, 5 + 10 * (base + k - 1))
    s.op("hs", a, 5 + 10 * (base + k - 1))
    s.op("query", a)
    return s.ops


def gen_restart_mix(rng, cfg):
    """failures, bans and admissions with a restart in between (memory-only state)"""
    s = Script(rng)
    a = 1
    for _ in range(cfg["maxf"]):
        s.op("fail", a)
    s.op("query", a)
    s.op("allowip", a, cfg["burst"])
    s.wait(rng.choice([1, 2]))
    s.op("restart", 0)
    s.op("query", a)
    s.op("allowip", a, 1)
    for _ in range(cfg["maxf"] - 1):
        s.op("fail", a)
    s.op("query", a)
    s.wait(1)
    s.op("fail", a)
    s.op("query", a)
    return s.ops


GENS = [("multiconn", gen_multiconn, 3), ("regrate", gen_regrate, 3), ("overlap", gen_overlap, 4), ("restart", gen_restart, 4), ("restartmix", gen_restart_mix, 1), ("firstfail", gen_firstfail, 2), ("anon", gen_anon, 2), ("lockout", gen_lockout, 5), ("mix", gen_mix, 6), ("perm", gen_perm, 2), ("blacklist", gen_blacklist, 3),
        ("bucket", gen_bucket, 3), ("reban", gen_reban, 2)]


def gen_cases(ctx, n):
    rng = ctx.rng
    bag = [g for g in GENS for _ in range(g[2])]
    out = []
    for _ in range(n):
        name, fn, _w = rng.choice(bag)
        cfg = rand_cfg(rng)
        out.append({"kind": "tl", "gen": name, "cfg": cfg, "ops": fn(rng, cfg)})
    return out


# ------------------------------------------------------------------------------------------------
# model side
# ------------------------------------------------------------------------------------------------
def cfg_value(c):
    return [c["maxf"], c["window_ms"] * MS, c["ban_ms"] * MS, c["perm"], c["rate"], c["burst"], c["ttl_ms"] * MS, NS]


def ops_value(case, times):
    out = []
    for o, t in zip(case["ops"], times):
        arg = o["arg"] * MS if o["op"] in DUR_OPS else (hs_model_kind(o["arg"]) if o["op"] == "hs" else o["arg"])
        out.append([BASE + max(t, -BASE + 1), OPC[o["op"]], o["ip"], arg])
    return out


def timelines(obs):
    t0 = [x["t0"] for x in obs]
    t1 = [x["t1"] for x in obs]
    c = [t - EPS if i % 2 == 0 else t + EPS for i, t in enumerate(t0)]
    d = [t + EPS if i % 2 == 0 else t - EPS for i, t in enumerate(t1)]
    return [t0, t1, c, d]


def parse_pred(s):
    return [int(x) for x in re.findall(r"n(\d+)", s)]


def predict_all(cases, outs, flags):
    """model answers under the 4 perturbed time lines -> (answers of line 0, mask of robust steps) per case"""
    vals = []
    for c, o in zip(cases, outs):
        for tl in timelines(o["obs"]):
            vals.append([list(flags), cfg_value(c["cfg"]), ops_value(c, tl), [], []])
    _, preds = vlib.model_eval("C18", vals, predict=True)
    res = []
    for i in range(len(cases)):
        ps = [parse_pred(p) for p in preds[4 * i:4 * i + 4]]
        n = len(cases[i]["ops"])
        if any(len(p) != n for p in ps):
            raise vlib.Broken("C18 model returned a log of the wrong length", json.dumps(cases[i])[:500])
        mask = [1 if ps[0][k] == ps[1][k] == ps[2][k] == ps[3][k] else 0 for k in range(n)]
        res.append((ps[0], mask, [set(p[k] for p in ps) for k in range(n)]))
    return res


# ------------------------------------------------------------------------------------------------
# the property's own predicates, evaluated on the real code's answers with measured times (conservative
# margins: a requirement is only imposed well inside an interval, a justification accepted well outside)
# ------------------------------------------------------------------------------------------------
def keys_of(ip):
    return (ip, 1000 + ip // 16, 2000 + ip // 32) if ip < 1000 else (ip,)


GLOBAL_OPS = ("cleanup", "blcleanup", "rlcleanup", "restart")


def spec_check(case, obs):
    """returns list of (kind, step index, text)"""
    cfg, ops = case["cfg"], case["ops"]
    W, D = cfg["window_ms"] * MS, cfg["ban_ms"] * MS
    bad = []
    ips = sorted({o["ip"] for o in ops if o["ip"] < 1000 and o["op"] not in GLOBAL_OPS})

    def bucket_bound(ip, adm):
        for a in range(len(adm)):
            tot = 0
            for b in range(a, len(adm)):
                tot += adm[b][2]
                if tot > cfg["burst"] + cfg["rate"] * (adm[b][1] - adm[a][0]) / NS + 1e-6:
                    bad.append(("bucket", a, "address %d: %d tokens admitted within %.1f ms (rate %d/s, burst %d)" % (
                        ip, tot, (adm[b][1] - adm[a][0]) / MS, cfg["rate"], cfg["burst"])))
                    return

    def reg_bound(ip, regs):
        for a in range(len(regs)):
            for b in range(a, len(regs)):
                n = b - a + 1
                if n > cfg["burst"] + cfg["rate"] * (regs[b][1] - regs[a][0]) / NS + 1e-6:
                    bad.append(("registration-rate", a, "address %d: %d anonymous registrations granted within %.1f ms (rate %d/s, burst %d); tokens used: %s" % (
                        ip, n, (regs[b][1] - regs[a][0]) / MS, cfg["rate"], cfg["burst"], sorted({r[3] for r in regs[a:b + 1]}))))
                    return

    for ip in ips:
        keys = keys_of(ip)
        fails = []            # indices of failures since the last verified success / restart
        life = 0              # failures since the last success, clean-up (may drop the record and its total) or restart
        total = 0             # failures ever (liberal justification of a permanent ban)
        must = []             # [from_t, until_t or None, why]: ban required in [from, until] (process-local: a restart clears it)
        causes = []           # (from_t, until_t or None): ban justified in [from, until]
        wl = {}               # key -> bool
        ent = {}              # key -> (t0, t1, dur ns): the entry in force for that key according to the admin calls
        blcauses = []
        adm = []              # (t0, t1, tokens admitted) since the last restart
        regs = []             # (t0, t1, 1, token) registrations granted since the last restart
        for i, (o, x) in enumerate(zip(ops, obs)):
            name = o["op"]
            if name not in GLOBAL_OPS and o["ip"] not in keys:
                continue
            mine = o["ip"] == ip and name not in GLOBAL_OPS
            is_fail = mine and (name == "fail" or (name == "hs" and x["r"] == 3))
            if mine and name == "hs" and x["r"] in (0, 1, 2) and x["cc"] != 0:
                bad.append(("gate-order", i, "handshake refused at gate %d still consulted the credential store %d time(s)" % (x["r"] + 1, x["cc"])))
            # ---- requirements on this step
            if mine and name in ("query", "hs"):
                for frm, until, why in must:
                    if x["t0"] >= frm and (until is None or x["t1"] <= until):
                        ok = x["r"] == 1 if name == "query" else x["r"] in (0, 1)
                        if not ok:
                            bad.append(("locked-out", i, "address must be refused (%s) but step %d %s answered %d" % (why, i, name, x["r"])))
                        break
                if x["r"] == 1:
                    if not any(x["t1"] >= frm and (until is None or x["t0"] <= until) for frm, until in causes):
                        bad.append(("false-refusal", i, "address refused as banned at step %d without %d failures in a window, a lifetime total of %d, or a manual ban in force" % (i, cfg["maxf"], cfg["perm"])))
            if mine and name in ("allowed", "hs"):
                refused = x["r"] == 0
                if not any(wl.get(k) for k in keys) and not refused:
                    for k in keys:
                        if k in ent:
                            a0, a1, d = ent[k]
                            if x["t0"] >= a1 and (d == 0 or x["t1"] <= a0 + d - MARGIN):
                                others = [k2 for k2 in keys if k2 != k and k2 in ent]
                                if others:
                                    bad.append(("expired-exact-entry-shadows-cidr", i, "address %d is covered by the entry with key %d, in force, but was let through at step %d; other matching entries (keys %s) were added earlier and may have lapsed" % (ip, k, i, others)))
                                else:
                                    bad.append(("blacklist", i, "blacklisted (%s), not whitelisted address %d was let through at step %d" % (
                                        "range entry" if k != ip else "exact entry", ip, i)))
                                break
                if refused and not any(x["t1"] >= frm and (until is None or x["t0"] <= until) for frm, until in blcauses):
                    bad.append(("blacklist-false-refusal", i, "address refused as blacklisted at step %d without an entry in force" % i))
            # ---- effects of this step
            if name == "cleanup":
                life = 0
            elif name == "restart":
                # failure records and bans are process-local by design: their requirements end here, exactly as the
                # model's CRestart drops them; the persisted lists (ent, wl) stay.  The limiter starts afresh.
                fails, life = [], 0
                must = []
                reg_bound(ip, regs)
                bucket_bound(ip, adm)
                adm, regs = [], []
            if name in GLOBAL_OPS:
                continue
            key = o["ip"]
            if is_fail:
                fails.append(i)
                total += 1
                life += 1
                if life >= cfg["perm"]:
                    must.append([x["t1"], None, "lifetime total of %d failures reached at step %d" % (cfg["perm"], i)])
                k = cfg["maxf"]
                if len(fails) >= k and x["t1"] - obs[fails[-k]]["t0"] < W - MARGIN:
                    must.append([x["t1"], x["t0"] + D - MARGIN, "%d failures within the window ending at step %d" % (k, i)])
                if len(fails) >= k and x["t0"] - obs[fails[-k]]["t1"] < W + MARGIN:
                    causes.append((x["t0"], x["t1"] + D + MARGIN))
                if total >= cfg["perm"]:
                    causes.append((x["t0"], None))
            elif mine and (name == "succ" or (name == "hs" and x["r"] == 4 and hs_kind(o["arg"])[0] == 5)):
                # RecordSuccess = a verified challenge response.  A successful ANONYMOUS registration (hs answer 4)
                # proves no credential and must not clear the record.
                fails = []
                life = 0
            elif mine and name == "ban":
                d = o["arg"] * MS
                must.append([x["t1"], None if d == 0 else x["t0"] + d - MARGIN, "manual ban at step %d" % i])
                causes.append((x["t0"], None if d == 0 else x["t1"] + d + MARGIN))
            elif mine and name == "unban":
                must = []
            elif name == "bladd":
                d = o["arg"] * MS
                ent[key] = (x["t0"], x["t1"], d)
                blcauses.append((x["t0"], None if d == 0 else x["t1"] + d + MARGIN))
            elif name == "blrm":
                ent.pop(key, None)
            elif name == "wladd":
                wl[key] = True
            elif name == "wlrm":
                wl[key] = False
            if mine and name == "allowip" and x["r"] == 1:
                adm.append((x["t0"], x["t1"], o["arg"]))
            elif mine and name == "hs" and hs_kind(o["arg"])[0] in (1, 2) and x["r"] in (3, 4):
                adm.append((x["t0"], x["t1"], 1))
            if mine and name == "hs" and x["r"] == 4 and hs_kind(o["arg"])[0] in (1, 2, 6):
                regs.append((x["t0"], x["t1"], 1, TOK["forms"][hs_kind(o["arg"])[1] % len(TOK["forms"])]))
        reg_bound(ip, regs)
        bucket_bound(ip, adm)
    return bad


def shadow_situation(case, obs, pred, i):
    """step i is an IsAllowed decision on which the real code is MORE permissive than the repaired model while the
    address has at least two matching blacklist entries on record (added, not removed by the admin; some may have
    lapsed): the signature of the first-match lookup, whatever the map order and the goroutine timing"""
    o = case["ops"][i]
    if o["op"] == "allowed":
        if not (obs[i] == 1 and pred[i] == 0):
            return False
    elif o["op"] == "hs":
        if not (obs[i] != 0 and pred[i] == 0):
            return False
    else:
        return False
    ent = set()
    for q in case["ops"][:i]:
        if q["op"] == "bladd":
            ent.add(q["ip"])
        elif q["op"] == "blrm":
            ent.discard(q["ip"])
    return len([k for k in keys_of(o["ip"]) if k in ent]) >= 2


def load_corpus():
    d = os.path.join(vlib.VERIF, "corpus", "C18")
    out = []
    if os.path.isdir(d):
        for f in sorted(os.listdir(d)):
            if f.endswith(".json"):
                out.append(json.load(open(os.path.join(d, f))))
    return out


def shrink_tl(binary, case, still_bad, rounds=6):
    """drop operations while the failure persists; all single deletions of a round run concurrently on the real code"""
    cur = case
    for _ in range(rounds):
        cands = [dict(cur, ops=cur["ops"][:i] + cur["ops"][i + 1:]) for i in range(len(cur["ops"]) - 1, -1, -1)]
        cands = [t for t in cands if t["ops"]]
        if not cands:
            break
        outs = vlib.run_harness(binary, cands, args=["64"], timeout=300)
        nxt = next((t for t, o in zip(cands, outs) if still_bad(t, o)), None)
        if nxt is None:
            break
        cur = nxt
    return cur


def run(ctx, only_cases=None):
    thorough = ctx.tier == "thorough"
    binary = vlib.build_harness("C18")
    gen_changed = vlib.write_if_changed(os.path.join(vlib.COQ, "Gen", "C18.v"), vlib.harness_text(binary, ["gen"]))
    broken = None
    try:
        pinfo = vlib.coq_properties("C18")
        vlib.proof_coverage(ctx, pinfo, "make -C coq Properties/C18.vo && coqc Properties/C18.v (Print Assumptions audit)",
                            extra_obligations=7)  # the 7 regenerated side conditions in Proofs/SideC18.v
    except vlib.Broken as b:
        broken = b

    tok = vlib.run_harness(binary, [{"kind": "tokens"}], timeout=120)[0]
    TOK.update({"forms": tok["forms"], "registers": tok["registers"], "charged": tok["charged"]})
    if only_cases is not None:
        cases = only_cases
    else:
        cases = load_corpus() + gen_cases(ctx, 6000 if thorough else 260)
        trials = 200 if thorough else 40
        cases += [{"kind": "race", "which": w, "trials": trials} for w in ("ban", "bl", "perm", "permfail", "blperm")]
        cases += [{"kind": "shadow", "which": w, "trials": trials} for w in ("exact", "range")]
        cases += [{"kind": "sweeprace", "which": w, "trials": 12 if thorough else 4, "keys": 3000} for w in ("ban", "bl")]
        cases.append({"kind": "addr"})
        cases.append({"kind": "storeorder", "trials": 6 if thorough else 2})
        for n in ([1000, 49999, 50000, 65536, 131072] if thorough else [1000, 50000, 65536]):
            cases.append({"kind": "crowd", "entry": ctx.rng.choice(["allowip", "allowip", "allowtunnel"]), "keys": n,
                          "cfg": {"rate": 1, "burst": 3, "ttl_ms": 600000}})
        for entry in ("allowip", "allowipburst", "allowtunnel"):
            cases.append({"kind": "burst", "entry": entry, "goroutines": 32, "keys": 60 if thorough else 25,
                          "cfg": {"rate": ctx.rng.choice([7, 13]), "burst": ctx.rng.choice([1, 2, 3]), "ttl_ms": 60000}})
        for maxf in ([2, 3, 4, 5] if thorough else [2, 3]):
            cases.append({"kind": "inflight", "cfg": {"maxf": maxf, "window_ms": 5000, "ban_ms": 300, "perm": 50,
                                                      "rate": 20, "burst": 3, "ttl_ms": 475}})
    outs = vlib.run_harness(binary, cases, args=["64"], timeout=1500)

    # ---- (iii) direct replays of the two schedules on the real code
    ambiguous_trials = 0
    probe = {}
    addr_probe = {}
    crowd_rounds = []
    for c, o in zip(cases, outs):
        if c["kind"] == "race":
            ambiguous_trials += o["pre_not_expired"]
            if o["lost"] > 0:
                key, what = RACES[c["which"]]
                ctx.violation(key, "%s: the entry established right after the query was gone in %d of %d trials (the removal "
                              "spawned by the query on the expired entry deleted it)" % (what, o["lost"], o["trials"]),
                              {"case": c, "observed": o})
        elif c["kind"] == "storeorder":
            ambiguous_trials += o["pre_not_expired"]
            if o["lost"] > 0 or o["pre_not_expired"] > 0:
                ctx.violation("blacklist-writes-reordered", "AddToBlacklist(ip, 120ms) then AddToBlacklist(ip, permanent) over a store that delays the first "
                              "write of a key until a later write of it has completed; 450 ms later a manager rebuilt from the store let the address "
                              "through in %d of %d trials (live manager: %d) - the store kept the temporary record"
                              % (o["lost"], o["trials"], o["pre_not_expired"]), {"case": c, "observed": o})
        elif c["kind"] == "crowd":
            cf, adm, el = c["cfg"], o["admitted"][0], o["elapsed_ns"][0]
            crowd_rounds.append({"others": c["keys"], "let_through": adm, "elapsed_ms": round(el / MS, 1)})
            if adm > cf["burst"] + cf["rate"] * (el + 20 * MS) / NS + 1e-6:
                ctx.violation("other-addresses-reset-bucket", "%s: an address uses up its burst (%d), %d OTHER distinct addresses make one request each, "
                              "the address asks again: %d of its requests were let through in %.1f ms (rate %d/s, burst %d: at most %d) - "
                              "its drained bucket was discarded" % (c["entry"], cf["burst"], c["keys"], adm, el / MS, cf["rate"], cf["burst"],
                                                                    int(cf["burst"] + cf["rate"] * (el + 20 * MS) / NS)),
                              {"case": c, "observed": o})
        elif c["kind"] == "sweeprace":
            if o["lost"] > 0:
                ctx.violation("cleanup-erases-renewed-entry", "%d lapsed temporary %s are in the table; cleanup() runs while 6 goroutines re-establish "
                              "some of them for an hour: %d renewed entries were gone afterwards (%d trials) - the sweep deleted by key "
                              "what it had seen expired earlier" % (c["keys"], "bans" if c["which"] == "ban" else "blacklist entries",
                                                                     o["lost"], o["trials"]), {"case": c, "observed": o})
        elif c["kind"] == "addr":
            bykey, bad_pairs = {}, []
            for txt, k, p in zip(o["forms"], o["keys"], o["peers"]):
                for txt2, k2, p2 in bykey.get("all", []):
                    if (p == p2) != (k == k2):
                        bad_pairs.append("%s -> %r vs %s -> %r" % (txt2, k2, txt, k))
                bykey.setdefault("all", []).append((txt, k, p))
            addr_probe.update({"shapes": len(o["keys"]), "distinct_keys": len(set(o["keys"]))})
            if bad_pairs or o.get("evaded"):
                ctx.violation("address-key-depends-on-shape", "extractIP keys one peer differently depending on the shape of its address "
                              "(or merges two peers): %s%s" % ("; ".join(bad_pairs[:3]),
                                                               (" | end to end: " + "; ".join(o["evaded"][:2])) if o.get("evaded") else ""),
                              {"case": c, "observed": o})
        elif c["kind"] == "shadow":
            ambiguous_trials += o["pre_not_expired"]
            probe[c["which"]] = "first-match" if o["lost"] > 0 else "any-active"
            if o["lost"] > 0:
                what = ("AddToBlacklist(10.2.x.32/28, permanent); AddToBlacklist(10.2.x.40, 3ms); sleep 8ms; IsAllowed(10.2.x.40)" if c["which"] == "exact" else
                        "AddToBlacklist(10.2.x.32/27, permanent); AddToBlacklist(10.2.x.32/28, 3ms); sleep 8ms; IsAllowed(10.2.x.40)")
                ctx.violation("expired-exact-entry-shadows-cidr", "%s: the address was let through in %d of %d trials although the permanent range "
                              "entry covers it (IsAllowed judges by the first matching record only)" % (what, o["lost"], o["trials"]),
                              {"case": c, "observed": o})
        elif c["kind"] == "burst":
            cf = c["cfg"]
            for k, (adm, el) in enumerate(zip(o["admitted"], o["elapsed_ns"])):
                if adm > cf["burst"] + cf["rate"] * (el + 20 * MS) / NS + 1e-6:
                    ctx.violation("first-requests-exceed-burst", "%d goroutines released together call %s for an address that has no "
                                  "bucket yet: %d admitted in %.2f ms (burst %d, rate %d/s) — concurrent first requests did not share "
                                  "one bucket" % (c["goroutines"], c["entry"], adm, el / MS, cf["burst"], cf["rate"]),
                                  {"case": dict(c, keys=max(k + 1, 5)), "observed": {"admitted": adm, "elapsed_ns": el}})
                    break
        elif c["kind"] == "inflight":
            if o["parked"] != c["cfg"]["maxf"]:
                broken = broken or vlib.Broken("C18 harness: in-flight handshakes did not park in the gated credential store", json.dumps(o))
            elif not (o["permanent_kept"] and o["banned_later"] and o["cloud_calls_while_banned"] == 0):
                ctx.violation("ban-weakened", "%d handshakes with a wrong client id pass the ban gate and park in the credential "
                              "lookup; BanIP(ip, permanent); the handshakes finish and record their failures: the permanent ban "
                              "is replaced by a %d ms one (permanent record kept: %s; handshake refused after the ban period: %s)"
                              % (c["cfg"]["maxf"], c["cfg"]["ban_ms"], o["permanent_kept"], o["banned_later"]),
                              {"case": c, "observed": o})

    # ---- time lines: model (ii) and spec predicates (iii)
    tl = [(c, o) for c, o in zip(cases, outs) if c["kind"] == "tl"]
    tcs, tos = [c for c, _ in tl], [o for _, o in tl]
    mism, steps, robust_steps, nfail = [], 0, 0, 0
    explained = {}
    known_spec = {}
    try:
        cur = predict_all(tcs, tos, CURRENT) if tcs else []
        alt = {}
        for ci, (c, o) in enumerate(tl):
            pred, mask, _sets = cur[ci]
            obs = [x["r"] for x in o["obs"]]
            steps += len(obs)
            robust_steps += sum(mask)
            diff = [k for k in range(len(obs)) if mask[k] and pred[k] != obs[k]]
            spec_bad = spec_check(c, o["obs"])
            if not diff and not spec_bad:
                continue
            # is the observation explained by one of the two defects of the pinned tree?
            keys = None
            if diff and shadow_situation(c, obs, pred, diff[0]):
                # everything after the first divergence is its consequence (a handshake let through records failures, ...)
                keys = ["expired-exact-entry-shadows-cidr"]
            for flagsl, ks in ([] if keys else EXPLAIN):
                for flags in flagsl:
                    if flags not in alt:
                        alt[flags] = predict_all(tcs, tos, flags)
                sets2 = [set().union(*(alt[flags][ci][2][k] for flags in flagsl)) for k in range(len(obs))]
                if all(obs[k] in sets2[k] for k in range(len(obs))):
                    # several pinned variants may fit one observation: an explanation made only of recorded
                    # findings wins (it is no evidence of anything new), otherwise the smallest one
                    if all(k in ctx.known for k in ks):
                        keys = ks
                        break
                    if keys is None:
                        keys = ks
            if keys is not None and diff:
                for k in keys:
                    explained.setdefault(k, 0)
                    explained[k] += 1
                    ctx.violation(k, "time line on which the real code behaves like the pinned model variant (%s), refuted in "
                                  "Properties/C18.v, and not like the repaired one: step %d answered %d, repaired code answers %d"
                                  % (KEY_TEXT[k], diff[0], obs[diff[0]], pred[diff[0]]),
                                  {"case": c, "observed": o["obs"], "model": pred, "mask": mask})
                continue
            # recorded findings first (cheap, never hide anything else), then new predicate failures, then the model diff
            seen_known = set()
            for kind, step, text in spec_bad:
                if kind in ctx.known and kind not in seen_known:
                    seen_known.add(kind)
                    known_spec[kind] = known_spec.get(kind, 0) + 1
                    ctx.violation(kind, "real code: " + text, {"case": c, "observed": o["obs"], "step": step})
            fresh = [b for b in spec_bad if b[0] not in ctx.known]
            if fresh:
                nfail += 1
                if nfail <= 3:
                    kind, step, text = fresh[0]

                    def still(t, to, kind=kind):
                        return any(kd == kind for kd, _, _ in spec_check(t, to["obs"]))
                    small = shrink_tl(binary, c, still) if only_cases is None else c
                    so = vlib.run_harness(binary, [small], timeout=120)[0]
                    sb = [b for b in spec_check(small, so["obs"]) if b[0] == kind]
                    if not sb:
                        small, so, sb = c, o, [fresh[0]]
                    ctx.violation(kind, "real code: " + sb[0][2], {"case": small, "observed": so["obs"], "step": sb[0][1]})
            elif diff:
                mism.append((c, o, pred, mask, diff))
        # cross-check of the extraction on small cases inside Coq
        small = [i for i, c in enumerate(tcs) if len(c["ops"]) <= 16][:: max(1, len(tcs) // 30)][:30]
        vals = [[list(CURRENT), cfg_value(tcs[i]["cfg"]), ops_value(tcs[i], timelines(tos[i]["obs"])[0]),
                 [x["r"] for x in tos[i]["obs"]], cur[i][1]] for i in small]
        if vals:
            ext = vlib.model_eval("C18", vals)
            vm_bad = sorted(vlib.vm_crosscheck("C18", vals))
            ext_bad = sorted(i for i, ok in enumerate(ext) if not ok)
            if vm_bad != ext_bad:
                raise vlib.Broken("extracted runner and vm_compute disagree on the C18 model", "vm=%s extracted=%s" % (vm_bad, ext_bad))
            ctx.coverage["vm_compute_crosschecked_cases"] = len(vals)
    except vlib.Broken as b:
        broken = broken or b
    for c, o, pred, mask, diff in mism[:3]:
        if not ctx.violations:
            ctx.violation("model-mismatch", "Corr/C18: the Lockout model and the real code disagree at robust step %d (real %d, model %d) "
                          "of a time line on which the spec-level predicates hold; the theorems of Properties/C18.v no longer "
                          "speak about this code" % (diff[0], o["obs"][diff[0]]["r"], pred[diff[0]]),
                          {"case": c, "observed": o["obs"], "model": pred, "mask": mask}, found_input=False)

    # ---- coverage
    distinct, nontrivial = set(), set()
    dist = {"by_generator": {}, "ops": {}, "answers": {}}
    for c, o in tl:
        h = vlib.hashlib.sha256(json.dumps([c["cfg"], c["ops"]], sort_keys=True).encode()).hexdigest()
        distinct.add(h)
        rs = [x["r"] for x in o["obs"]]
        qs = {x["r"] for op, x in zip(c["ops"], o["obs"]) if op["op"] in ("query", "allowed", "allowip", "hs")}
        if len(qs) >= 2 and len(c["ops"]) >= 5:
            nontrivial.add(h)
        g = c.get("gen", "corpus")
        dist["by_generator"][g] = dist["by_generator"].get(g, 0) + 1
        for op, x in zip(c["ops"], o["obs"]):
            dist["ops"][op["op"]] = dist["ops"].get(op["op"], 0) + 1
            if op["op"] in ("query", "allowed", "allowip", "hs", "fail"):
                k = "%s=%d" % (op["op"], x["r"])
                dist["answers"][k] = dist["answers"].get(k, 0) + 1
    races = [o for c, o in zip(cases, outs) if c["kind"] == "race"]
    infl = [o for c, o in zip(cases, outs) if c["kind"] == "inflight"]
    ctx.coverage.update({
        "evaluations": len(cases), "distinct_nontrivial": len(nontrivial),
        "rule": "timed scripts (failures, successes, ban queries, manual bans/unbans, clean-ups, blacklist/whitelist edits, "
                "IsAllowed, AllowIP, real HandleHandshake calls) generated from VERIF_SEED by one PRNG on a 50 ms grid against a "
                "225 ms window / 325 ms ban, run on the real code with the real clock; each is replayed in the Coq model at the "
                "measured times under 4 perturbations (+-4 ms) and compared only at steps where all 4 model answers agree; "
                "distinct = distinct (config, script); non-trivial = at least 5 operations and at least two different answers "
                "among the query-type steps. Plus race-replay loops and gated in-flight-handshake schedules.",
        "samples": [{"case": tcs[i], "observed": [x["r"] for x in tos[i]["obs"]]} for i in (0, len(tcs) // 2, len(tcs) - 1) if 0 <= i < len(tcs)]
                   + [{"case": c, "observed": o} for c, o in zip(cases, outs) if c["kind"] != "tl"][:3],
        "steps_total": steps, "steps_compared_robust": robust_steps, "steps_ambiguous_not_compared": steps - robust_steps,
        "race_trials": sum(o["trials"] for o in races), "race_trials_ambiguous": ambiguous_trials,
        "race_trials_entry_lost": sum(o["lost"] for o in races),
        "token_forms_probed": [{"token": t, "registers": r, "charged": c} for t, r, c in zip(TOK["forms"], TOK["registers"], TOK["charged"])],
        "inflight_schedules": len(infl), "blacklist_lookup_probe": probe, "address_key_probe": addr_probe, "crowd_rounds": crowd_rounds,
        "burst_first_request_rounds": sum(len(o["admitted"]) for c, o in zip(cases, outs) if c["kind"] == "burst"), "model_vs_impl_cases": len(tcs), "model_vs_impl_mismatches": len(mism),
        "cases_explained_by_pinned_variant": explained, "cases_with_recorded_predicate_findings": known_spec, "impl_property_failures": nfail,
        "input_distribution": dist, "generated_file_changed": gen_changed,
    })
    ctx.assumptions += [
        "each mutex-protected section of brute_force_protector.go / ip_manager.go is one atomic step; RecordFailure = 2 steps, cleanup = 2 steps, HandleHandshake = one step per gate",
        "rate limiter: get-or-create + Take modelled as one step (the window between the map lookup and Take against a concurrent collection is not modelled); float64 token arithmetic replaced by exact integers, near-threshold decisions are masked as ambiguous",
        "blacklist/whitelist: exact entries and one /28 range entry per address (overlapping ranges are not modelled: findInList iterates a Go map); restart = all components rebuilt over the same memory storage (process restart; a second live manager on a shared store is not modelled)",
        "goroutine scheduling of the spawned unban is replaced by runner threads that may run it at any later point",
        "real clock: answers compared only where the model answer is stable under +-4 ms perturbation of the measured call times",
    ]
    if broken is not None:
        raise broken


def replay(ctx, path):
    r = json.load(open(path))
    case = r["replay"].get("case")
    if case is None:
        raise vlib.Broken("replay file has no case", path)
    run(ctx, only_cases=[case])

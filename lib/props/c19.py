"""C19 — a public domain routes only to its single rightful owner."""
import glob
import itertools
import json
import os
import re

import vlib

T0 = 1000000
BASES = ["tunnox.net"]
STS = ["active", "inactive", "expired"]

# symptoms that follow from one root cause are reported under the root cause's key
STALE_SET = {"index-released-by-stale-removal", "live-create-not-routed", "live-create-routes-elsewhere", "two-live-owners", "claimed-name-claimable",
             "free-name-not-claimable"}
DUP_SET = {"duplicate-mapping-id", "record-overwritten-by-other-claim", "routed-to-non-claimant", "live-create-routes-elsewhere",
           "routed-to-foreign-target", "record-written-without-claim", "two-live-owners", "live-create-not-routed",
           "foreign-record-deleted", "non-owner-removed-record", "non-owner-removed-index", "index-released-by-stale-removal",
           "deleted-still-routes", "deleted-still-indexed", "record-key-mismatch"}


def hx(s):
    return s.encode("latin1").hex()


def C(sub, tgt, base="tunnox.net"):
    return {"k": "C", "sub": sub, "base": base, "tgt": tgt}


def D(mine=-1, abs_=0):
    return {"k": "D", "mine": mine, "abs": abs_}


def U(mine, st, exp, tgt):
    return {"k": "U", "mine": mine, "st": st, "exp": exp, "tgt": tgt}


def L(host):
    return {"k": "L", "host": hx(host)}


def X():
    return {"k": "X"}


def K():
    return {"k": "K"}


def F(abs_, var, c2, st, exp, tgt):
    """repository-level update with a forged payload: read mapping abs_, replace ONE immutable field (var), send it back"""
    return {"k": "F", "abs": abs_, "var": var, "c2": c2, "st": st, "exp": exp, "tgt": tgt}


def encz(z):
    """client ids are integers (0 / negative = not a real client); they travel to the model as naturals"""
    return 2 * z if z >= 0 else -2 * z - 1


BIG = 1 << 62
INT64_MAX = (1 << 63) - 1
UNBOUND = [0, -1, -BIG, -INT64_MAX]          # ids that are not real clients


def thr(client, ops, faults=()):
    return {"client": client, "ops": list(ops), "faults": list(faults)}


def case(threads, sched, store="memory", bases=None, reg=(), cloud=(), probe=True):
    return {"mode": "sched", "store": store, "bases": list(bases or BASES), "threads": threads, "sched": list(sched),
            "reg": list(reg), "cloud": list(cloud), "probe": probe}


def spellings(rng, name):
    """Host header spellings of a registered name (and a few that must not resolve to it)"""
    return rng.choice([name, name, name + ":80", name + ":8080", name.upper(), name + ":", name + ".", "[::1]", "[::1]:80",
                       name + ":80:90", ":" + name, name[:-1], "x" + name, name + ".:443", "[" + name + "]:80"])


def bursts(rng, n, k=None):
    out = []
    for _ in range(k if k is not None else rng.choice([2, 4, 6, 9, 14])):
        out += [rng.randrange(n)] * rng.choice([1, 1, 2, 3, 4, 5, 7, 8])
    return out


# ---- scenario families -------------------------------------------------------------------------------------------

def race_cases(rng, guarded, cfix, n_random):
    """a repeated delete of one mapping racing a re-claim of its name (the schedule that separates the repaired from the
    pinned DeleteMapping), exact schedules for both step counts plus burst-randomised variants"""
    th = [thr(1, [C("a", 11), D(0)]), thr(1, [D(-1, 1)]), thr(2, [C("a", 22)]), thr(3, [C("a", 33)]), thr(9, [L("a.tunnox.net:80")])]
    out = []
    k = 5 if cfix else 4         # storage calls of a complete CreateMapping (SetNX counter), Incr, SetNX index, Set record, Append
    if guarded:
        out.append(case(th, [0] * k + [1] + [0] * 7 + [2] * k + [1] * 6 + [3] * k + [4] * 2))
        out.append(case(th, [0] * k + [1] * 3 + [0] * 7 + [2] * k + [1] * 4 + [3] * k + [4] * 2))
    else:
        out.append(case(th, [0] * k + [1] + [0] * 4 + [2] * k + [1] * 3 + [3] * k + [4] * 2))
    # the second deleter pauses after j of its storage calls, the first delete and the re-claim run, then it resumes
    # (covers every place where a removal could read something too early)
    for j in range(1, 8):
        out.append(case(th, [0] * k + [1] * j + [0] * 7 + [2] * k + [1] * 8 + [0] * 7 + [3] * k + [4] * 2))
    # cleanup-style double delete: the second deleter is another session of the same client
    for _ in range(n_random):
        pre = [0] * k
        out.append(case(th, pre + bursts(rng, 5)))
    # rollback of a create whose record is already visible, racing a delete and a re-claim
    th2 = [thr(1, [C("a", 11)], [False] * (k - 1) + [True]), thr(1, [D(-1, 1)]), thr(2, [C("a", 22)]), thr(9, [L("a.tunnox.net")])]
    out.append(case(th2, [0] * (k - 1) + [1] * 9 + [2] * k + [0] * 9 + [3] * 2))
    out.append(case(th2, [0] * (k - 1) + [1] + [0] + [1] * 9 + [2] * k + [0] * 9 + [3] * 2))
    for _ in range(n_random // 2):
        out.append(case(th2, [0] * (k - 1) + bursts(rng, 4)))
    # an update writing the record back after the delete (orphan record), then a late second delete
    th3 = [thr(1, [C("a", 11), U(0, "inactive", 0, 12)]), thr(1, [D(-1, 1), D(-1, 1)]), thr(2, [C("a", 22), U(0, "active", T0 + 5000, 23)]),
           thr(9, [L("a.tunnox.net"), L("A.TUNNOX.NET"), L("a.tunnox.net:")])]
    for _ in range(n_random // 2):
        out.append(case(th3, [0] * k + bursts(rng, 4)))
    return out


def random_case(rng):
    subs = rng.choice([["a", "b"], ["a"], ["a", "b", "c"], ["a", "A"], ["a", "[:"], ["a", "a:b"], ["x-1", "x-2"]])
    bases = rng.choice([BASES, BASES, ["tunnox.net", "t.io"], ["t.io"]])
    n = rng.choice([2, 3, 3, 4])
    clients = [rng.choice([1, 1, 2, 3, 3, 0, -1, BIG, BIG + 1]) for _ in range(n)]
    threads = []
    for i in range(n):
        ops = []
        for _ in range(rng.choice([1, 2, 2, 3, 4])):
            k = rng.random()
            sub, base = rng.choice(subs), rng.choice(bases)
            if k < 0.35:
                ops.append(C(sub, rng.choice([11, 12, 13, 0]) if rng.random() < 0.08 else rng.randrange(1, 60), base))
            elif k < 0.55:
                ops.append(D(rng.choice([0, 0, 1])) if rng.random() < 0.5 else D(-1, rng.choice([1, 1, 2, 3, 4])))
            elif k < 0.58:
                ops.append(K())
            elif k < 0.62:
                ops.append(F(rng.choice([1, 1, 2, 3]), rng.choice(["client", "client", "sub", "base", "full", "none"]), rng.choice([1, 2, 3, 0, -1, BIG]),
                             rng.choice(STS), rng.choice([0, T0 + 5000, T0 - 5000]), rng.randrange(1, 60)))
            elif k < 0.72:
                ops.append(U(rng.choice([0, 0, 1, -1]), rng.choice(STS), rng.choice([0, 0, T0 - 5000, T0 + 5000, T0 + 5000, -1, -BIG, -INT64_MAX]),
                             rng.choice([5, 6, 7, 0]) if rng.random() < 0.1 else rng.randrange(1, 60)))
            else:
                ops.append(L(spellings(rng, sub + "." + base)))
        nf = rng.choice([0, 0, 0, 6, 14])
        faults = [rng.random() < 0.18 for _ in range(nf)]
        threads.append(thr(clients[i], ops, faults))
    if rng.random() < 0.15:
        threads[0]["client"] = 0          # invalid client id: Validate refuses after the id was drawn
    if rng.random() < 0.1:
        threads[-1]["ops"].insert(0, C("", 5, bases[0]))   # empty subdomain
    reg, cloud = [], []
    if rng.random() < 0.35:
        for j, sub in enumerate(subs[:2]):
            e = {"sub": sub, "base": bases[0], "id": 70 + j, "client": rng.choice([1, 2, 7, BIG]), "tgt": 700 + j,
                 "active": rng.random() < 0.8, "revoked": rng.random() < 0.15, "exp": rng.choice([0, 0, T0 - 5000, T0 + 5000])}
            (reg if rng.random() < 0.5 else cloud).append(e)
    sched = bursts(rng, n) if rng.random() < 0.7 else [rng.randrange(n) for _ in range(rng.choice([0, 5, 20, 60]))]
    store = "hybrid" if rng.random() < 0.12 else "memory"
    return case(threads, sched, store=store, bases=bases, reg=reg, cloud=cloud, probe=rng.random() < 0.5)


def impersonation_cases(rng, cfix, n_random):
    """every repository operation called with the boundary identities (0 = connection not bound to a client, negative,
    huge, owner+-1) against mappings owned by real clients: only the owner may delete; nothing is stored for ids <= 0"""
    out = []
    k = 5 if cfix else 4
    for owner in (1, 7, BIG, INT64_MAX):
        attackers = UNBOUND + [owner - 1 if owner > 1 else owner + 2, owner + 1 if owner < INT64_MAX else owner - 2]
        for att in attackers:
            th = [thr(owner, [C("a", 11)]),
                  thr(att, [D(-1, 1), C("a", 66), D(-1, 1), U(-1, "inactive", 0, 67), C("z", 68), D(0)]),
                  thr(9, [L("a.tunnox.net:80")])]
            out.append(case(th, [0] * k + [1] * 30 + [2] * 2))
            out.append(case(th, [0] * (k - 2) + [1] * 3 + [0] * 2 + [1] * 30 + [2] * 2))     # impersonation while the create is in flight
    th = [thr(3, [C("a", 11), C("b", 12)]), thr(0, [D(-1, 1), D(-1, 2), K(), C("a", 66)]), thr(-1, [D(-1, 2), C("b", 67), K(), D(-1, 1)]),
          thr(BIG, [D(-1, 1), C("a", 68)]), thr(9, [L("a.tunnox.net"), L("b.tunnox.net:443")])]
    for _ in range(n_random):
        out.append(case(th, [0] * rng.choice([0, 3, k, 2 * k]) + bursts(rng, 5)))
    return out


def cleanup_cases(rng, cfix, n_random):
    """CleanupExpiredMappings inside histories: an internal deleter that must remove expired mappings only, on behalf of their
    owners; racing the owner's own delete, a re-claim, an update that un-expires, and callers of any identity"""
    out = []
    k = 5 if cfix else 4
    th = [thr(1, [C("a", 11), U(0, "active", T0 - 5000, 12)]),                 # expired by its own update
          thr(2, [C("b", 22), U(0, "active", T0 + 5000, 23)]),                 # not expired
          thr(3, [C("c", 33)]),                                                # never expires
          thr(0, [K(), K()]),                                                  # the cleanup job (any caller identity)
          thr(9, [L("a.tunnox.net"), L("b.tunnox.net"), L("c.tunnox.net:80")])]
    out.append(case(th, [0] * (k + 2) + [1] * (k + 2) + [2] * k + [3] * 40 + [4] * 6))
    th2 = [thr(1, [C("a", 11), U(0, "active", T0 - 5000, 12), D(0)]),          # owner deletes while the cleanup deletes
           thr(5, [K()]), thr(-1, [K(), D(-1, 1)]),
           thr(2, [C("a", 22)]),                                               # re-claim of the cleaned name
           thr(1, [U(0, "active", T0 + 5000, 13)]),
           thr(9, [L("a.tunnox.net:80")])]
    out.append(case(th2, [0] * (k + 2) + [1] * 3 + [0] * 7 + [3] * k + [1] * 12 + [2] * 12 + [5] * 2))
    for _ in range(n_random):
        out.append(case(th, [0] * (k + 2) + [1] * rng.choice([0, k + 2]) + bursts(rng, 5)))
        out.append(case(th2, [0] * rng.choice([k, k + 2]) + bursts(rng, 6)))
    # expiry instants at the boundaries: only 0 means "never"; an instant in the past — NEGATIVE ones included (what the adapter's
    # now + ttl wraps to) — never routes, is swept, and its name is re-claimable
    for exp in (-1, -BIG, -INT64_MAX, -(INT64_MAX - 1700000000), T0 - 5000, 0, T0 + 5000):
        thb = [thr(1, [C("a", 11), U(0, "active", exp, 12)]), thr(9, [L("a.tunnox.net:80"), K(), L("a.tunnox.net")]),
               thr(2, [C("a", 22)]), thr(9, [L("a.tunnox.net")])]
        out.append(case(thb, [0] * (k + 2) + [1] * 16 + [2] * k + [3] * 2))
    # storage failures inside the cleanup
    for _ in range(n_random // 2):
        t3 = [dict(t) for t in th]
        t3[3] = thr(0, [K(), K()], [rng.random() < 0.3 for _ in range(14)])
        out.append(case(t3, [0] * (k + 2) + [1] * (k + 2) + [2] * k + bursts(rng, 5)))
    return out


def delete_fault_cases(rng, cfix, n_random):
    """deletion under storage failures: the owner's delete with a failure injected at each of its storage calls (k = 1..7, and
    pairs of failures spread over the retries), then retries, then a fresh claim of the name by another owner, then a request
    for the name.  Once a delete has reported success the name must be free and claimable; a failed delete is finished by a retry."""
    out = []
    k0 = 5 if cfix else 4
    def hist(fl, retries=2, with_cleanup=False):
        ops = [C("a", 11)] + [D(0)] * (1 + retries)
        th = [thr(1, ops, [False] * k0 + fl), thr(2, [C("a", 22)]), thr(9, [L("a.tunnox.net:80")])]
        sched = [0] * 60 + [1] * 6 + [2] * 2
        if with_cleanup:
            th.append(thr(0, [K()]))
            sched = [0] * 60 + [3] * 20 + [1] * 6 + [2] * 2
        return case(th, sched)
    for k in range(1, 8):
        out.append(hist([False] * (k - 1) + [True]))
        out.append(hist([False] * (k - 1) + [True], retries=0))                 # no retry: the failed delete stands
        out.append(hist([False] * (k - 1) + [True], retries=1, with_cleanup=True))
    for k in range(1, 8):                                                        # a second failure somewhere in the retry
        for j in range(1, 8):
            out.append(hist([False] * (k - 1) + [True] + [False] * 7 + [False] * (j - 1) + [True], retries=3))
    for k in range(1, 7):                                                        # two consecutive failing calls
        out.append(hist([False] * (k - 1) + [True, True], retries=2))
    for _ in range(n_random):                                                    # random failure patterns, concurrent re-claim
        fl = [rng.random() < 0.25 for _ in range(24)]
        th = [thr(1, [C("a", 11), D(0), D(0), D(0)], [False] * k0 + fl), thr(2, [C("a", 22), C("a", 23)]), thr(1, [D(-1, 1)]),
              thr(9, [L("a.tunnox.net:80")])]
        out.append(case(th, [0] * k0 + bursts(rng, 4)))
    return out


def lookup_fault_cases(rng, cfix, n_random):
    """a storage failure on either repository read of a lookup (index, record), while the legacy registry / cloud control hold an entry
    for the SAME Host owned by somebody else: the request must be rejected, never answered by another source"""
    out = []
    k = 5 if cfix else 4
    legacy = lambda sub, cid, pid: {"sub": sub, "base": "tunnox.net", "id": pid, "client": cid, "tgt": 700 + pid, "active": True, "revoked": False, "exp": 0}
    for where in ("reg", "cloud"):
        for fl in ([True], [False, True], [True, False, True], [False, True, True]):
            th = [thr(1, [C("a", 11)]), thr(2, [C("b", 22), U(0, "inactive", 0, 23)]),
                  thr(9, [L("a.tunnox.net:80"), L("a.tunnox.net")], fl), thr(9, [L("b.tunnox.net"), L("B.TUNNOX.NET")], fl)]
            kw = {where: [legacy("a", 7, 72), legacy("b", 8, 73)]}
            out.append(case(th, [0] * k + [1] * (k + 2) + [2] * 4 + [3] * 4, **kw))
    for _ in range(n_random):
        th = [thr(1, [C("a", 11), D(0)]), thr(2, [C("a", 22)]),
              thr(9, [L(spellings(rng, "a.tunnox.net")) for _ in range(3)], [rng.random() < 0.4 for _ in range(6)])]
        out.append(case(th, bursts(rng, 3), reg=[legacy("a", 7, 72)], cloud=[legacy("a", 8, 73)]))
    return out


def forged_update_cases(rng, cfix, n_random):
    """repository-level updates whose payload changes ONE immutable field (client id to another real client / 0 / -1 / huge; subdomain;
    base domain; full domain) on a mapping owned by somebody else or by the caller: an update never changes the owner — the name keeps
    routing to its claimant, which can still delete it"""
    out = []
    k = 5 if cfix else 4
    for var, c2 in [("client", 2), ("client", 0), ("client", -1), ("client", BIG), ("client", 1), ("sub", 0), ("base", 0), ("full", 0), ("none", 0)]:
        th = [thr(1, [C("a", 11)]), thr(2, [F(1, var, c2, "active", 0, 66), D(-1, 1)]), thr(9, [L("a.tunnox.net:80")]), thr(1, [D(-1, 1)]),
              thr(9, [L("a.tunnox.net")])]
        out.append(case(th, [0] * k + [1] * 12 + [2] * 2 + [3] * 8 + [4] * 2))
    th = [thr(1, [C("a", 11), U(0, "active", T0 + 5000, 12), D(0)]), thr(2, [F(1, "client", 2, "active", 0, 66), F(1, "full", 0, "active", 0, 67), C("a", 22)]),
          thr(0, [F(1, "client", 0, "inactive", 0, 68)]), thr(9, [L("a.tunnox.net"), L("a.tunnox.net:80")])]
    for _ in range(n_random):
        out.append(case(th, [0] * rng.choice([k, k + 2]) + bursts(rng, 4)))
    return out


def host_cases(rng):
    """every Host spelling of the property against a registered name, a legacy name and nothing"""
    out = []
    names = ["a.tunnox.net", "A.TUNNOX.NET", "[::1]", "[:.tunnox.net"]
    hosts = ["a.tunnox.net", "a.tunnox.net:80", "A.TUNNOX.NET", "[::1]", "[::1]:80", "a.tunnox.net:", "a.tunnox.net.", "a.tunnox.net.:80",
             "a.tunnox.net:80:90", "[:.tunnox.net", "[:.tunnox.net:1", "[::1]:", ":80", "", ":"]
    for owner_upper in (False, True):
        th = [thr(1, [C("a", 11)]), thr(2, [C("A", 22, "TUNNOX.NET")] if owner_upper else [C("[:", 22)]),
              thr(9, [L(h) for h in hosts])]
        bases = ["tunnox.net", "TUNNOX.NET"] if owner_upper else BASES
        out.append(case(th, [0] * 4 + [1] * 4 + [2] * 40, bases=bases,
                        reg=[{"sub": "b", "base": "tunnox.net", "id": 71, "client": 7, "tgt": 701, "active": True, "revoked": False, "exp": 0}]))
    return out


def dup_id_cases(rng, n_random):
    """hybrid store: Incr is cache.Get then cache.Set; two creates of different names interleaved inside it"""
    th = [thr(1, [C("a", 11)]), thr(2, [C("b", 22)]), thr(9, [L("a.tunnox.net"), L("b.tunnox.net")])]
    out = [case(th, [0, 1, 0, 1, 0, 0, 0, 1, 1, 1, 2, 2, 2, 2], store="hybrid")]
    for _ in range(n_random):
        out.append(case(th, bursts(rng, 2, 6) + [2] * 4, store="hybrid"))
    return out


def reset_cases(rng):
    """the counter key disappears (memory.Storage gives a new counter a 24h TTL and never refreshes it)"""
    th = [thr(1, [C("a", 11)]), thr(7, [X()]), thr(2, [C("b", 22)]), thr(9, [L("a.tunnox.net")])]
    out = [case(th, [0] * 5 + [1] + [2] * 5 + [3] * 2)]
    # the clock event anywhere inside and between two creates, on both stores
    th2 = [thr(1, [C("a", 11), C("c", 13)]), thr(7, [X(), X()]), thr(2, [C("b", 22)]), thr(9, [L("a.tunnox.net"), L("b.tunnox.net")])]
    for store in ("memory", "hybrid"):
        for _ in range(12):
            out.append(case(th2, bursts(rng, 3, 8) + [3] * 4, store=store))
    return out


def exhaustive_cases(guarded, cfix):
    """all interleavings (storage-call granularity) of a second delete of mapping 1 with {owner's delete ; re-claim by
    another client}, after the create has completed — the smallest scope containing the delete / re-claim race"""
    out = []
    a = 7 if guarded else 4      # steps of a complete DeleteMapping
    k = 5 if cfix else 4         # steps of a complete CreateMapping
    th = [thr(1, [C("a", 11), D(0)]), thr(1, [D(-1, 1)]), thr(2, [C("a", 22)]), thr(9, [L("a.tunnox.net")])]
    # thread 1 (a steps) against the sequence [thread 0: a steps ; thread 2: 4 steps]
    seq02 = [0] * a + [2] * k
    for pos in itertools.combinations(range(len(seq02) + a), a):
        sched, it = [], iter(seq02)
        ps = set(pos)
        for k in range(len(seq02) + a):
            sched.append(1 if k in ps else next(it))
        out.append(case(th, [0] * k + sched + [3] * 2))
    return out


# ---- model terms -------------------------------------------------------------------------------------------------

def op_term(o):
    k = o["k"]
    if k == "C":
        return [0, o["sub"].encode("latin1"), o["base"].encode("latin1"), o["tgt"]]
    if k == "D":
        return [1, 1, o["mine"]] if o["mine"] >= 0 else [1, 0, o["abs"]]
    if k == "U":
        return [2, o["mine"] if o["mine"] >= 0 else 99, STS.index(o["st"]), encz(o["exp"]), o["tgt"]]
    if k == "L":
        return [3, bytes.fromhex(o["host"]), T0]
    if k == "K":
        return [5, T0]
    if k == "F":
        vc = [encz(o["c2"])] if o["var"] == "client" else None
        vn = [b"zz.tunnox.net"] if o["var"] in ("sub", "base", "full") else None
        return [6, o["abs"], vc, vn, STS.index(o["st"]), encz(o["exp"]), o["tgt"]]
    return [4]


def ref_extract(h):
    i = h.rfind(":")
    return h[:i] if i >= 0 else h


def legacy_term(e):
    return [(e["sub"] + "." + e["base"]).encode("latin1"), e["id"], encz(e["client"]), e["tgt"], bool(e["active"]), bool(e["revoked"]), e["exp"]]


def case_value(c, o, guarded, cfix, ifirst=True, estop=True, ucheck=True):
    names = set()
    for t in c["threads"]:
        for op in t["ops"]:
            if op["k"] == "C":
                names.add(op["sub"] + "." + op["base"])
            if op["k"] == "L":
                names.add(ref_extract(bytes.fromhex(op["host"]).decode("latin1")))
    nl = sorted(names)
    assert len(nl) == len(o["finals"]), (nl, o["finals"])
    def res_term(r):
        r = list(r)
        if r[0] == 3:
            r[3] = encz(r[3])
        return r
    ths = [[encz(t["client"]), [op_term(op) for op in t["ops"]], [bool(f) for f in t["faults"]], [res_term(r) for r in to]]
           for t, to in zip(c["threads"], o["results"])]
    obs = [[[bytes.fromhex(n), int(i)] for n, i in o["idx"]],
           [[r["id"], bytes.fromhex(r["name"]), encz(r["client"]), r["tgt"], r["st"], encz(r["exp"])] for r in o["recs"]],
           [[encz(row[0]), row[1:]] for row in o["lists"]],
           list(o["guards"]), o["next"],
           [[n.encode("latin1"), res_term(f)] for n, f in zip(nl, o["finals"])],
           bool(o["next_ttl"]), list(o["glist"])]
    atomic = not (c["store"] == "hybrid" and o["split_incr"])
    return [[bool(guarded), bool(atomic), T0, bool(cfix), bool(ifirst), bool(estop), bool(ucheck)], ths, list(o["sched"]), [legacy_term(e) for e in c["reg"]],
            [legacy_term(e) for e in c["cloud"]], obs]


# ---- run -----------------------------------------------------------------------------------------------------------

def classify(c, o):
    """map the Go-side predicate failures of one case to finding keys"""
    keys = [v["key"] for v in o["viol"]]
    msgs = {v["key"]: v["msg"] for v in o["viol"]}
    out = []
    if not keys:
        return out
    has_reset = any(op["k"] == "X" for t in c.get("threads", []) for op in t["ops"])
    rest = set(keys)
    if "duplicate-mapping-id" in rest:
        root = ("hybrid-incr-per-node-counter" if c["mode"] == "nodes" else
                "counter-expiry-id-reuse" if (has_reset or c["mode"] == "backends") else
                "hybrid-incr-duplicate-id" if c.get("store") == "hybrid" else "duplicate-mapping-id")
        out.append((root, "; ".join(msgs[k] for k in keys if k in DUP_SET)))
        rest -= DUP_SET
    if "index-released-by-stale-removal" in rest:
        out.append(("delete-reclaim-race", "; ".join(msgs[k] for k in keys if k in STALE_SET and k in rest)))
        rest -= STALE_SET
    for k in keys:
        if k in rest:
            out.append((k, msgs[k]))
    return out


def run(ctx, only_cases=None):
    thorough = ctx.tier == "thorough"
    rng = ctx.rng
    binary = vlib.build_harness("C19")
    gen_text = vlib.harness_text(binary, ["gen"])
    gen_changed = vlib.write_if_changed(os.path.join(vlib.COQ, "Gen", "C19.v"), gen_text)
    guarded = "delete_is_guarded : bool := true" in gen_text
    cfix = "counter_never_expires : bool := true" in gen_text
    ifirst = "delete_index_before_record : bool := true" in gen_text
    estop = "lookup_error_stops : bool := true" in gen_text
    ucheck = "update_checks_client : bool := true" in gen_text
    broken = None
    try:
        pinfo = vlib.coq_properties("C19")
        side = len(re.findall(r"^\s*(Lemma|Theorem)\s", open(os.path.join(vlib.COQ, "Proofs", "SideC19.v")).read(), flags=re.M))
        vlib.proof_coverage(ctx, pinfo, "make -C coq Properties/C19.vo Proofs/SideC19.vo && coqc Properties/C19.v (Print Assumptions audit)",
                            extra_obligations=side)
        vlib.coq_make(["Proofs/SideC19.vo"])
    except vlib.Broken as b:
        broken = b
    if only_cases is not None:
        cases = only_cases
    else:
        cases = []
        for f in sorted(glob.glob(os.path.join(vlib.VERIF, "corpus", "C19", "*.json"))):
            cases.append(json.load(open(f)))
        cases += delete_fault_cases(rng, cfix, 300 if thorough else 30)     # first: their replays name the fault position
        cases += race_cases(rng, guarded, cfix, 400 if thorough else 40)
        cases += host_cases(rng)
        cases += forged_update_cases(rng, cfix, 200 if thorough else 25)
        cases += lookup_fault_cases(rng, cfix, 200 if thorough else 25)
        cases += impersonation_cases(rng, cfix, 200 if thorough else 25)
        cases += cleanup_cases(rng, cfix, 300 if thorough else 30)
        cases += dup_id_cases(rng, 60 if thorough else 6)
        cases += reset_cases(rng)
        cases += [{"mode": "nodes"}, {"mode": "backends"}]
        # the production create path (command handler -> adapter: create + update with the expiry) with a 1 s REAL ttl,
        # then request / sweep / re-claim / request
        cases += [{"mode": "adapter", "ttl": 1, "handler": True}] + ([{"mode": "adapter", "ttl": 1, "handler": False}] if thorough else [])
        # the legacy in-memory registry: concurrent claims of one new name (steered on its mutex, plus barrier rounds),
        # directly and through the management API's create handler (claim -> Register refuses -> rollback)
        cases += [{"mode": "registry", "registry": {"k": k, "rounds": 600 if thorough else 60, "loose": 3000 if thorough else 300,
                                                     "mgmt": 200 if thorough else 20}} for k in (8, 2, 3)]
        cases += [{"mode": "base", "bases": b, "threads": [thr(1, [C("a", 1, x) for x in xs])]}
                  for b, xs in ((BASES, ["t.io", "", "TUNNOX.NET", "tunnox.net.", "x.tunnox.net"]), ([], ["t.io", "example.com"]))]
        ex = exhaustive_cases(guarded, cfix)
        cases += ex if thorough else rng.sample(ex, 120)
        cases += [random_case(rng) for _ in range(6000 if thorough else 500)]
    outs = vlib.run_harness(binary, cases, timeout=3000)
    nfail, abandoned = 0, 0
    for c, o in zip(cases, outs):
        if o.get("abandoned"):
            abandoned += 1
            # a schedule that cannot be replayed is never skipped silently
            broken = broken or vlib.Broken("C19 harness could not replay a case (%s store): %s" % (c.get("store", c["mode"]), o["abandoned"]),
                                           json.dumps(c)[:1500])
            continue
        for key, msg in classify(c, o):
            nfail += 1
            ctx.violation(key, "real repository / domain proxy lookup: " + msg, {"case": c, "observed": o})
    sc = [(c, o) for c, o in zip(cases, outs) if c["mode"] == "sched" and not o.get("abandoned")]
    terms = [case_value(c, o, guarded, cfix, ifirst, estop, ucheck) for c, o in sc]
    mism = []
    try:
        res = vlib.model_eval("C19", terms)
        mism = [i for i, ok in enumerate(res) if not ok]
        small = [i for i in range(len(terms)) if len(sc[i][1]["sched"]) < 30 and len(json.dumps(sc[i][0])) < 1500][:24]
        vm_bad = sorted(small[k] for k in vlib.vm_crosscheck("C19", [terms[i] for i in small]))
        if vm_bad != sorted(i for i in small if not res[i]):
            raise vlib.Broken("extracted runner and vm_compute disagree on the C19 model", str(vm_bad))
        ctx.coverage["vm_compute_crosschecked_cases"] = len(small)
    except vlib.Broken as b:
        broken = broken or b
    for i in mism[:3]:
        if not ctx.violations:
            _, pred = vlib.model_eval("C19", [terms[i]], predict=True)
            ctx.violation("model-mismatch", "Corr/C19.check: the Domain model (%s removal path) and the real repository / lookup disagree on a "
                          "replayed schedule on which the Go-side predicates hold; model predicts %s" % ("repaired" if guarded else "pinned", pred[0][:600]),
                          {"case": sc[i][0], "observed": sc[i][1]}, found_input=False)
    # ---- coverage ----
    nontriv = set()
    stats = {"creates_ok": 0, "creates_refused_taken": 0, "deletes": 0, "conflicts": 0, "forbidden": 0, "routed_repo": 0, "routed_legacy": 0,
             "rejected": 0, "faults_injected": 0, "rollbacks": 0, "hybrid_store": 0, "cleanups": 0, "cleaned": 0,
             "ops_by_unbound_callers": 0, "deletes_refused_for_unbound_callers": 0}
    for c, o in sc:
        st = {"taken": 0, "routed": 0, "del": 0}
        for t, rs in zip(c["threads"], o["results"]):
            stats["faults_injected"] += sum(t["faults"])
            for op, r in zip(t["ops"], rs):
                if t["client"] <= 0:
                    stats["ops_by_unbound_callers"] += 1
                    if op["k"] == "D" and r[0] == 5 and r[1] == 5:
                        stats["deletes_refused_for_unbound_callers"] += 1
                if r[0] == 6:
                    stats["cleanups"] += 1
                    stats["cleaned"] += r[1]
                if r[0] == 0:
                    stats["creates_ok"] += 1
                elif r[0] == 1:
                    stats["deletes"] += 1
                    st["del"] += 1
                elif r[0] == 3:
                    stats["routed_repo" if r[1] == 1 else "routed_legacy"] += 1
                    st["routed"] += 1
                elif r[0] == 5:
                    if op["k"] == "C" and r[1] == 4:
                        stats["creates_refused_taken"] += 1
                        st["taken"] += 1
                    if op["k"] == "C" and r[1] == 3:
                        stats["rollbacks"] += 1
                    if r[1] == 6:
                        stats["conflicts"] += 1
                    if r[1] == 5 and op["k"] == "D":
                        stats["forbidden"] += 1
                    if op["k"] == "L":
                        stats["rejected"] += 1
        stats["hybrid_store"] += c["store"] == "hybrid"
        if len(c["sched"]) > 0 and (st["taken"] or st["del"]) and len(c["threads"]) >= 2:
            nontriv.add(json.dumps([c["threads"], c["sched"], c["store"]], sort_keys=True))
    ctx.coverage.update({
        "evaluations": len(cases), "distinct_nontrivial": len(nontriv),
        "rule": "schedules (one entry = one storage call of one caller) of 2-6 concurrent callers running create / delete / update / lookup / "
                "expiry-cleanup scripts with caller ids from {real clients, 0, -1, huge, owner+-1} "
                "scripts on overlapping names for 1-3 clients (two callers may be sessions of one client), with injected storage failures, "
                "replayed deterministically on the real HTTPDomainMappingRepository + DomainProxyModule.lookupMapping through a gated store "
                "double (memory.Storage, and hybrid.Storage with its Incr gated inside); non-trivial = non-empty prescribed schedule, >= 2 "
                "callers and at least one refused claim or one delete; distinct by (scripts, schedule, store).",
        "samples": [{"case": sc[i][0], "observed": {"results": sc[i][1]["results"], "idx": sc[i][1]["idx"], "viol": sc[i][1]["viol"]}}
                    for i in (0, len(sc) // 2) if i < len(sc)],
        "model_vs_impl_cases": len(terms), "model_vs_impl_mismatches": len(mism), "impl_predicate_failures": nfail,
        "abandoned_schedules": abandoned, "tree_variant": ("repaired removal path" if guarded else "pinned removal path") + ("" if ifirst else " (record deleted BEFORE the index entry)") + "; " +
                                                         ("counter key created without a deadline" if cfix else "pinned id counter (24 h TTL)"),
        "input_distribution": dict(stats, schedules=len(sc), other_modes=len(cases) - len(sc),
                                   host_spellings="name, name:80, name:8080, NAME, name:, name., [::1], [::1]:80, name:80:90, :name, [name]:80, truncated, prefixed"),
        "registry_rounds_with_all_claimants_parked": sum(o["next"] for c, o in zip(cases, outs) if c["mode"] == "registry"),
        "registry_rounds": sum(c["registry"]["rounds"] for c in cases if c["mode"] == "registry"),
        "generated_file_changed": gen_changed,
    })
    ctx.assumptions += [
        "each storage call (Incr, SetNX, Get, Set, Delete, list append/remove) is atomic on the store the repository is given (true of "
        "memory.Storage, redis.Storage and, since d88dca0, hybrid.Storage: checked by the hybrid-store schedules and the two-node probe)",
        "the counter key vanishes only through its own deadline (modelled, exercised on memory / hybrid / redis@miniredis); a flush of the "
        "cache tier or a restart of a cache-only counter while records persist is outside the model",
        "the removal guard (30 s TTL) does not expire while its holder is between two storage calls; TTLs of the cached keys are not exercised",
        "lookup time is a parameter of the model; the harness uses expiries 5000 s in the past / future",
        "registry and cloud-control contents are static during a schedule (stage 3 caching into the registry is then unobservable)",
        "legacy DomainRegistry: one step = one critical section of its RWMutex; its concurrent-claim scenario cannot be gated (no call between "
        "the sections) and is steered by holding a read lock until all claimants are parked (mutex state read by reflection), bounded rounds",
    ]
    if broken is not None:
        raise broken


def replay(ctx, path):
    r = json.load(open(path))
    run(ctx, only_cases=[r["replay"]["case"]])

"""C10 — cross-node frames carry tunnel bytes faithfully and reject bad input."""
import hashlib
import json
import os
import resource
import time

import vlib

MAXF = 65536          # only used to aim the generators at the boundary; the checked value comes from Gen/C10.v
HDR = 21
T_DATA, T_CLOSE, T_EOF = 1, 3, 9
TYPES = [1, 1, 1, 1, 2, 3, 4, 5, 6, 7, 8, 9, 0x10, 0x11, 0, 0x7F, 0xFF]
UNKNOWN_TYPES = [0, 2, 4, 5, 6, 7, 8, 0x10, 0x11, 0x42, 0xFF]
ID_A = "tcp-tunnel-1759260000000000000-8080"
ID_B = "tcp-tunnel-1759263600000000000-9090"


def hx(s):
    return s.encode().hex() if isinstance(s, str) else bytes(s).hex()


def pad16(b):
    b = bytes(b)[:16]
    return b + bytes(16 - len(b))


def rand_bytes(rng, n):
    k = rng.random()
    if n == 0:
        return b""
    if k < 0.2:
        return bytes([rng.randrange(256)]) * n
    if k < 0.4:
        return (b"tunnox-" * (n // 7 + 1))[:n]
    return rng.randbytes(n)


NONASCII_PAIRS = [("隧道-华东节点-01", "隧道-华东节点-02"), ("tunnel-zürich-é1", "tunnel-zürich-é2"), ("😀😀😀😀a😀1", "😀😀😀😀a😀2"),
                  ("Ünïcödé-tünnél-A", "Ünïcödé-tünnél-B"), ("туннель-москва-1", "туннель-москва-2")]


def rand_nonascii_id(rng):
    """ids with 2-, 3- and 4-byte runes: at most 16 runes but more than 16 bytes"""
    alpha = ["é", "ü", "ж", "隧", "道", "节", "😀", "a", "-", "7"]
    while True:
        s = "".join(rng.choice(alpha) for _ in range(rng.randrange(6, 17)))
        if len(s.encode()) > 16:
            return s


def rand_id_string(rng):
    if rng.random() < 0.12:
        return rand_nonascii_id(rng)
    k = rng.random()
    if k < 0.35:
        return "%s-tunnel-%d-%d" % (rng.choice(["tcp", "udp", "socks5", "http"]),
                                    rng.randrange(10 ** 14, 10 ** 15) * 10 ** 4, rng.choice([80, 443, 8080, 53, 1080, 22]))
    if k < 0.6:
        return "".join(rng.choice("abcdefXYZ0123456789-_") for _ in range(rng.choice([1, 3, 8, 15, 16])))
    if k < 0.8:
        return "".join(rng.choice("abcdefXYZ0123456789-_") for _ in range(rng.choice([17, 18, 24, 40])))
    return "t%d" % rng.randrange(10 ** 6)


def cut_variants(rng, n):
    n = max(n, 1)
    return [[], [1] * min(n, 400), [rng.choice([1, 2, 3, 5, 16, 20, 21, 22, 64, 1000]) for _ in range(min(n, 300))],
            [rng.randrange(1, 30) for _ in range(min(n, 300))]]


# ------------------------------------------------------------------------------------------------
# generators
# ------------------------------------------------------------------------------------------------

def gen_enc(rng, n, big=False):
    out = []
    lens = [0, 0, 1, 2, 5, 20, 21, 22, 255, 256, 1000]
    for _ in range(n):
        fr = []
        for _ in range(rng.choice([1, 1, 2, 3, 4, 6])):
            ln = rng.choice(lens + [rng.randrange(600)])
            fr.append({"tid": rng.choice([rng.randbytes(16), pad16(b"abc"), bytes(16), pad16(ID_A.encode())]).hex(),
                       "ty": rng.choice(TYPES), "data": rand_bytes(rng, ln).hex()})
        approx = sum(HDR + len(f["data"]) // 2 for f in fr)
        for cuts in rng.sample(cut_variants(rng, approx), 2):
            out.append({"mode": "enc", "frames": fr, "cuts": cuts})
    if big:
        for ln in [MAXF - 1, MAXF, MAXF + 1, 2 * MAXF]:
            fr = [{"tid": rng.randbytes(16).hex(), "ty": 1, "data": rand_bytes(rng, ln).hex()},
                  {"tid": rng.randbytes(16).hex(), "ty": 9, "data": "0102"}]
            out.append({"mode": "enc", "frames": fr, "cuts": rng.choice([[], [1, 20, 1, 4096, 7], [65536, 1, 65536]])})
    return out


# the giant values are rare: if the length check ever moved after the allocation each would cost gigabytes
HOSTILE_LENS = [0, 1, MAXF - 1, MAXF, MAXF + 1, MAXF + 1, 1 << 17, 1 << 20, 1 << 20, 1 << 24] * 4 + [1 << 31, (1 << 32) - 1]


def gen_dec(rng, wires, per):
    out = []
    for w in wires:
        w = bytes.fromhex(w)
        for _ in range(per):
            b = bytearray(w)
            k = rng.randrange(7)
            if k == 0 and b:
                b = b[:rng.randrange(len(b))]
            elif k == 1 and b:
                b[rng.randrange(len(b))] ^= 1 << rng.randrange(8)
            elif k == 2 and len(b) >= HDR:
                b[17:21] = rng.choice(HOSTILE_LENS).to_bytes(4, "big")
            elif k == 3:
                b = bytearray(rng.randbytes(rng.choice([0, 1, 20, 21, 22, 30, 60])))
            elif k == 4 and b:
                i = rng.randrange(len(b))
                b = b[:i] + rng.randbytes(rng.randrange(1, 4)) + b[i:]
            elif k == 5:
                b = bytearray(rng.randbytes(17) + rng.choice(HOSTILE_LENS).to_bytes(4, "big") + rng.randbytes(rng.randrange(0, 40)))
            else:
                b = b + bytearray(rng.randbytes(16) + bytes([rng.randrange(256)]) + rng.choice(HOSTILE_LENS).to_bytes(4, "big"))
            n = max(len(b), 1)
            cuts = rng.choice([[], [1] * min(n, 300), [rng.randrange(1, 25) for _ in range(min(n, 200))]])
            out.append({"mode": "dec", "wire": bytes(b).hex(), "cuts": cuts})
    return out


def gen_stream(rng, n, collide_every=0):
    out = []
    for i in range(n):
        mine = rand_id_string(rng)
        writers = [mine]
        for _ in range(rng.choice([0, 1, 1, 2])):
            s = rand_id_string(rng)
            # distinct wire ids: the colliding region is the known finding, generated separately below
            if pad16(s.encode()) != pad16(mine.encode()) and s not in writers:
                writers.append(s)
        if collide_every and i % collide_every == collide_every - 1 and len(mine) > 16:
            writers.append(mine[:16] + "-other-tunnel")
        if collide_every and i % collide_every == collide_every // 2:
            mine, other = rng.choice(NONASCII_PAIRS)     # two tunnels whose ids share their first 16 bytes
            writers = [mine, other]
        ops = []
        for _ in range(rng.choice([1, 2, 3, 4, 6, 9, 14])):
            k = rng.random()
            w = rng.randrange(len(writers)) if rng.random() < 0.5 else 0
            if k < 0.62:
                ln = rng.choice([0, 1, 2, 3, 7, 64, 300, rng.randrange(2000)])
                ops.append({"k": "w", "w": w, "data": rand_bytes(rng, ln).hex()})
            elif k < 0.70:
                ops.append({"k": "cw", "w": w})
            elif k < 0.76:
                ops.append({"k": "c", "w": w})
            else:
                # raw WriteFrame by another party on the same connection: foreign wire id with any type
                # (including data/EOF/close), or this tunnel's wire id with a type Read does not interpret
                # the 16 wire bytes are derived from the reader's id by the tree's own TunnelIDFromString (resolve_ids)
                k2 = rng.random()
                flip = None
                if k2 < 0.4:
                    ty = rng.choice(UNKNOWN_TYPES)
                elif k2 < 0.55:
                    # a data frame of THIS tunnel written by another FrameStream object / WriteFrame caller
                    # (also zero-length ones, which Write itself never emits): owed to the reader like any other
                    ty = T_DATA
                else:
                    flip = [rng.randrange(16), rng.randrange(8)]     # differs in ONE bit somewhere
                    ty = rng.choice([T_DATA, T_DATA, T_EOF, T_CLOSE] + UNKNOWN_TYPES)
                ops.append({"k": "f", "tid_of": hx(mine), "flip": flip, "ty": ty, "data": rand_bytes(rng, rng.choice([0, 1, 5, 40])).hex()})
        if rng.random() < 0.6 and not any(o["k"] in ("cw", "c") and o.get("w") == 0 for o in ops):
            ops.append({"k": rng.choice(["cw", "c"]), "w": 0})
        if rng.random() < 0.3:
            ops.append({"k": "w", "w": 0, "data": rand_bytes(rng, rng.choice([1, 10])).hex()})   # write after close
        caps = [rng.choice([1, 1, 2, 3, 5, 7, 63, 64, 65, 299, 300, 301, 4096]) for _ in range(rng.choice([0, 1, 3, 8, 30]))]
        c = {"mode": "stream", "writers": [hx(w) for w in writers], "reader": hx(mine), "reader_cw": rng.random() < 0.15,
             "ops": ops, "caps": caps, "dcap": rng.choice([1, 2, 16, 100, 1024, 32768])}
        if rng.random() < 0.12:
            c["dribble"] = [rng.choice([1, 2, 5, 20, 21, 22, 40]) for _ in range(rng.randrange(3, 25))]
        if rng.random() < 0.4:
            add_tracker(rng, c)
        out.append(c)
    return out


def add_tracker(rng, c):
    """give the reading stream of a stream case a TunnelStateTracker and events MarkTunnelClosed(own id / a foreign id / an
    unrelated id) before the first Read or after k Reads have returned"""
    ids = [c["reader"]] * 3 + list(c["writers"]) + [hx(rand_id_string(rng))]
    c["tracker"] = True
    c["premarked"] = [rng.choice(ids) for _ in range(rng.choice([0, 0, 1, 2]))]
    c["marks"] = [{"after": rng.choice([0, 0, 1, 2, 3, 5, 9]), "id": rng.choice(ids)} for _ in range(rng.choice([0, 1, 2, 3]))]
    return c


def gen_stream_tracker(rng, n):
    """the stream's OWN tunnel is reported closed by the tracker while frames written before the sender's close are still
    unread (ids <= 16 bytes, which TunnelIDToString gives back, and longer ones), with residual frames of a closed
    foreign tunnel in between"""
    out = []
    for i in range(n):
        mine = rng.choice(["t%d" % rng.randrange(10 ** 6), "demo-tunnel", "1234567890123456", rand_id_string(rng)])
        other = "old-tunnel-%d" % rng.randrange(100)
        ops = []
        for _ in range(rng.choice([1, 3, 5])):
            ops.append({"k": "w", "w": 0, "data": rand_bytes(rng, rng.choice([1, 5, 300, 4002])).hex()})
            if rng.random() < 0.4:
                ops.append({"k": "w", "w": 1, "data": rand_bytes(rng, 7).hex()})
        if rng.random() < 0.5:
            ops.append({"k": "c", "w": 1})
        ops.append({"k": rng.choice(["c", "cw"]), "w": 0})
        c = {"mode": "stream", "writers": [hx(mine), hx(other)], "reader": hx(mine), "reader_cw": False, "ops": ops,
             "caps": [rng.choice([1, 100, 4096])] * rng.choice([0, 2]), "dcap": rng.choice([64, 4096, 32768]),
             "tracker": True, "premarked": [hx(other)] + ([hx(mine)] if i % 4 == 0 else []),
             "marks": [] if i % 4 == 0 else [{"after": rng.choice([0, 0, 1, 2, 4]), "id": hx(mine)}]}
        out.append(c)
    return out


def tracker_states(c):
    """what the reader's tracker reports closed at each Read (cumulative), and from then on"""
    if not c.get("tracker"):
        return [], []
    pre = [bytes.fromhex(x) for x in c.get("premarked") or []]
    marks = c.get("marks") or []
    last = max([m["after"] for m in marks], default=-1)
    cls = []
    for i in range(last + 1):
        cls.append(pre + [bytes.fromhex(m["id"]) for m in marks if m["after"] <= i])
    return cls, pre + [bytes.fromhex(m["id"]) for m in marks]


def gen_dialog(rng, n):
    """two FrameStreams of one tunnel on one connection that stays OPEN: sequential scripts of calls on either end.
    Reads are only generated where the real Read cannot block on a correct tree (bytes available / end marker sent)."""
    out = []

    def fixed(first, second, reader_k):
        # X writes and ends its direction (first); Y reads that end-of-stream, answers and ends with `second`; X reads to the end
        for x in (0, 1):
            y = 1 - x
            st = [{"who": x, "k": "w", "data": rand_bytes(rng, rng.choice([1, 300, 21000])).hex()}, {"who": x, "k": first}]
            if reader_k == "rn+ra":
                st.append({"who": y, "k": "rn", "n": 1, "cap": 64})
            big = len(st[0]["data"]) > 6000      # byte-sized buffers on large payloads are quadratic in the list model
            st.append({"who": y, "k": "ra", "cap": rng.choice([512, 32768] if big else [1, 64, 32768])})
            for _ in range(rng.choice([0, 1, 3])):
                st.append({"who": y, "k": "w", "data": rand_bytes(rng, rng.choice([1, 4200, 21000])).hex()})
            st += [{"who": y, "k": second}, {"who": x, "k": "ra", "cap": rng.choice([512, 4096, 32768])}]
            out.append({"mode": "dialog", "reader": hx(rand_id_string(rng)), "dialog": st})

    for first in ("cw", "c"):
        for second in ("c", "cw"):
            for rk in ("ra", "rn+ra"):
                fixed(first, second, rk)
    for _ in range(n):
        sent, taken, closed = [0, 0], [0, 0], [False, False]
        st = []
        for _ in range(rng.choice([3, 6, 10, 16])):
            x = rng.randrange(2)
            y = 1 - x
            avail = sent[y] - taken[x]
            k = rng.random()
            if k < 0.4 and (not closed[x] or rng.random() < 0.2) and sent[x] - taken[y] < 60000:
                ln = rng.choice([1, 5, 300, 5000, 21000])
                st.append({"who": x, "k": "w", "data": rand_bytes(rng, ln).hex()})
                if not closed[x]:
                    sent[x] += ln
            elif k < 0.55 and not closed[x]:
                st.append({"who": x, "k": rng.choice(["cw", "c"])})
                closed[x] = True
            elif k < 0.8 and avail > 0:
                nn = rng.randrange(1, avail + 1)
                st.append({"who": x, "k": "rn", "n": nn, "cap": rng.choice([1, 3, 64, 4096, 32768] if nn < 3000 else [4096, 32768])})
                taken[x] += nn
            elif closed[y]:
                st.append({"who": x, "k": "ra", "cap": rng.choice([1, 64, 4096, 32768]) if avail < 3000 else 4096})
                taken[x] = sent[y]
        for x in (0, 1):
            if not closed[x]:
                st.append({"who": x, "k": rng.choice(["cw", "c"])})
        for x in rng.sample([0, 1], 2):
            st.append({"who": x, "k": "ra", "cap": 4096})
        out.append({"mode": "dialog", "reader": hx(rand_id_string(rng)), "dialog": st})
    return out


def gen_pool(rng, n):
    """a pooled connection reused by consecutive tunnels through the real NodeConnectionPool.Get / Conn.IsHealthy / Release;
    in some cases the previous tunnel's peer sends a late frame after the connection went back to the pool"""
    out = []
    for i in range(n):
        rounds = []
        for r in range(rng.choice([2, 2, 3, 4])):
            tid = "p%d-%d" % (rng.randrange(10 ** 6), r)
            rd = {"id": hx(tid), "len": rng.choice([1, 5000, 70000, 220000]), "chunk": rng.choice([1000, 32768, 70000]),
                  "end": rng.choice(["c", "cw"]), "idle_ms": rng.choice([0, 2, 5])}
            if i % 6 == 5 and rng.random() < 0.6:
                late = pad16(tid.encode()) + bytes([rng.choice([T_CLOSE, T_DATA])])
                body = rand_bytes(rng, rng.choice([0, 0, 40]))
                rd["residual"] = (late + len(body).to_bytes(4, "big") + body).hex()
                rd["idle_ms"] = 5
            rounds.append(rd)
        out.append({"mode": "pool", "seed": rng.randrange(1 << 30), "rounds": rounds})
    return out


SWEEP_WINDOWS = [(0, 64), (2000, 2100), (4070, 4120), (8150, 8200), (16340, 16400), (32740, 32800), (65500, 65536)]


def sweep_groups(windows, thin=1, cap=400000):
    """payload sizes of the windows, value by value (or every thin-th value plus both ends), grouped so that one case
    (one connection, many frames) carries at most `cap` bytes"""
    for lo, hi in windows:
        grp, tot = [], 0
        for n in range(lo, hi + 1):
            if thin > 1 and n not in (lo, hi) and (n - lo) % thin:
                continue
            if grp and tot + n > cap:
                yield grp
                grp, tot = [], 0
            grp.append(n)
            tot += n
        if grp:
            yield grp


def gen_size_sweep(rng, thorough):
    """frame payload sizes swept value by value around the powers of two / usual buffer-pool sizes: FrameStream.Write ->
    WriteFrame over loopback TCP -> FrameStream.Read (stream mode) and WriteFrameToWriter -> ReadFrameFromReader (enc mode).
    Every size goes through the Go-side predicate; the model comparison covers every size of the windows up to 8200 in both
    tiers and the 16 K / 32 K / 64 K windows in the thorough tier only (the list model is slow on megabytes)."""
    out = []

    def add(grp, nomodel):
        pay = [rand_bytes(rng, n) for n in grp]
        ops = [{"k": "w", "w": 0, "data": p.hex()} for p in pay] + [{"k": rng.choice(["c", "cw"]), "w": 0}]
        out.append({"mode": "stream", "writers": [hx("sweep")], "reader": hx("sweep"), "reader_cw": False, "ops": ops,
                    "caps": [], "dcap": rng.choice([32768, 65536, 70000]), "big": True, "sweep": [grp[0], grp[-1]], "nomodel": nomodel})
        out.append({"mode": "enc", "frames": [{"tid": pad16(b"sweep").hex(), "ty": 1, "data": p.hex()} for p in pay],
                    "cuts": rng.choice([[], [21, 1, 4096], [65536]]), "sweep": [grp[0], grp[-1]], "nomodel": nomodel})

    small = [w for w in SWEEP_WINDOWS if w[1] <= 8200]
    large = [w for w in SWEEP_WINDOWS if w[1] > 8200]
    for grp in sweep_groups(small, cap=20000):    # model cost grows with frames x bytes per case: keep the cases small
        add(grp, False)
    for grp in sweep_groups(large):
        add(grp, not thorough)
    return out


def gen_listener(rng, n):
    """the real CrossNodeListener.handleConnection: TargetReady frame + tunnel bytes in one write, cut anywhere, or the
    tunnel bytes only after the frame was consumed"""
    out = []
    for i in range(n):
        ln = rng.choice([0, 1, 20, 1000, 4075, 4096, 5000, 70000])
        order = "separate" if i % 5 == 4 else "coalesced"
        cuts = rng.choice([[], [], [rng.randrange(1, 21)], [21], [rng.randrange(22, 60)], [rng.randrange(1, 80) for _ in range(4)]])
        out.append({"mode": "listener", "reader": hx(rand_id_string(rng)), "up_len": ln, "seed": rng.randrange(1 << 30),
                    "order": order, "cuts": cuts})
    return out


def gen_stream_big(rng, thorough):
    out = []
    sizes = [MAXF - 1, MAXF, MAXF + 1, 2 * MAXF - 1, 2 * MAXF, 2 * MAXF + 1, 200000]
    if thorough:
        sizes += [3 * MAXF, 3 * MAXF + 1, 4 * MAXF + 17, 1 << 20]
    for s in sizes:
        for dcap in ([32768, 65536] if not thorough else [4096, 32768, 65535, 65536, 65537, 100000]):
            ops = [{"k": "w", "w": 0, "data": rand_bytes(rng, rng.choice([0, 5])).hex()},
                   {"k": "w", "w": 1, "data": rand_bytes(rng, 100).hex()},
                   {"k": "w", "w": 0, "data": rng.randbytes(s).hex()},
                   {"k": "f", "tid": rng.randbytes(16).hex(), "ty": 1, "data": rng.randbytes(50).hex()},
                   {"k": "w", "w": 0, "data": rand_bytes(rng, 3).hex()},
                   {"k": rng.choice(["cw", "c"]), "w": 0}]
            out.append({"mode": "stream", "writers": [hx("big-tunnel"), hx("other")], "reader": hx("big-tunnel"), "reader_cw": False,
                        "ops": ops, "caps": [rng.choice([512, 1000, 32768, 70000])], "dcap": dcap, "big": True})
    return out


def gen_stream_hostile(rng, n):
    out = []
    for _ in range(n):
        ops = [{"k": "w", "w": 0, "data": rand_bytes(rng, rng.choice([1, 4, 100])).hex()}]
        k = rng.randrange(4)
        if k == 0:     # oversized length field, then more traffic
            raw = pad16(b"h") + bytes([rng.choice([1, 3, 9, 7])]) + rng.choice([x for x in HOSTILE_LENS if x > MAXF]).to_bytes(4, "big") + rng.randbytes(rng.randrange(0, 60))
        elif k == 1:   # truncated header at the end of the connection
            raw = rng.randbytes(rng.randrange(1, 21))
        elif k == 2:   # truncated payload
            raw = pad16(b"h") + bytes([1]) + (50).to_bytes(4, "big") + rng.randbytes(rng.randrange(0, 50))
        else:
            raw = rng.randbytes(rng.randrange(1, 80))
        ops.append({"k": "raw", "data": raw.hex()})
        if rng.random() < 0.5:
            ops.append({"k": "w", "w": 0, "data": rand_bytes(rng, 5).hex()})
        out.append({"mode": "stream", "writers": [hx("h")], "reader": hx("h"), "reader_cw": rng.random() < 0.4,
                    "ops": ops, "caps": [rng.choice([1, 3, 64])], "dcap": 64})
    return out


def gen_conc(rng, n):
    """writers of different tunnels in their own goroutines on one connection (Go-side predicate only)"""
    out = []
    for _ in range(n):
        writers = ["conc-mine", "conc-other-1", "conc-other-2"]
        ops = []
        for w in range(3):
            for _ in range(rng.choice([5, 20, 40])):
                ops.append({"k": "w", "w": w, "data": rand_bytes(rng, rng.choice([1, 100, 5000, 40000, 70000])).hex()})
        for _ in range(rng.choice([0, 10])):
            tid = bytearray(pad16(b"conc-mine"))
            tid[rng.randrange(16)] ^= 1 << rng.randrange(8)
            ops.append({"k": "f", "tid": bytes(tid).hex(), "ty": rng.choice([1, 3, 9, 2]), "data": rand_bytes(rng, rng.choice([0, 300, 30000])).hex()})
        rng.shuffle(ops)
        ops.append({"k": rng.choice(["cw", "c"]), "w": 0})
        out.append({"mode": "conc", "writers": [hx(w) for w in writers], "reader": hx("conc-mine"), "reader_cw": False,
                    "ops": ops, "caps": [], "dcap": rng.choice([4096, 32768, 65536])})
    return out


def gen_fwd(rng, n):
    """real runBidirectionalForward on both nodes over real FrameStreams (Go-side predicate only)"""
    out = []
    sizes = [0, 1, 100, 4096, 32768, 32769, MAXF, MAXF + 1, 150000]
    for _ in range(n):
        out.append({"mode": "fwd", "reader": hx(rand_id_string(rng)), "req": rand_bytes(rng, rng.choice(sizes)).hex(),
                    "resp": rand_bytes(rng, rng.choice(sizes)).hex(),
                    "wsize": [rng.choice([1, 7, 1000, 32768, 70000, 200000]) for _ in range(rng.randrange(0, 6))]})
    return out


def gen_gated(rng, n, exhaustive_len):
    """schedules of Model/Forward.v replayed on the real runBidirectionalForward through gated (non-TCP) doubles:
    token 0 = next Read/Write call of the upload loop, 1 = of the download loop, others = no-op"""
    out = []
    A, B = [b"AAAAAAAA".hex(), b"CCCC".hex()], [b"BBBBBBBB".hex(), b"DDDD".hex()]
    # exhaustive small scope: every schedule over {0,1} of the given length on 2 chunks per direction
    for m in range(1 << exhaustive_len):
        out.append({"mode": "gated", "up": A, "down": B, "sched": [(m >> i) & 1 for i in range(exhaustive_len)], "counters": bool(m & 1),
                    "up_eofl": bool(m & 2), "down_eofl": bool(m & 4), "shape": ("rwc", "rw", "cw")[m % 3], "use_closer": bool(m & 8)})
    for _ in range(n):
        def chunks(base):
            return [bytes((base + rng.randrange(8)) for _ in range(rng.choice([1, 2, 8, 100, 1000, 32768] if rng.random() < 0.1 else [1, 2, 8, 100])))
                    .hex() for _ in range(rng.choice([0, 1, 2, 3, 6]))]
        up, down = chunks(0x41), chunks(0x61)
        total = 2 * (len(up) + len(down)) + 2
        k = rng.random()
        if k < 0.25:
            sched = [i % 2 for i in range(rng.randrange(total + 1))]
        elif k < 0.4:
            sched = [0, 1, 1, 0] * (total // 4 + 1)
        elif k < 0.55:
            sched = [1] * (2 * len(down) + 1) + [0] * (2 * len(up) + 1)      # the download direction ends first ...
        elif k < 0.65:
            sched = [0] * (2 * len(up) + 1) + [1] * (2 * len(down) + 1)      # ... or the upload direction
        else:
            sched = [rng.choice([0, 0, 0, 1, 1, 1, 2, 5]) for _ in range(rng.randrange(2 * total + 1))]
        out.append({"mode": "gated", "up": up, "down": down, "sched": sched, "counters": rng.random() < 0.6,
                    "up_eofl": rng.random() < 0.5, "down_eofl": rng.random() < 0.5,
                    "shape": rng.choice(["rwc", "rw", "cw"]), "use_closer": rng.random() < 0.4})
    return out


def gen_halfclose(rng, thorough):
    """order of half-closes x what the forwarder can see of its LocalConn (CloseWrite / Read-Write-Close / Read-Write)"""
    out = []
    ups = [1, 200000] + ([2 << 20] if thorough else [])
    for order in ("peer-first", "local-first"):
        for local in ("tcp", "pipe"):
            for shape, closer in (("cw", False), ("rwc", False), ("rwc", True), ("rw", False), ("rw", True)):
                for up in ups:
                    out.append({"mode": "halfclose", "order": order, "local": local, "shape": shape, "use_closer": closer,
                                "counters": rng.random() < 0.5, "up_len": up, "down_len": rng.choice([0, 1, 5000, 70000]),
                                "seed": rng.randrange(1 << 30)})
    return out


def gen_dec_all_types(rng):
    """every type byte x {legal, just oversize, 0xFFFFFFFF} declared length (the decoder must reject, never panic)"""
    out = []
    for ty in range(256):
        tid = rng.randbytes(16)
        for ln, payload in ((3, b"abc"), (MAXF + 1, rng.randbytes(rng.choice([0, 30]))), (0xFFFFFFFF, b"")):
            out.append({"mode": "dec", "wire": (tid + bytes([ty]) + ln.to_bytes(4, "big") + payload).hex(),
                        "cuts": rng.choice([[], [1] * 30, [16, 1, 4, 2]])})
    return out


def gen_stream_hostile_types(rng):
    """the same oversize headers, for every type byte, arriving on a connection read by a real FrameStream"""
    out = []
    for ty in range(256):
        raw = pad16(b"h") + bytes([ty]) + rng.choice([MAXF + 1, 1 << 20, 0xFFFFFFFF]).to_bytes(4, "big") + rng.randbytes(rng.randrange(0, 30))
        out.append({"mode": "stream", "writers": [hx("h")], "reader": hx("h"), "reader_cw": ty % 2 == 0,
                    "ops": [{"k": "w", "w": 0, "data": "0102"}, {"k": "raw", "data": raw.hex()}], "caps": [], "dcap": 64})
    return out


def gen_fwdcut(rng, n):
    """real forwarder between a chunk-oracle local source (optionally last chunk together with io.EOF) and a real
    FrameStream; traffic counters configured (both directions) in most cases"""
    out = []
    sizes = [0, 1, 2, 100, 4103, 32767, 32768, 32769, MAXF, MAXF + 1, 100007]
    for i in range(n):
        ln = rng.choice(sizes + [rng.randrange(3000)])
        cuts = rng.choice([[], [rng.choice([1, 7, 100, 5000, 32768, 40000]) for _ in range(rng.randrange(1, 12))],
                           [1] * min(ln, 40)])
        resp = [rand_bytes(rng, rng.choice([1, 8, 1000, 40000, MAXF + 5])).hex() for _ in range(rng.choice([0, 1, 1, 2, 3]))]
        out.append({"mode": "fwdcut", "wire": rand_bytes(rng, ln).hex(), "cuts": cuts, "up_eofl": i % 2 == 0,
                    "counters": rng.random() < 0.8, "down": resp})
    return out


def gen_duplex(rng, thorough):
    """both directions streaming distinct patterned payloads at the same time through the real forwarders"""
    out = []
    big = [4 << 20, 8 << 20] if thorough else [262144]
    small = [0, 1, 8192, 100000]
    for local in ("tcp", "pipe"):
        for counters in (True, False):
            for b in big:
                pairs = [(b, b), (b, rng.choice(small)), (rng.choice(small), b)]
                if thorough:
                    pairs += [(b, b // 2 + 1), (b // 3, b)]
                for u, d in pairs:   # half-close orders follow from the lengths: the shorter direction closes first
                    out.append({"mode": "duplex", "up_len": u, "down_len": d, "seed": rng.randrange(1 << 30), "local": local,
                                "counters": counters, "small_buf": False,
                                "wsize": [rng.choice([1000, 4096, 32768, 32769, 70000, 1 << 20]) for _ in range(rng.randrange(0, 4))]})
    return out


def gen_tid_collide(rng, n):
    """distinct long ids that agree on their first 16 bytes and differ in ONE place (17th byte, middle, last byte, length):
    the known finding on a truncating tree; on a tree that hashes long ids any shared wire id is a violation"""
    out = [{"mode": "tid", "strs": [hx(ID_A), hx(ID_B)]}]
    # non-ASCII ids (<= 16 runes, > 16 bytes) sharing their first 16 BYTES, also with the cut in the middle of a rune
    for a, b in NONASCII_PAIRS:
        out.append({"mode": "tid", "strs": [hx(a), hx(b)]})
    for _ in range(max(4, n // 5)):
        base = rand_nonascii_id(rng)
        bb = base.encode()
        other = bb[:-1] + bytes([bb[-1] ^ 1]) if bb[-1] < 0x80 else bb + b"x"
        if pad16(bb) == pad16(other) and bb != other:
            out.append({"mode": "tid", "strs": [bb.hex(), other.hex()]})
    for _ in range(n):
        base = "%s-tunnel-%d-%d" % (rng.choice(["tcp", "udp", "http"]), rng.randrange(10 ** 18, 10 ** 19), rng.choice([80, 8080, 65535]))
        b = bytearray(base.encode())
        k = rng.randrange(5)
        if k == 0:
            i = 16
        elif k == 1:
            i = len(b) - 1
        elif k == 2:
            i = rng.randrange(16, len(b))
        if k <= 2:
            b[i] = 0x30 + (b[i] - 0x30 + 1 + rng.randrange(8)) % 10 if 0x30 <= b[i] <= 0x39 else b[i] ^ 1
            other = bytes(b)
        elif k == 3:
            other = bytes(b) + b"0"          # one is a proper prefix of the other
        else:
            other = bytes(b[:-1])            # (still longer than 16 bytes)
        out.append({"mode": "tid", "strs": [hx(base), other.hex()]})
    return out


def resolve_ids(binary, cases):
    """ask the tree's own TunnelIDFromString for the wire id of every id string used by the stream cases (the function is
    verbatim for <= 16 bytes; for longer ids it is the first 16 bytes or a hash, depending on the tree) and fill in the
    16 wire bytes of the raw frames that were generated relative to the reader's id"""
    strs = set()
    for c in cases:
        if c["mode"] == "dialog":
            strs.add(c["reader"])
        if c["mode"] == "stream":
            strs.add(c["reader"])
            strs.update(c["writers"])
            strs.update(op["tid_of"] for op in c["ops"] if "tid_of" in op)
    strs = sorted(strs)
    idmap = {}
    if strs:
        outs = vlib.run_harness(binary, [{"mode": "tid", "strs": [x]} for x in strs], timeout=600)
        idmap = {x: o["ids"][0] for x, o in zip(strs, outs)}
    for c in cases:
        if c["mode"] == "dialog":
            c["reader_wid"] = idmap[c["reader"]]
        if c["mode"] == "stream":
            c["reader_wid"] = idmap[c["reader"]]
            c["writer_wids"] = [idmap[w] for w in c["writers"]]
            for op in c["ops"]:
                if "tid_of" in op:
                    t = bytearray(bytes.fromhex(idmap[op["tid_of"]]))
                    if op.get("flip"):
                        t[op["flip"][0]] ^= 1 << op["flip"][1]
                    op["tid"] = bytes(t).hex()
    return idmap


def gen_tid(rng, n):
    out = [{"mode": "tid", "strs": [hx(""), hx("a"), hx("1234567890123456"), hx("12345678901234567x"), hx("my-tunnel-id")]}]
    for _ in range(n):
        strs = []
        while len(strs) < 4:
            s = rand_id_string(rng)
            if all(pad16(s.encode()) != pad16(t.encode()) for t in strs):
                strs.append(s)
        out.append({"mode": "tid", "strs": [hx(s) for s in strs]})
    return out


# ------------------------------------------------------------------------------------------------
# model values
# ------------------------------------------------------------------------------------------------

def case_values(c, o):
    """the universal values Corr/C10.check expects (a tid case expands to one value per string)"""
    hb = bytes.fromhex
    if c["mode"] in ("dec", "enc") and any(x["consumed"] < 0 for x in o.get("obs") or []):
        return []   # the decoder panicked: no result to compare, already reported by the predicate (decoder-panic)
    if c["mode"] in ("dec", "enc"):
        fr = None
        if c["mode"] == "enc":
            fr = [[[hb(f["tid"]), f["ty"], hb(f["data"])] for f in c["frames"]]]
        obs = [[1, hb(x["tid"]), x["ty"], hb(x["data"]), x["consumed"]] if x["ok"] else [0, x["eof"], x["consumed"]] for x in o["obs"]]
        return [[0, fr, hb(o["wire"]), list(c["cuts"]), obs]]
    if o.get("skipped") or c.get("nomodel"):
        return []
    if c["mode"] in ("conc", "fwd", "duplex", "halfclose", "pool", "listener"):
        return []
    if c["mode"] == "dialog":
        kinds = {"w": 0, "cw": 1, "c": 2, "rn": 3, "ra": 4}
        steps = [[st["who"], kinds[st["k"]], hb(st.get("data", "")) if st["k"] == "w" else st.get("n", 0), max(1, st.get("cap", 1))]
                 for st in c["dialog"]]
        terms = {"ok": 0, "eof": 1, "blocked": 2, "err": 3}
        obs = [[hb(x["data"]), terms.get(x["term"], 3)] if st["k"] in ("rn", "ra") else [x["n"], x["e"]]
               for st, x in zip(c["dialog"], o.get("steps") or [])]
        return [[5, hb(o_wid(c)), steps, obs]]
    if c["mode"] == "gated":
        if "up_final" not in o and not o["prop_ok"]:
            return []   # the replay hung: already reported by the predicate
        g = lambda k: hb(o.get(k) or "")
        return [[3, [hb(x) for x in c["up"]], [hb(x) for x in c["down"]], list(c["sched"]),
                 g("up_mid"), g("down_mid"), g("up_final"), g("down_final"), bool(c.get("up_eofl")), bool(c.get("down_eofl")),
                 bool(c.get("counters")), max(0, o.get("sent", 0)), max(0, o.get("recv", 0))]]
    if c["mode"] == "fwdcut":
        if o.get("prop_key") == "forwarder-hang":
            return []
        g = lambda k: hb(o.get(k) or "")
        return [[4, hb(c["wire"]), list(c["cuts"]), bool(c.get("up_eofl")), [hb(x) for x in c["down"]], g("up_final"), g("down_final"),
                 bool(c.get("counters")), max(0, o.get("sent", 0)), max(0, o.get("recv", 0)), b"fwdcut-tunnel"]]     # real goroutine interleaving: frame order is not reproducible, Go-side predicate only
    if c["mode"] == "stream":
        ops = []
        for op in c["ops"]:
            if op["k"] == "w":
                ops.append([0, op["w"], hb(op["data"])])
            elif op["k"] == "cw":
                ops.append([1, op["w"]])
            elif op["k"] == "c":
                ops.append([2, op["w"]])
            elif op["k"] == "f":
                ops.append([3, hb(op["tid"]), op["ty"], hb(op["data"])])
            else:
                ops.append([4, hb(op["data"])])
        term = {"eof": 0, "err": 1}.get(o.get("term"), 9)
        final = {"eof": 0, "err": 1, "data": 2}.get(o.get("final"), 9)
        return [[1, hb(c["reader_wid"]), bool(c.get("reader_cw")), [hb(w) for w in c["writer_wids"]], ops,
                 [max(1, k) for k in c["caps"]], max(1, c["dcap"]), hb(o["wire"]), [[r["n"], r["e"]] for r in o["wres"]],
                 [hb(r) for r in (o.get("reads") or [])], term, final, bool(o["broken"]), *tracker_states(c)]]
    return [[2, hb(s), hb(i), hb(b)] for s, i, b in zip(c["strs"], o["ids"], o["backs"])]


def o_wid(c):
    return c["reader_wid"]


def short(c):
    """a readable copy of a case for evidence/replay descriptions"""
    def cut(v):
        if isinstance(v, str) and len(v) > 96:
            return v[:64] + "...(%d bytes)" % (len(v) // 2)
        if isinstance(v, list):
            return [cut(x) for x in v[:12]] + (["...(%d more)" % (len(v) - 12)] if len(v) > 12 else [])
        if isinstance(v, dict):
            return {k: cut(x) for k, x in v.items()}
        return v
    return cut(c)


def shrink(binary, case, key):
    """greedy: drop ops / frames / cuts, halve payloads, while the Go-side predicate fails with the same key"""
    t_end = time.time() + 40          # a shrink never takes longer than this, however slow (or hanging) each attempt is

    def fails(c):
        if time.time() > t_end:
            return False
        try:
            o = vlib.run_harness(binary, [c], timeout=30, env={"VERIF_C10_FASTHANG": "1"})[0]
            return (not o["prop_ok"]) and o.get("prop_key") == key
        except vlib.Broken:
            return False
    cur = json.loads(json.dumps(case))
    for _ in range(30):
        changed = False
        if time.time() > t_end:
            break
        rounds = cur.get("rounds") or []
        for i in range(len(rounds)):
            if len(rounds) > 2:
                t = dict(cur, rounds=rounds[:i] + rounds[i + 1:])
                if fails(t):
                    cur, changed = t, True
                    break
        items = cur.get("dialog") or []
        for i in range(len(items)):
            if len(items) > 1:
                t = dict(cur, dialog=items[:i] + items[i + 1:])
                if fails(t):
                    cur, changed = t, True
                    break
        for field in ("ops", "frames"):
            items = cur.get(field) or []
            for i in range(len(items)):
                if len(items) > 1:
                    t = dict(cur, **{field: items[:i] + items[i + 1:]})
                    if fails(t):
                        cur, changed = t, True
                        break
            items = cur.get(field) or []
            for i, it in enumerate(items):
                if len(it.get("data", "")) > 4:
                    q = dict(it, data=it["data"][:(len(it["data"]) // 4) * 2])
                    t = dict(cur, **{field: items[:i] + [q] + items[i + 1:]})
                    if fails(t):
                        cur, changed = t, True
                        break
        if cur["mode"] == "fwdcut" and len(cur.get("wire", "")) > 2:
            for t in (dict(cur, wire=cur["wire"][:(len(cur["wire"]) // 4) * 2]), dict(cur, wire=cur["wire"][:-2])):
                if fails(t):
                    cur, changed = t, True
                    break
        if cur["mode"] == "dec" and len(cur.get("wire", "")) > 2:
            t = dict(cur, wire=cur["wire"][:-2])
            if fails(t):
                cur, changed = t, True
        for field in ("up", "down"):
            items = cur.get(field) or []
            for i in range(len(items)):
                t = dict(cur, **{field: items[:i] + items[i + 1:]})
                if fails(t):
                    cur, changed = t, True
                    break
        if cur["mode"] == "gated":
            sc = cur.get("sched") or []
            for i in range(len(sc)):
                t = dict(cur, sched=sc[:i] + sc[i + 1:])
                if fails(t):
                    cur, changed = t, True
                    break
        for field in ("cuts", "caps", "dribble", "sched"):
            if len(cur.get(field) or []) > 1:
                t = dict(cur, **{field: cur[field][:len(cur[field]) // 2]})
                if fails(t):
                    cur, changed = t, True
        if not changed:
            break
    return cur


def model_eval_chunked(values, chunk=24, workers=8):
    """the extracted runner (vlib.build_runner, runner/driver.ml) in many short-lived processes: one process gets
    superlinearly slower the more (large) values it has handled (232 sweep values: 92 s in one process, 2.4 s in 8
    interleaved chunks).  vlib.model_eval is not called from the threads: build_runner / coq_make are not thread safe."""
    import subprocess
    from concurrent.futures import ThreadPoolExecutor
    if not values:
        return []
    binp = vlib.build_runner("C10")
    k = max(1, (len(values) + chunk - 1) // chunk)
    parts = [list(range(i, len(values), k)) for i in range(k)]

    def one(idx):
        inp = "\n".join(vlib.venc(values[i]) for i in idx) + "\n"
        try:
            p = subprocess.run([binp], input=inp, stdout=subprocess.PIPE, stderr=subprocess.PIPE, text=True, timeout=900)
        except subprocess.TimeoutExpired:
            return None, "timeout"
        ls = p.stdout.splitlines()
        if p.returncode != 0 or len(ls) != len(idx):
            return None, "rc=%s, %d/%d lines: %s" % (p.returncode, len(ls), len(idx), (p.stderr or "")[-500:])
        return [l.startswith("1") for l in ls], None

    with ThreadPoolExecutor(workers) as ex:
        rs = list(ex.map(one, parts))
    res = [None] * len(values)
    for idx, (r, err) in zip(parts, rs):
        if r is None:
            raise vlib.Broken("model runner for C10 failed", err)
        for i, ok in zip(idx, r):
            res[i] = ok
    return res


def load_corpus():
    d = os.path.join(vlib.VERIF, "corpus", "C10")
    out = []
    if os.path.isdir(d):
        for f in sorted(os.listdir(d)):
            if f.endswith(".json"):
                out.append(json.load(open(os.path.join(d, f))))
    return out


def run(ctx, only_cases=None):
    thorough = ctx.tier == "thorough"
    rng = ctx.rng
    try:   # deep (non tail-recursive) list functions of the extracted model on >64 KB payloads
        soft, hard = resource.getrlimit(resource.RLIMIT_STACK)
        want = 1 << 30
        resource.setrlimit(resource.RLIMIT_STACK, (want if hard == resource.RLIM_INFINITY else min(want, hard), hard))
    except (ValueError, OSError):
        pass
    binary = vlib.build_harness("C10")
    broken = None
    gen_changed = False
    try:
        gen_text = vlib.harness_text(binary, ["gen"])
        gen_changed = vlib.write_if_changed(os.path.join(vlib.COQ, "Gen", "C10.v"), gen_text)
    except vlib.Broken as b:
        broken = b   # the translator failed on this tree: keep the previous Gen/C10.v and look for a failing input first
        gen_text = open(os.path.join(vlib.COQ, "Gen", "C10.v")).read()
    hashing_tree = "Definition wire_id_variant : N := 1." in gen_text
    try:
        pinfo = vlib.coq_properties("C10")
        vlib.proof_coverage(ctx, pinfo, "make -C coq Properties/C10.vo && coqc Properties/C10.v (Print Assumptions audit)",
                            extra_obligations=7)   # the 7 regenerated side conditions of Proofs/SideC10.v
    except vlib.Broken as b:
        broken = broken or b   # keep going: search the implementation for a concrete failing input first

    if only_cases is not None:
        cases = list(only_cases)
    else:
        cases = load_corpus()
        cases += gen_enc(rng, 1500 if thorough else 150, big=True)
        cases += gen_stream(rng, 3000 if thorough else 300, collide_every=25)
        cases += gen_stream_tracker(rng, 600 if thorough else 80)
        cases += gen_dialog(rng, 1500 if thorough else 150)
        cases += gen_pool(rng, 200 if thorough else 24)
        cases += gen_listener(rng, 300 if thorough else 40)
        cases += gen_size_sweep(rng, thorough)
        cases += gen_stream_hostile(rng, 600 if thorough else 60)
        cases += gen_stream_big(rng, thorough)
        cases += gen_tid(rng, 400 if thorough else 40)
        cases += gen_tid_collide(rng, 300 if thorough else 40)
        cases += gen_conc(rng, 60 if thorough else 8)
        cases += gen_fwd(rng, 100 if thorough else 12)
        cases += gen_gated(rng, 2000 if thorough else 200, 11 if thorough else 7)
        cases += gen_duplex(rng, thorough)
        cases += gen_fwdcut(rng, 400 if thorough else 60)
        cases += gen_halfclose(rng, thorough)
        cases += gen_stream_hostile_types(rng)
    resolve_ids(binary, cases)
    # the harness bounds every wait and skips the rest of an invocation after 90 s spent in hanging cases, so these
    # timeouts are only a last resort; they keep the whole quick check within a few minutes whatever the tree does
    h_timeout = 1500 if thorough else 420
    outs = vlib.run_harness(binary, cases, timeout=h_timeout)
    if only_cases is None:
        wires = [o["wire"] for c, o in zip(cases, outs) if c["mode"] in ("enc", "stream") and 0 < o["wire_len"] < 3000]
        rng.shuffle(wires)
        raw = gen_dec_all_types(rng) + gen_dec(rng, wires[:(2500 if thorough else 150)], 20 if thorough else 5)
        outs += vlib.run_harness(binary, raw, timeout=h_timeout)
        cases += raw

    # (iii) the property predicate evaluated on the implementation's own outputs
    nfail = 0
    reported = {}
    n_skipped = sum(1 for o in outs if o.get("skipped"))
    for c, o in zip(cases, outs):
        if o["prop_ok"]:
            continue
        nfail += 1
        key = o.get("prop_key") or "predicate"
        reported[key] = reported.get(key, 0) + 1
        if reported[key] > 2:
            continue
        if key in ctx.known:
            ctx.violation(key, o["prop_msg"], {"case": short(c)})
            continue
        small = shrink(binary, c, key)
        so = vlib.run_harness(binary, [small], timeout=60, env={"VERIF_C10_FASTHANG": "1"})[0]
        ctx.violation(key, "real crossnode code (%s mode): %s" % (c["mode"], so.get("prop_msg") or o["prop_msg"]),
                      {"case": small, "observed": short(so)})

    # (ii) model vs implementation
    values, owner = [], []
    for i, (c, o) in enumerate(zip(cases, outs)):
        if c["mode"] == "stream" and o.get("term") not in ("eof", "err"):   # hung / spun / panicked
            continue    # reader hung / spun: already reported by the predicate, nothing to compare
        for v in case_values(c, o):
            values.append(v)
            owner.append(i)
    mism = []
    try:
        res = model_eval_chunked(values)
        mism = sorted({owner[k] for k, ok in enumerate(res) if not ok})
        # cross-check of the extraction: the same (small) cases inside Coq with vm_compute
        small_idx = [k for k, v in enumerate(values) if len(vlib.venc(v)) < 1500]
        small_idx = small_idx[:: max(1, len(small_idx) // 36)][:36]
        vm_bad = sorted(small_idx[k] for k in vlib.vm_crosscheck("C10", [values[k] for k in small_idx]))
        ext_bad = sorted(k for k in small_idx if not res[k])
        if vm_bad != ext_bad:
            raise vlib.Broken("extracted runner and vm_compute disagree on the C10 model", "vm=%s extracted=%s" % (vm_bad, ext_bad))
        ctx.coverage["vm_compute_crosschecked_cases"] = len(small_idx)
    except vlib.Broken as b:
        broken = broken or b
    for i in mism[:3]:
        if outs[i]["prop_ok"] and not ctx.violations:
            pred = None
            try:
                vs = case_values(cases[i], outs[i])
                pred = vlib.model_eval("C10", vs, predict=True)[1]
            except Exception:
                pass
            ctx.violation("model-mismatch", "Corr/C10.check: the CrossFrame model and the real crossnode code disagree on a %s case on "
                          "which the Go-side predicate holds; the theorems of Properties/C10.v no longer speak about this code"
                          % cases[i]["mode"], {"case": cases[i], "observed": short(outs[i]), "model_predicts": short(pred)},
                          found_input=False)

    # coverage
    distinct, nontrivial = set(), set()
    dist = {"enc_roundtrip": 0, "dec_malformed": 0, "stream": 0, "stream_big_writes": 0, "stream_hostile_raw": 0,
            "stream_with_foreign_or_unknown_frames": 0, "stream_with_colliding_wire_id": 0, "stream_dribbled_over_tcp": 0,
            "tid_strings": 0, "frames_total": 0, "stream_ops_total": 0, "decoder_error_kinds": {}, "reader_terminations": {}}
    max_alloc = 0
    oversize_types = set()
    for c, o in zip(cases, outs):
        h = hashlib.sha256(json.dumps(c, sort_keys=True).encode()).hexdigest()
        distinct.add(h)
        max_alloc = max(max_alloc, o.get("max_alloc_delta", 0))
        if c["mode"] == "enc":
            dist["enc_roundtrip"] += 1
            dist["frames_total"] += len(c["frames"])
            if c["cuts"] and len(c["frames"]) >= 2:
                nontrivial.add(h)
        elif c["mode"] == "dec":
            dist["dec_malformed"] += 1
            w = bytes.fromhex(c["wire"][:42])
            if len(w) == 21 and int.from_bytes(w[17:21], "big") > MAXF:
                oversize_types.add(w[16])
            last = o["obs"][-1]
            k = "eof" if last["eof"] else ("too-large-or-short@%d" % min(last["consumed"], 22))
            dist["decoder_error_kinds"][k] = dist["decoder_error_kinds"].get(k, 0) + 1
            if len(o["obs"]) >= 2 or (c["cuts"] and len(c["wire"]) >= 2 * HDR):
                nontrivial.add(h)
        elif c["mode"] == "stream":
            dist["stream"] += 1
            dist["stream_ops_total"] += len(c["ops"])
            foreign = any(op["k"] == "f" or (op["k"] == "w" and op["w"] != 0) for op in c["ops"])
            bigw = any(op["k"] == "w" and len(op["data"]) // 2 > MAXF for op in c["ops"])
            dist["stream_big_writes"] += bigw
            dist["stream_hostile_raw"] += any(op["k"] == "raw" for op in c["ops"])
            dist["stream_with_foreign_or_unknown_frames"] += foreign
            dist["stream_with_colliding_wire_id"] += o.get("prop_key") == "wire-id-truncation"
            dist["stream_dribbled_over_tcp"] += bool(c.get("dribble"))
            if c.get("tracker"):
                dist["stream_reader_with_tracker"] = dist.get("stream_reader_with_tracker", 0) + 1
                own = c["reader"] in (c.get("premarked") or []) or any(m["id"] == c["reader"] for m in c.get("marks") or [])
                dist["stream_own_tunnel_marked_closed"] = dist.get("stream_own_tunnel_marked_closed", 0) + own
                if own and len(c["reader"]) <= 32 and len(o.get("reads") or []) >= 1:
                    nontrivial.add(h)
            dist["reader_terminations"][o.get("term")] = dist["reader_terminations"].get(o.get("term"), 0) + 1
            if len(o.get("reads") or []) >= 2 and (foreign or bigw):
                nontrivial.add(h)
        elif c["mode"] == "gated":
            dist["forwarder_gated_schedules"] = dist.get("forwarder_gated_schedules", 0) + 1
            if c["up"] and c["down"] and 0 in c["sched"] and 1 in c["sched"]:
                nontrivial.add(h)
        elif c["mode"] == "listener":
            k = "listener_handover_%s" % c["order"]
            dist[k] = dist.get(k, 0) + 1
            if c["up_len"] > 0 and c["order"] == "coalesced":
                nontrivial.add(h)
        elif c["mode"] == "pool":
            dist["pool_reuse_runs"] = dist.get("pool_reuse_runs", 0) + 1
            dist["pool_rounds_on_reused_connection"] = dist.get("pool_rounds_on_reused_connection", 0) + sum(1 for r in (o.get("reused") or []) if r)
            dist["pool_runs_with_residual_frames"] = dist.get("pool_runs_with_residual_frames", 0) + any(r.get("residual") for r in c["rounds"])
            if sum(1 for r in (o.get("reused") or []) if r) >= 1:
                nontrivial.add(h)
        elif c["mode"] == "dialog":
            dist["dialog_scripts"] = dist.get("dialog_scripts", 0) + 1
            ks = [st["k"] for st in c["dialog"]]
            # the peer's half-close is read, then this end writes and closes
            if "ra" in ks and any(k in ("c", "cw") for k in ks[ks.index("ra"):]):
                dist["dialog_close_after_reading_peer_eof"] = dist.get("dialog_close_after_reading_peer_eof", 0) + 1
                nontrivial.add(h)
        elif c["mode"] == "halfclose":
            k = "forwarder_half_close_%s_shape_%s" % (c["order"].replace("-", "_"), c["shape"])
            dist[k] = dist.get(k, 0) + 1
            if c["up_len"] > 32768:
                nontrivial.add(h)
        elif c["mode"] == "fwdcut":
            dist["forwarder_oracle_source_runs"] = dist.get("forwarder_oracle_source_runs", 0) + 1
            dist["forwarder_last_chunk_with_eof"] = dist.get("forwarder_last_chunk_with_eof", 0) + bool(c["up_eofl"] and c["wire"])
            dist["forwarder_runs_with_counters"] = dist.get("forwarder_runs_with_counters", 0) + bool(c["counters"])
            if c["wire"] and c["cuts"]:
                nontrivial.add(h)
        elif c["mode"] == "duplex":
            dist["forwarder_full_duplex_runs"] = dist.get("forwarder_full_duplex_runs", 0) + 1
            dist["forwarder_full_duplex_bytes"] = dist.get("forwarder_full_duplex_bytes", 0) + c["up_len"] + c["down_len"]
            if c["up_len"] > 32768 and c["down_len"] > 32768:
                nontrivial.add(h)
        elif c["mode"] == "fwd":
            dist["bidirectional_forward_runs"] = dist.get("bidirectional_forward_runs", 0) + 1
            if o.get("wire_len", 0) > MAXF:
                nontrivial.add(h)
        elif c["mode"] == "conc":
            dist["concurrent_writer_runs"] = dist.get("concurrent_writer_runs", 0) + 1
            if o.get("wire_len", 0) > MAXF:
                nontrivial.add(h)
        else:
            dist["tid_strings"] += len(c["strs"])
            if len(c["strs"]) == 2 and pad16(bytes.fromhex(c["strs"][0])) == pad16(bytes.fromhex(c["strs"][1])):
                dist["tid_pairs_sharing_16_byte_prefix"] = dist.get("tid_pairs_sharing_16_byte_prefix", 0) + 1
                nontrivial.add(h)
    pick = [i for i in (0, len(cases) // 3, (2 * len(cases)) // 3, len(cases) - 1) if 0 <= i < len(cases)]
    ctx.coverage.update({
        "evaluations": len(cases), "distinct_nontrivial": len(nontrivial),
        "rule": "cases generated from VERIF_SEED by one PRNG (corpus first): frame lists x chunkings through the real "
                "WriteFrameToWriter/ReadFrameFromReader; mutated/hostile byte strings through ReadFrameFromReader with MemStats; "
                "schedules of the two copy loops of runBidirectionalForward replayed through gated doubles (exhaustive for a small scope; sources ending with a bare EOF or with the last chunk together with io.EOF; traffic counters compared with the model), the forwarder between a chunk-oracle local source and a real FrameStream, and full-duplex streaming through real forwarders/FrameStreams with per-direction content comparison; scripts of Write/CloseWrite/Close of several tunnels + raw WriteFrame + raw bytes on one loopback TCP connection read "
                "by a real FrameStream with generated buffer sizes; id strings through TunnelIDFromString. distinct = distinct case "
                "JSON; non-trivial = (enc) >=2 frames under a non-empty chunk list, (dec) >=1 frame decoded before the error or a "
                "chunked input of >=2 headers, (stream) >=2 data reads AND foreign/unknown frames or a write larger than one frame. "
                "Every case is also run through the extracted Coq model and the projected observables are diffed.",
        "samples": [{"case": short(cases[i]), "observed": short({k: v for k, v in outs[i].items() if k != "wire"})} for i in pick],
        "distinct_cases": len(distinct),
        "model_vs_impl_values": len(values), "model_vs_impl_mismatches": len(mism),
        "impl_property_failures": nfail, "impl_property_failures_by_key": reported,
        "cases_skipped_after_hang_budget": n_skipped,
        "max_alloc_delta_bytes_per_ReadFrameFromReader_call": max_alloc,
        "payload_sizes_swept_value_by_value": ["%d..%d" % w for w in SWEEP_WINDOWS],
        "type_bytes_seen_with_oversize_length_by_the_decoder": len(oversize_types),
        "input_distribution": dist, "generated_file_changed": gen_changed,
        "tree_variant_TunnelIDFromString": "hashes ids longer than 16 bytes (fixes/C10-wire-id-hash.diff or equivalent)" if hashing_tree
                                           else "truncates to 16 bytes (pinned; known finding wire-id-truncation)",
    })
    ctx.assumptions += [
        "a *net.TCPConn delivers the written bytes in order, in arbitrary pieces, a Read returns n>0 or an error (chunk oracle of Base/Chunks.v)",
        "net.Buffers.WriteTo on a TCP connection writes header+payload of one frame without interleaving with another WriteFrame (not modelled; frames are atomic in the model)",
        "transport write errors and deadlines are not modelled (Write/CloseWrite/Close succeed on the transport)",
        "the mutexes of FrameStream (readMu/writeMu) are not modelled: one Read / one Write is one atomic step",
        "allocation is the sizes passed to make([]byte, n) in ReadFrameFromReader (model) and runtime.MemStats.TotalAlloc deltas (harness); error values are not counted by the model",
        "pooled connections: reuse through NodeConnectionPool.Get / Conn.IsHealthy / Release is exercised on the real code (mode pool) but not modelled: the model's transport is a byte stream that delivers what was written, and a reused connection has to be one",
        "runBidirectionalForward is modelled as two copy loops at Read/Write-call granularity (Model/Forward.v): io.Copy's fast paths (ReaderFrom/WriterTo, used for a bare *net.TCPConn without counters), short writes, transport errors and the closeAll bookkeeping are not modelled; CrossNodeListener and the pool are not modelled",
    ]
    if broken is not None:
        raise broken


def replay(ctx, path):
    r = json.load(open(path))
    run(ctx, only_cases=[r["replay"]["case"]])

"""C09 — a waiting tunnel is routable from any node until served or expired.

Drives the REAL tunnel.RoutingTable over memory / Redis(miniredis) / hybrid backends with register / lookup / remove /
expire histories (harness/cmd/c09 evaluates the property's predicate with measured clock readings), replays the same
histories on the extracted Coq model (Corr/C09.v) and builds the theorems of Properties/C09.v."""
import json
import os

import vlib

PROP = "C09"
BACKENDS = ["memory", "redis", "hybrid", "hybridone", "hybridsplit", "lazy"]
KIND = {"memory": 0, "redis": 1, "hybrid": 2, "hybridone": 3, "hybridsplit": 4, "lazy": 5}
VIRTUAL = ("redis", "hybrid")
TWO63 = 1 << 63
MS = 1000000

INTS = [0, 1, -1, 7, 2 ** 31, 2 ** 53, 2 ** 53 + 1, 9007199254740993, 2 ** 63 - 1, -(2 ** 63), 10 ** 18 + 1, 17592186044416001]
PORTS = [0, 1, 80, 443, 8080, 65535, 65536, 2 ** 31 - 1, 2 ** 31, 2 ** 63 - 1, -1, -(2 ** 63)]
WORDS = ["", "a", "m-1", "tcp-tunnel-1759260000000000000-8080", "server-udp-map_7-1759260000000000001",
         "隧道-映射", "ключ", "ü", "😀🚇", "x\u2028y\u2029", "a\"b\\c/d", "<script>&amp;</script>", "{\"tunnel_id\":\"z\"}",
         "null", "0", " lead and trail ", "tab\there\nnl\r", "\x00", "\x01\x1f\x7f", "e\u0301", "\ufeffbom", "\ufffd", "10.0.0.1",
         "2001:db8::1", "host.example.com", "node-0", "node-1", "tunnox:node:x:addr", ":addr", "tunnox:tunnel_waiting:"]
INVALID = [b"\xff", b"ab\xc3", b"\xed\xa0\x80", b"\xc0\xaf", b"id-\xfe\xff", b"\xf5\x80\x80\x80"]


def hexs(s):
    return (s.encode("utf-8") if isinstance(s, str) else bytes(s)).hex()


def rand_str(rng, big_ok=False, nonempty=False):
    k = rng.random()
    if big_ok and k < 0.04:
        unit = rng.choice(["x", "é", "中", "\"\\", "😀"])
        n = 65536 // len(unit.encode())
        return unit * n
    if k < 0.55:
        s = rng.choice(WORDS)
    elif k < 0.8:
        s = "".join(rng.choice("abcXYZ019-_:. /\"\\{}é中😀\n") for _ in range(rng.randrange(1, 24)))
    else:
        s = rng.choice(WORDS) + rng.choice(WORDS)
    if nonempty and s == "":
        s = "t"
    return s


def rand_rec(rng, tid, node_name, big_ok):
    return {"tunnel": tid, "mapping": hexs(rand_str(rng, big_ok)), "secret": hexs(rand_str(rng, big_ok)),
            "node": hexs(node_name if rng.random() < 0.8 else rand_str(rng)),
            "src": rng.choice(INTS + [rng.randrange(-TWO63, TWO63)]), "dst": rng.choice(INTS + [rng.randrange(-TWO63, TWO63)]),
            "host": hexs(rand_str(rng, big_ok)), "port": rng.choice(PORTS + [rng.randrange(0, 65536)])}


def rand_tids(rng):
    """three distinct non-empty tunnel ids, sometimes prefix-related (isolation) or key-lookalikes"""
    k = rng.random()
    if k < 0.25:
        b = rand_str(rng, nonempty=True)
        ids = [b, b + ":", b + b]
    elif k < 0.35:
        ids = ["t", "t:addr", "tunnox:tunnel_waiting:t"]
    else:
        ids = []
        while len(ids) < 3:
            s = rand_str(rng, nonempty=True)
            if s not in ids:
                ids.append(s)
    if len(set(ids)) < 3:
        ids = ["t1", "t2", "t3"]
    return [hexs(s) for s in ids]


def gen_case(rng, backend, realtime, big_ok=True, nops=None):
    """realtime: the table ttl is 307 ms and the history contains real sleeps; otherwise ttl is 0 (-> the 30 s default)
    or 30007 ms and only the virtual backend clock moves (FastForward)."""
    nodes = rng.choice([2, 2, 2, 3])
    ttl = 307 if realtime else rng.choice([0, 30007])
    eff = ttl if ttl else 30000
    tids = rand_tids(rng)
    nids = [hexs("node-%d" % i) for i in range(nodes)] + [hexs(rand_str(rng))]
    ops = []
    n = nops or rng.randrange(6, 17)
    ffs = sleeps = 0
    slept = 0
    while len(ops) < n:
        k = rng.random()
        node = rng.randrange(nodes)
        if k < 0.30 or not ops:
            ops.append({"op": "reg", "n": node, "rec": rand_rec(rng, rng.choice(tids), "node-%d" % node, big_ok)})
            if rng.random() < 0.2:
                ops[-1]["carry"] = True   # the struct already carries the stamps of an earlier life (re-published / re-homed record)
        elif k < 0.66:
            ops.append({"op": "look", "n": node, "tid": rng.choice(tids)})
        elif k < 0.76:
            ops.append({"op": "rem", "n": node, "tid": rng.choice(tids)})
        elif k < 0.88:
            if backend != "hybridsplit" and ffs < 5 and (not realtime or rng.random() < 0.5):
                # multiples of 10 ms plus 1: a sum never equals a ttl (307, 30007, 30000, 86400000 ms) with <= 5 of them
                d = rng.choice([10, 100, eff // 2 // 10 * 10, (eff - 20) // 10 * 10, (eff + 20) // 10 * 10, 2 * eff // 10 * 10]) + 1
                if rng.random() < 0.05:
                    d = 86400000 + 11   # beyond NodeAddressTTL
                ops.append({"op": "ff", "d": d})
                ffs += 1
            elif realtime and sleeps < 3 and slept < 1100:
                d = rng.choice([15, 40, 90, 150, 240, 290, 307, 325, 380, 450])
                ops.append({"op": "sleep", "d": d})
                sleeps += 1
                slept += d
        elif k < 0.94:
            ops.append({"op": "regaddr", "n": node, "id": rng.choice(nids), "addr": hexs(rand_str(rng))})
        else:
            ops.append({"op": "getaddr", "n": node, "id": rng.choice(nids)})
    if backend in VIRTUAL and rng.random() < 0.5:
        # single-call outages of the shared tier at random storage call positions
        for op in ops:
            if op["op"] in ("reg", "look", "rem", "regaddr", "getaddr") and rng.random() < 0.12:
                op["fault"] = True
    return {"backend": backend, "ttl_ms": ttl, "nodes": nodes, "ops": ops, "stream": "valid"}


def fault_directed():
    """the shared tier (miniredis) fails for exactly one call, at each storage call position of register / remove / lookup /
    node address; then the usual end of the tunnel and late lookups from every node"""
    out = []
    t = hexs("tun-fault")
    r = {"tunnel": t, "mapping": hexs("pm_1"), "secret": hexs("k"), "node": hexs("node-0"), "src": 2 ** 53 + 1, "dst": 2, "host": hexs("10.1.1.1"), "port": 22}
    nid, a = hexs("node-0"), hexs("10.0.0.1:50052")
    L = lambda n, **kw: dict({"op": "look", "n": n, "tid": t}, **kw)
    for b in VIRTUAL:
        for nodes in (2, 3):
            allnodes = [L(n) for n in range(nodes)]
            hist = [
                # outage during RegisterWaitingTunnel: reported, not routable anywhere, tunnel "ends", late lookups everywhere
                [{"op": "reg", "n": 0, "rec": r, "fault": True}] + allnodes + [{"op": "rem", "n": 0, "tid": t}] + allnodes,
                # outage during a lookup: reported; the next lookup is fine; end; gone everywhere
                [{"op": "reg", "n": 0, "rec": r}, L(1, fault=True), L(0, fault=True)] + allnodes + [{"op": "rem", "n": 0, "tid": t}] + allnodes,
                # re-registration of a waiting id during an outage: the old record stays routable, then end
                [{"op": "reg", "n": 0, "rec": r}, {"op": "reg", "n": 1, "rec": dict(r, node=hexs("node-1"), host=hexs("other")), "fault": True}] + allnodes
                + [{"op": "rem", "n": 1, "tid": t}] + allnodes,
                # outage during RemoveWaitingTunnel itself (not judged: the record may stay until ExpiresAt; model replay only), then a working removal
                [{"op": "reg", "n": 0, "rec": r}, {"op": "rem", "n": 0, "tid": t, "fault": True}] + allnodes + [{"op": "rem", "n": 1, "tid": t}] + allnodes,
                # node address: outage during register / read / refresh
                [{"op": "regaddr", "n": 0, "id": nid, "addr": a, "fault": True}, {"op": "getaddr", "n": 1, "id": nid},
                 {"op": "regaddr", "n": 0, "id": nid, "addr": a}, {"op": "getaddr", "n": 1, "id": nid, "fault": True}, {"op": "getaddr", "n": 1, "id": nid},
                 {"op": "ff", "d": 3599001}, {"op": "regaddr", "n": 0, "id": nid, "addr": a, "fault": True}, {"op": "ff", "d": 82800001},
                 {"op": "getaddr", "n": 1, "id": nid}, {"op": "ff", "d": 3600001}, {"op": "getaddr", "n": 1, "id": nid}],
            ]
            for ops in hist:
                out.append({"backend": b, "ttl_ms": 0, "nodes": nodes, "ops": json.loads(json.dumps(ops)), "stream": "valid"})
    return out


def forward_cases(rng, thorough):
    """where a forward is dialled: node-a's address is one of three live listeners; 'addr' re-registers it (from either node),
    'fwd' lets a fresh tunnel wait on node-a and runs the REAL target-side path on node-b, 'ff' lets backend time pass"""
    out = []
    base = [{"op": "addr", "n": 0, "k": 0}, {"op": "fwd"}, {"op": "replay", "k": 0}, {"op": "replay", "k": 1, "n": 1}, {"op": "fwd"}, {"op": "addr", "n": 0, "k": 1}, {"op": "fwd"}, {"op": "replay", "k": 1},
            {"op": "addr", "n": 1, "k": 2}, {"op": "fwd"}, {"op": "ff", "d": 3599001}, {"op": "addr", "n": 0, "k": 2}, {"op": "fwd"},
            {"op": "addr", "n": 0, "k": 0}, {"op": "fwd"}]
    for b in ("memory", "redis", "hybrid", "hybridone"):
        out.append({"backend": b, "ttl_ms": 0, "stream": "forward", "ops": base})
    out.append({"backend": "redis", "ttl_ms": 0, "stream": "forward",
                "ops": [{"op": "addr", "n": 0, "k": 1}, {"op": "fwd"}, {"op": "ff", "d": 86400011}, {"op": "fwd"}, {"op": "addr", "n": 0, "k": 2}, {"op": "fwd"}]})
    for i in range(12 if thorough else 3):
        ops = [{"op": "addr", "n": 0, "k": rng.randrange(3)}]
        for _ in range(rng.randrange(4, 9)):
            k = rng.random()
            if k < 0.4:
                ops.append({"op": "addr", "n": rng.randrange(2), "k": rng.randrange(3)})
            elif k < 0.8:
                ops.append({"op": "fwd"})
            elif k < 0.9:
                # n=1: the id's first life runs to its end on the forwarding node (forwarder cleanup) before the id is used again
                ops.append({"op": "replay", "k": rng.randrange(2), "n": rng.randrange(2)})
            else:
                ops.append({"op": "ff", "d": rng.choice([3599001, 43200001])})
        ops.append({"op": "fwd"})
        out.append({"backend": ("memory", "redis", "hybrid", "hybridone")[i % 4], "ttl_ms": 0, "stream": "forward", "ops": ops})
    return out


def directed_cases(rng):
    """the histories the statement names, on every backend: live lookup from the other node, remove, lapse, re-register"""
    out = []
    for b in BACKENDS:
        t = hexs("tcp-tunnel-1759260000000000000-8080")
        r0 = {"tunnel": t, "mapping": hexs("map-é"), "secret": hexs("s3cr3t\"\\"), "node": hexs("node-0"), "src": 9007199254740993,
              "dst": -(2 ** 63), "host": hexs("例え.jp"), "port": 2 ** 63 - 1}
        r1 = dict(r0, node=hexs("node-1"), src=2 ** 63 - 1, dst=1, host=hexs(""), port=0)
        lapse = [{"op": "ff", "d": 311}, {"op": "sleep", "d": 380}] if b in VIRTUAL else [{"op": "sleep", "d": 380}]
        out.append({"backend": b, "ttl_ms": 307, "nodes": 2, "stream": "valid", "ops": [
            {"op": "look", "n": 1, "tid": t}, {"op": "reg", "n": 0, "rec": r0}, {"op": "look", "n": 1, "tid": t},
            {"op": "look", "n": 0, "tid": t}, {"op": "rem", "n": 1, "tid": t}, {"op": "look", "n": 0, "tid": t},
            {"op": "reg", "n": 1, "rec": r1}, {"op": "look", "n": 0, "tid": t}] + lapse + [
            {"op": "look", "n": 0, "tid": t}, {"op": "look", "n": 1, "tid": t}, {"op": "reg", "n": 0, "rec": r0},
            {"op": "look", "n": 1, "tid": t}, {"op": "look", "n": 1, "tid": ""}, {"op": "reg", "n": 0, "rec": dict(r0, tunnel="")},
            {"op": "rem", "n": 0, "tid": ""},
            {"op": "regaddr", "n": 0, "id": hexs("node-0"), "addr": hexs("10.0.0.1:50052")}, {"op": "getaddr", "n": 1, "id": hexs("node-0")},
            {"op": "getaddr", "n": 1, "id": hexs("node-9")}, {"op": "regaddr", "n": 1, "id": hexs("node-1"), "addr": hexs("")},
            {"op": "getaddr", "n": 0, "id": hexs("node-1")}]})
        if b in VIRTUAL:
            # the backend expires (virtual 30 s) although almost no real time passed, and the reverse
            out.append({"backend": b, "ttl_ms": 0, "nodes": 2, "stream": "valid", "ops": [
                {"op": "reg", "n": 0, "rec": r0}, {"op": "ff", "d": 29991}, {"op": "look", "n": 1, "tid": t},
                {"op": "ff", "d": 21}, {"op": "look", "n": 1, "tid": t}, {"op": "look", "n": 0, "tid": t},
                {"op": "regaddr", "n": 0, "id": hexs("n"), "addr": hexs("a:1")}, {"op": "ff", "d": 86399001}, {"op": "getaddr", "n": 1, "id": hexs("n")},
                {"op": "ff", "d": 2001}, {"op": "getaddr", "n": 1, "id": hexs("n")}]})
    return out


HOUR = 3600000
ADDR_TTL = 24 * HOUR


def addr_case(backend, nodes, ops):
    return {"backend": backend, "ttl_ms": 0, "nodes": nodes, "ops": ops, "stream": "valid", "addr": True}


def addr_directed(rng):
    """the server's refresh loop (components_session.go): register, then every 59m59s register the same address again,
    for more than a day of BACKEND time (miniredis.FastForward / memory VerifAdvance); the address must resolve from the
    other node whenever the latest registration is younger than NodeAddressTTL.  On every backend with a movable clock."""
    out = []
    for b in ("memory", "redis", "hybrid", "hybridone", "lazy"):
        nid, a = hexs("node-0"), hexs("10.0.0.1:50052")
        for rounds in (3, 24, 30):
            ops = [{"op": "regaddr", "n": 0, "id": nid, "addr": a}, {"op": "getaddr", "n": 1, "id": nid}]
            for k in range(rounds):
                ops += [{"op": "ff", "d": HOUR - 999}, {"op": "regaddr", "n": 0, "id": nid, "addr": a}]
                if k % 7 == 6 or k == rounds - 1:
                    ops.append({"op": "getaddr", "n": 1, "id": nid})
            # one minute after the latest refresh a tunnel waits on node 0 and node 1 resolves it and then the node's address
            t = hexs("tcp-tunnel-1759260000000000000-443")
            rec = {"tunnel": t, "mapping": hexs("m"), "secret": hexs("s"), "node": nid, "src": 1, "dst": 2, "host": hexs("h"), "port": 443}
            ops += [{"op": "ff", "d": 60001}, {"op": "reg", "n": 0, "rec": rec}, {"op": "look", "n": 1, "tid": t}, {"op": "getaddr", "n": 1, "id": nid},
                    {"op": "ff", "d": ADDR_TTL - 120001}, {"op": "getaddr", "n": 1, "id": nid},       # still inside the lifetime of the latest refresh
                    {"op": "ff", "d": 180001}, {"op": "getaddr", "n": 1, "id": nid},                   # nobody refreshed for > 24 h: gone
                    {"op": "regaddr", "n": 1, "id": nid, "addr": a}, {"op": "getaddr", "n": 0, "id": nid}]
            out.append(addr_case(b, 2, ops))
        # the address changes at a refresh; another node's id is not refreshed and lapses on its own
        other = hexs("node-1")
        out.append(addr_case(b, 2, [
            {"op": "regaddr", "n": 0, "id": nid, "addr": a}, {"op": "regaddr", "n": 1, "id": other, "addr": hexs("10.0.0.2:50052")},
            {"op": "ff", "d": 13 * HOUR + 1}, {"op": "regaddr", "n": 0, "id": nid, "addr": hexs("10.9.9.9:50052")},
            {"op": "ff", "d": 12 * HOUR + 1}, {"op": "getaddr", "n": 1, "id": nid}, {"op": "getaddr", "n": 0, "id": other},
            {"op": "ff", "d": 11 * HOUR + 1}, {"op": "getaddr", "n": 1, "id": nid},
            {"op": "ff", "d": 1 * HOUR + 1}, {"op": "getaddr", "n": 1, "id": nid}]))
    return out


def addr_random(rng, n):
    out = []
    amounts = [HOUR - 999, HOUR + 1, 2 * HOUR + 1, 12 * HOUR + 1, ADDR_TTL - 999, ADDR_TTL + 11, 60001, 11]
    for i in range(n):
        b = ("memory", "redis", "hybrid", "hybridone", "lazy")[i % 5]
        nodes = rng.choice([2, 3])
        ids = [hexs("node-%d" % k) for k in range(nodes)] + [hexs(rand_str(rng))]
        cur = {}
        ops = []
        for _ in range(rng.randrange(8, 40)):
            k = rng.random()
            node = rng.randrange(nodes)
            nid = rng.choice(ids)
            if k < 0.35 or not cur:
                if nid in cur and rng.random() < 0.8:
                    a = cur[nid]          # a refresh: the same address again
                else:
                    a = hexs(rand_str(rng, nonempty=True))
                cur[nid] = a
                ops.append({"op": "regaddr", "n": node, "id": nid, "addr": a})
            elif k < 0.7:
                ops.append({"op": "ff", "d": rng.choice(amounts)})
            else:
                ops.append({"op": "getaddr", "n": node, "id": nid})
        ops.append({"op": "getaddr", "n": 0, "id": ids[0]})
        out.append(addr_case(b, nodes, ops))
    return out


BRIDGE_WAYS = ["abort", "cancel", "complete", "duplicate", "dupother", "restart"]


def bridge_cases(rng, thorough):
    """the REAL call sites: SessionManager.startSourceBridge registers, runBridgeLifecycle removes - for every way a
    tunnel ends.  'timeout' (nobody attaches, Start() gives up after its own 30 s) only in the thorough tier."""
    out = []
    for b in ("memory", "redis", "hybrid", "hybridone"):
        for w in BRIDGE_WAYS + (["timeout"] if thorough and b in ("memory", "hybrid") else []):
            for rep in range(3 if thorough and w != "timeout" else 1):
                tid = rng.choice(["tcp-tunnel-1759260000000000000-8080", "server-udp-pmap_1-1759260000000000001"]) if rep == 0 else rand_str(rng, nonempty=True)
                rec = {"tunnel": hexs(tid), "mapping": hexs("pmap_%d" % rng.randrange(1000)), "secret": hexs(rand_str(rng)), "node": "",
                       "src": rng.choice([10000001, 2 ** 53 + 1, 2 ** 62]), "dst": rng.choice([10000002, 2 ** 53 + 3, 77]),
                       "host": hexs(rng.choice(["127.0.0.1", "例え.jp", ""])), "port": rng.choice([0, 22, 8080, 65535])}
                out.append({"backend": b, "stream": "bridge", "way": w, "rec": rec, "ttl_ms": 120007 if w == "timeout" else 0, "nodes": 2,
                            # where the target client's CONTROL connection lives must not matter: its tunnel connection may arrive anywhere
                            "local_target": (w != "timeout" and (rep == 0 or rng.random() < 0.5))})
                if rep == 0 and w in ("abort", "complete"):
                    out.append({"backend": b, "stream": "bridge", "way": w, "rec": rec, "ttl_ms": 0, "nodes": 2, "local_target": False})
    # the target connection is on the source node before the bridge is indexed (handleLocalBridgeWait back-off): the bridge appears 1.6 s later
    out.append({"backend": "memory", "stream": "bridge", "way": "localwait", "ttl_ms": 0, "nodes": 2, "fill": 1600,
                "rec": {"tunnel": hexs("tun-localwait"), "mapping": hexs("pmap_7"), "secret": hexs("k"), "node": "", "src": 11, "dst": 12, "host": hexs("h"), "port": 1}})
    return out


def conc_cases(rng, thorough):
    """N goroutines of one node register distinct tunnel ids at the same time through the real backend (connection pool
    of 1 on Redis so writers queue for the connection); every id is then looked up on a peer node.  'gated': the only
    pooled connection is held by a BLPOP while the registrations encode one after the other (run with GOMAXPROCS=1)."""
    def recs(n, tag):
        out = []
        for i in range(n):
            out.append({"tunnel": hexs("%s-%03d-%s" % (tag, i, rng.choice(["", "é", "隧道"]))), "mapping": hexs("pm_%d" % rng.randrange(10 ** 6)),
                        "secret": hexs("k" * rng.choice([0, 1, 7, 64, 200, 1500])), "node": hexs("node-%d" % rng.randrange(5)),
                        "src": rng.choice(INTS + [10000000 + i]), "dst": 20000000 + i,
                        "host": hexs(rng.choice(["h", "host-%d.例え.test" % i, "x" * 300])), "port": 1024 + i})
        return out
    storm, gated = [], []
    for rep_ in range(4 if thorough else 1):
        for b in ("redis", "hybrid", "memory", "hybridone"):
            storm.append({"backend": b, "stream": "conc", "way": "storm", "recs": recs(160 if thorough else 48, "st%d" % rep_),
                          "workers": 32 if thorough else 12, "ttl_ms": 0, "pool": 1})
        for b in ("redis", "hybrid"):
            g = recs(3, "g%d" % rep_)
            g[0]["secret"] = hexs("S" * 400)      # the first value is the longest: a reused buffer shows up as trailing garbage
            g[1]["secret"] = hexs("")
            gated.append({"backend": b, "stream": "conc", "way": "gated", "recs": g, "ttl_ms": 0, "pool": 1})
    return storm, gated


def sweep_cases(rng, thorough):
    """the backend's sweep races the re-registration of a lapsed, unswept tunnel id (memory.Storage.CleanupExpired directly,
    through hybrid.Storage, and by the StartCleanup ticker)"""
    out = []
    for rep_ in range(3 if thorough else 1):
        for b, w in (("memory", "direct"), ("hybridone", "direct"), ("memory", "ticker")):
            t = hexs(rng.choice(["tunnel-reopened", "tcp-tunnel-1759260000000000000-8080", rand_str(rng, nonempty=True)]))
            r1 = rand_rec(rng, t, "node-0", False)
            r2 = rand_rec(rng, t, "node-1", False)
            out.append({"backend": b, "stream": "sweep", "way": w, "recs": [r1, r2], "ttl_ms": 0, "fill": 60000})
    return out


def poll_cases(rng, n):
    out = []
    for i in range(n):
        b = rng.choice(["memory", "redis", "hybrid", "hybridone"])
        t = hexs("poll-%d-%s" % (i, rand_str(rng)))
        rec = rand_rec(rng, t, "node-0", False)
        ops = [{"op": "poll", "n": 1, "tid": t, "d": 1500, "delay": rng.choice([0, 30, 120, 260]), "rec": rec},
               {"op": "look", "n": 0, "tid": t},
               {"op": "poll", "n": 0, "tid": hexs("never-%d" % i), "d": 400}]
        out.append({"backend": b, "ttl_ms": 30007, "nodes": 2, "ops": ops, "stream": "valid", "poll": True})
    # the target arrives first and the source publishes after several misses (1.6 s): the next poll must come within the interval cap
    for b in ("redis", "memory"):
        t = hexs("poll-late-%s" % b)
        out.append({"backend": b, "ttl_ms": 30007, "nodes": 2, "stream": "valid", "poll": True,
                    "ops": [{"op": "poll", "n": 1, "tid": t, "d": 5000, "delay": 1600, "rec": rand_rec(rng, t, "node-0", False)},
                            {"op": "look", "n": 0, "tid": t}]})
    return out


def invalid_cases(rng, n):
    """strings that are not UTF-8: Go's encoding/json cannot carry them (U+FFFD substitution).  Reported, never judged."""
    out = []
    for _ in range(n):
        b = rng.choice(BACKENDS)
        t = hexs("inv-t")
        rec = rand_rec(rng, t, "node-0", False)
        f = rng.choice(["mapping", "secret", "node", "host", "tunnel"])
        rec[f] = hexs(rng.choice(INVALID))
        tid = rec["tunnel"]
        out.append({"backend": b, "ttl_ms": 30007, "nodes": 2, "stream": "invalid_utf8", "field": f,
                    "ops": [{"op": "reg", "n": 0, "rec": rec}, {"op": "look", "n": 1, "tid": tid}, {"op": "look", "n": 0, "tid": tid}]})
    return out


# ---------------------------------------------------------------------------------------------------------------
# model values
# ---------------------------------------------------------------------------------------------------------------

def rec8(r):
    hb = bytes.fromhex
    return [hb(r["tunnel"]), hb(r["mapping"]), hb(r["secret"]), hb(r["node"]), r["src"] + TWO63, r["dst"] + TWO63,
            hb(r["host"]), r["port"] + TWO63]


def rec10(r):
    return rec8(r) + [max(r["created"], 0), max(r["expires"], 0)]


LOOK_CODE = {"ok": 0, "notfound": 1, "expired": 2, "invalid": 3, "err": 4}


def inner_value(op, ob):
    """one observed call in the op format of Corr/C09.v (used for calls made while the shared tier failed)"""
    hb = bytes.fromhex
    k = op["op"]
    if k == "reg":
        obs = [0, rec10(ob["rec"])] if ob["res"] == "ok" else [3 if ob["res"] == "invalid" else 4]
        created = ob["rec"]["created"] if ob["res"] == "ok" else ob["t0"]
        return [1, op["n"], rec8(op["rec"]), max(created, 0), obs]
    if k == "look":
        obs = [0, rec10(ob["rec"])] if ob["res"] == "ok" else [LOOK_CODE[ob["res"]]]
        return [2, op["n"], hb(op["tid"]), max(ob["t0"], 0), max(ob["t1"], 0), obs]
    if k == "rem":
        return [3, op["n"], hb(op["tid"]), max(ob["t0"], 0), [0 if ob["res"] == "ok" else 3 if ob["res"] == "invalid" else 4]]
    if k == "regaddr":
        return [5, op["n"], hb(op["id"]), hb(op["addr"]), max(ob["t0"], 0)]
    obs = [0, hb(ob["addr"])] if ob["res"] == "ok" else [1 if ob["res"] == "notfound" else 2]
    return [6, op["n"], hb(op["id"]), max(ob["t0"], 0), obs]


def case_value(c, o):
    hb = bytes.fromhex
    ops = []
    for op, ob in zip(c["ops"], o["obs"]):
        k = op["op"]
        if ob.get("fault") and k in ("reg", "look", "rem", "regaddr", "getaddr"):
            ops.append([7, inner_value(op, ob)])   # the shared tier failed during this call
            continue
        if k == "reg":
            obs = [0, rec10(ob["rec"])] if ob["res"] == "ok" else [3 if ob["res"] == "invalid" else 4]
            created = ob["rec"]["created"] if ob["res"] == "ok" else ob["t0"]
            ops.append([1, op["n"], rec8(op["rec"]), max(created, 0), obs])
        elif k == "look":
            obs = [0, rec10(ob["rec"])] if ob["res"] == "ok" else [LOOK_CODE[ob["res"]]]
            ops.append([2, op["n"], hb(op["tid"]), max(ob["t0"], 0), max(ob["t1"], 0), obs])
        elif k == "rem":
            ops.append([3, op["n"], hb(op["tid"]), max(ob["t0"], 0), [0 if ob["res"] == "ok" else 3 if ob["res"] == "invalid" else 4]])
        elif k == "ff":
            ops.append([4, op["d"] * MS])
        elif k == "regaddr":
            ops.append([5, op["n"], hb(op["id"]), hb(op["addr"]), max(ob["t0"], 0)])
        elif k == "getaddr":
            obs = [0, hb(ob["addr"])] if ob["res"] == "ok" else [1 if ob["res"] == "notfound" else 2]
            ops.append([6, op["n"], hb(op["id"]), max(ob["t0"], 0), obs])
        elif k == "sleep":
            pass
        else:
            raise ValueError(k)
    return [KIND[c["backend"]], c["ttl_ms"] * MS, ops]


def modelable(c):
    return c.get("stream") == "valid" and not c.get("poll")


# ---------------------------------------------------------------------------------------------------------------

def shrink(binary, case, key):
    """greedy: drop operations while the Go-side predicate still fails with the same key (each trial re-runs the real code)"""
    def fails(c):
        try:
            r = vlib.run_harness(binary, [c])[0]
            return (not r["prop_ok"]) and r.get("prop_key") == key
        except vlib.Broken:
            return False
    cur = json.loads(json.dumps(case))
    for _ in range(3):
        changed = False
        i = len(cur["ops"]) - 1
        while i >= 0 and len(cur["ops"]) > 1:
            t = dict(cur, ops=cur["ops"][:i] + cur["ops"][i + 1:])
            if fails(t):
                cur, changed = t, True
            i -= 1
        if not changed:
            break
    return cur


def load_corpus():
    d = os.path.join(vlib.VERIF, "corpus", PROP)
    out = []
    if os.path.isdir(d):
        for f in sorted(os.listdir(d)):
            if f.endswith(".json"):
                out.append(json.load(open(os.path.join(d, f))))
    return out


def trim(case, n=400):
    """a printable copy of a case (64 KB fields shortened) for evidence samples"""
    def t(v):
        if isinstance(v, str) and len(v) > n:
            return v[:n] + "...(%d hex chars)" % len(v)
        if isinstance(v, dict):
            return {k: t(x) for k, x in v.items()}
        if isinstance(v, list):
            return [t(x) for x in v]
        return v
    return t(case)


def run(ctx, only_cases=None, only_probes=None):
    thorough = ctx.tier == "thorough"
    rng = ctx.rng
    binary = vlib.build_harness(PROP)
    gen_changed = vlib.write_if_changed(os.path.join(vlib.COQ, "Gen", "%s.v" % PROP), vlib.harness_text(binary, ["gen"]))
    broken = None
    try:
        pinfo = vlib.coq_properties(PROP)
        vlib.proof_coverage(ctx, pinfo, "make -C coq Properties/C09.vo && coqc Properties/C09.v (Print Assumptions audit)",
                            extra_obligations=11)  # the 8 regenerated side conditions + 3 deployment lemmas of Proofs/SideC09.v
    except vlib.Broken as b:
        broken = b   # keep going: search the implementation for a concrete failing input first

    if only_cases is not None:
        cases = only_cases
        probes, invalid = list(only_probes or []), []
        bridges = [p for p in probes if p.get("stream") in ("bridge", "forward", "flight")]
        concs = [p for p in probes if p.get("stream") in ("conc", "sweep") and p.get("way") != "gated"]
        gated = [p for p in probes if p.get("stream") == "conc" and p.get("way") == "gated"]
        probes = [p for p in probes if p.get("stream") not in ("bridge", "forward", "flight", "conc", "sweep")]
    else:
        cases = load_corpus() + directed_cases(rng) + fault_directed()
        n_virtual = 3000 if thorough else 220
        n_real = 1500 if thorough else 110
        for i in range(n_virtual):
            cases.append(gen_case(rng, BACKENDS[i % len(BACKENDS)], False, big_ok=(i % 9 == 0)))
        for i in range(n_real):
            cases.append(gen_case(rng, BACKENDS[i % len(BACKENDS)], True, big_ok=(i % 9 == 0)))
        cases += addr_directed(rng) + addr_random(rng, 400 if thorough else 40)
        cases += poll_cases(rng, 24 if thorough else 6)
        bridges = bridge_cases(rng, thorough)
        bridges += forward_cases(rng, thorough)
        # every lookup answers from its own storage read: lookup #1 parked after its Get, remove / re-home, lookup #2 started afterwards
        fr1 = {"tunnel": hexs("tun-flight"), "mapping": hexs("pm"), "secret": hexs("k"), "node": hexs("node-a"), "src": 1, "dst": 2, "host": hexs("h"), "port": 22}
        bridges += [{"backend": "memory", "stream": "flight", "way": w_, "recs": [fr1, dict(fr1, node=hexs("node-c"))], "ttl_ms": 0} for w_ in ("remove", "rehome")]
        concs, gated = conc_cases(rng, thorough)
        concs += sweep_cases(rng, thorough)
        invalid = invalid_cases(rng, 120 if thorough else 30)
        probes = [{"backend": b, "stream": "probe"} for b in BACKENDS + ["mapshape", "race"]]
    outs = vlib.run_harness(binary, cases, timeout=1500, env={"VERIF_C09_PAR": "48" if thorough else "32"})

    # (iii) the property's predicate evaluated by the harness on the real code's own answers
    nfail = 0
    reported = set()
    for c, o in zip(cases, outs):
        if o["prop_ok"]:
            continue
        nfail += 1
        key = o.get("prop_key") or "predicate"
        if key in reported or len(reported) >= 3:
            continue
        reported.add(key)
        small = shrink(binary, c, key) if only_cases is None else c
        so = vlib.run_harness(binary, [small])[0]
        if so["prop_ok"]:
            small, so = c, o
        ctx.violation(key, "real tunnel.RoutingTable on %s: %s" % (c["backend"], so.get("prop_msg")),
                      {"case": small, "observed": so["obs"], "fail_at": so.get("fail_at")})

    # (iii-b) the registration / removal call sites driven through the real SessionManager
    bridge_out = vlib.run_harness(binary, bridges, timeout=900) if bridges else []
    nbridge_fail = 0
    for c, o in zip(bridges, bridge_out):
        if o["prop_ok"]:
            continue
        nbridge_fail += 1
        nfail += 1
        key = o.get("prop_key") or "bridge"
        if key in reported or len(reported) >= 4:
            continue
        reported.add(key)
        what = ("real SessionManager.handleCrossNodeTargetConnection/forwardToSourceNode + TunnelConnectionManager" if c["stream"] == "forward"
                else "real tunnel.RoutingTable under a gated schedule of storage calls" if c["stream"] == "flight" else "real SessionManager.startSourceBridge/runBridgeLifecycle with the routing table")
        ctx.violation(key, "%s on %s: %s (events: %s)" % (what, c["backend"], o.get("prop_msg"), "; ".join(o.get("events", []))),
                      {"probe": c, "observed": o})

    # (iii-c) concurrency at storage-call granularity: concurrent registrations, sweep racing a re-registration
    conc_out = vlib.run_harness(binary, concs, timeout=900) if concs else []
    # the gated schedule once more on a single P (a sync.Pool then hands the second encoder the first one's buffer), with the storms
    single = gated + [c for c in concs if c.get("way") == "storm" and c["backend"] in ("redis", "hybrid")]
    conc_out += vlib.run_harness(binary, single, timeout=900, env={"GOMAXPROCS": "1"}) if single else []
    concs = concs + single
    nconc_fail = 0
    for c, o in zip(concs, conc_out):
        if o["prop_ok"]:
            continue
        nconc_fail += 1
        nfail += 1
        key = o.get("prop_key") or "concurrency"
        if key in reported or len(reported) >= 5:
            continue
        reported.add(key)
        small = dict(c)
        ctx.violation(key, "real RoutingTable under concurrency (%s/%s on %s): %s" % (c["stream"], c["way"], c["backend"], o.get("prop_msg")),
                      {"probe": small, "observed": {k: v for k, v in o.items() if k not in ("ops", "obs")},
                       "sequential_history": {"ops": o["ops"][:12], "obs": o["obs"][:12]}})

    # (ii) the model replays every history that the harness observed (for the concurrent streams: the equivalent
    # sequential history the harness reports - registrations in the order of the instants the code stamped, then lookups)
    pseudo = [({"backend": c["backend"], "ttl_ms": c["ttl_ms"], "ops": o["ops"], "stream": "valid"}, o)
              for c, o in zip(concs, conc_out) if all(x["res"] != "err" for x in o["obs"])]
    idx = [i for i, c in enumerate(cases) if modelable(c)]
    cases_m = [cases[i] for i in idx] + [pc for pc, _ in pseudo]
    outs_m = [outs[i] for i in idx] + [po for _, po in pseudo]
    idx = idx + [None] * len(pseudo)
    terms = [case_value(cm, om) for cm, om in zip(cases_m, outs_m)]
    mism = []
    n_amb_model = 0
    try:
        res, pred = vlib.model_eval(PROP, terms, predict=True)
        mism = [k for k, ok in enumerate(res) if not ok]
        n_amb_model = sum(len(vlib.re.findall(r"\[n[01] n1 ", p)) for p in pred if p)   # steps whose answers at t0-eps / t1+eps differ
        small = [k for k in range(len(terms)) if len(json.dumps(cases_m[k])) < 3000]
        small = small[:: max(1, len(small) // 30)][:30]
        vm_bad = sorted(small[j] for j in vlib.vm_crosscheck(PROP, [terms[k] for k in small]))
        ext_bad = sorted(k for k in small if not res[k])
        if vm_bad != ext_bad:
            raise vlib.Broken("extracted runner and vm_compute disagree on the C09 model", "vm=%s extracted=%s" % (vm_bad, ext_bad))
        ctx.coverage["vm_compute_crosschecked_cases"] = len(small)
    except vlib.Broken as b:
        broken = broken or b
    for k in mism[:3]:
        if outs_m[k]["prop_ok"] and not ctx.violations:
            _, p = vlib.model_eval(PROP, [terms[k]], predict=True)
            ctx.violation("model-mismatch", "Corr/C09.check: the Routing model and the real RoutingTable (%s) disagree on a history on which "
                          "the Go-side predicate holds; the theorems of Properties/C09.v no longer speak about this code "
                          "(per-op [matched ambiguous lo hi] = %s)" % (cases_m[k]["backend"], p[0]),
                          {"case": cases_m[k], "observed": outs_m[k]["obs"]}, found_input=False)

    # reported streams: invalid UTF-8 and the probes (never judged)
    inv_out = vlib.run_harness(binary, invalid, timeout=600) if invalid else []
    probe_out = vlib.run_harness(binary, probes, timeout=600) if probes else []
    inv_rep = {}
    for c, o in zip(invalid, inv_out):
        d = inv_rep.setdefault(c["backend"], {"cases": 0, "record_not_returned_exactly": 0, "keys": {}})
        d["cases"] += 1
        if not o["prop_ok"]:
            d["record_not_returned_exactly"] += 1
            d["keys"][o["prop_key"]] = d["keys"].get(o["prop_key"], 0) + 1
            d.setdefault("example", {"field": c["field"], "bytes": c["ops"][0]["rec"][c["field"]], "message": o["prop_msg"][:300]})
    probe_rep = {}
    if only_cases is None:
        lp = vlib.run_harness(binary, [{"backend": "memory", "ttl_ms": 0, "stream": "forward", "way": "legacypool",
                                        "ops": [{"op": "addr", "n": 0, "k": 0}, {"op": "fwd"}, {"op": "addr", "n": 0, "k": 1}, {"op": "fwd"}]}])[0]
        probe_rep["legacy_CrossNodePool_fallback_of_forwardToSourceNode"] = {
            "dialled_listeners": lp["dials"], "registered_listeners": lp["want"], "follows_address_change": lp["prop_ok"],
            "note": "only used when no TunnelConnectionManager is installed; the server always installs one (components_session.go)"}
    for p in probe_out:
        if p["backend"] == "race":
            probe_rep["schedule_probe_lookup_Get_Delete_window"] = {
                "lookup_of_expired_record_by_node_B": p.get("race_lookup_b"), "fresh_registration_afterwards": p.get("race_after"),
                "fresh_registration_lost": p["race_lost"]}
            if p["race_lost"]:
                ctx.violation("expired-lookup-deletes-fresh-registration",
                              "real tunnel.RoutingTable (backend still holding the key after ExpiresAt): A.Register(T,first) ttl=60ms; 90 ms later "
                              "B.LookupWaitingTunnel(T) reads the expired record; between its Get and its Delete A.Register(T,second); "
                              "B's Delete removes the fresh record: B's lookup answered %s and the next lookup of T answers %s although "
                              "'second' was registered milliseconds ago" % (p.get("race_lookup_b"), p.get("race_after")),
                              {"probe": {"backend": "race", "stream": "probe"}, "observed": p})
            continue
        probe_rep[p["backend"]] = {
            "value_shape_returned_by_Get": p["shape"],
            "caller_mutation_after_Register_visible_to_lookups": p["aliased"],
            "mutation_of_a_returned_record_visible_to_later_lookups": p["return_aliased"],
            "int64_above_2^53_exact": p["big_exact"], "int64_error": p.get("big_err", "")[:200]}

    # coverage
    judged = sum(o["judged"] for o in outs)
    amb = sum(o["ambiguous"] for o in outs)
    distinct, nontrivial = set(), set()
    dist = {"by_backend": {}, "ops": {}, "realtime_histories": 0, "virtual_clock_histories": 0, "field_64KB_records": 0,
            "ids_above_2^53": 0, "unicode_fields": 0, "empty_fields": 0, "lookup_answers": {}, "poll_histories": 0,
            "node_address_histories": sum(1 for c in cases if c.get("addr")),
            "node_address_refreshes": 0, "node_address_reads": {},
            "bridge_lifecycle_cases": {}, "concurrency_cases": {}}
    for c, o in zip(concs, conc_out):
        k = "%s/%s/%s" % (c["stream"], c["way"], c["backend"])
        d_ = dist["concurrency_cases"].setdefault(k, {"cases": 0, "lookups_judged": 0, "sweep_overlapped": 0, "concurrent_registrations": 0})
        d_["cases"] += 1
        d_["lookups_judged"] += o["judged"]
        d_["sweep_overlapped"] += 1 if o.get("overlap") else 0
        d_["concurrent_registrations"] += len(c.get("recs", [])) if c["stream"] == "conc" else 0
    for c, o in zip(bridges, bridge_out):
        k = "%s/%s" % (c["backend"], c.get("way") or c["stream"])
        dist["bridge_lifecycle_cases"][k] = dist["bridge_lifecycle_cases"].get(k, 0) + 1
    for c, o in zip(cases, outs):
        seen = set()
        for op, ob in zip(c["ops"], o["obs"]):
            if op["op"] == "regaddr":
                if (op["id"], op["addr"]) in seen:
                    dist["node_address_refreshes"] += 1
                seen.add((op["id"], op["addr"]))
            elif op["op"] == "getaddr":
                dist["node_address_reads"][ob["res"]] = dist["node_address_reads"].get(ob["res"], 0) + 1
    if True:
        pass
    for c, o in zip(cases, outs):
        h = vlib.hashlib.sha256(json.dumps(c, sort_keys=True).encode()).hexdigest()
        distinct.add(h)
        oks = sum(1 for op, ob in zip(c["ops"], o["obs"]) if op["op"] in ("look", "poll") and ob["res"] == "ok")
        gone = sum(1 for op, ob in zip(c["ops"], o["obs"]) if op["op"] in ("look", "poll") and ob["res"] in ("notfound", "expired"))
        if oks >= 1 and gone >= 1:
            nontrivial.add(h)
        dist["by_backend"][c["backend"]] = dist["by_backend"].get(c["backend"], 0) + 1
        dist["poll_histories"] += 1 if c.get("poll") else 0
        if c["ttl_ms"] == 307:
            dist["realtime_histories"] += 1
        else:
            dist["virtual_clock_histories"] += 1
        for op, ob in zip(c["ops"], o["obs"]):
            dist["ops"][op["op"]] = dist["ops"].get(op["op"], 0) + 1
            if op["op"] == "look":
                dist["lookup_answers"][ob["res"]] = dist["lookup_answers"].get(ob["res"], 0) + 1
            if op["op"] == "reg":
                r = op["rec"]
                if any(len(r[f]) >= 2 * 65536 for f in ("mapping", "secret", "host")):
                    dist["field_64KB_records"] += 1
                if abs(r["src"]) > 2 ** 53 or abs(r["dst"]) > 2 ** 53:
                    dist["ids_above_2^53"] += 1
                if any(any(b >= 0x80 for b in bytes.fromhex(r[f])) for f in ("tunnel", "mapping", "secret", "node", "host")):
                    dist["unicode_fields"] += 1
                if any(r[f] == "" for f in ("mapping", "secret", "node", "host")):
                    dist["empty_fields"] += 1
    ctx.coverage.update({
        "evaluations": len(cases) + len(invalid) + len(probes) + len(bridges) + len(concs), "distinct_nontrivial": len(nontrivial),
        "bridge_lifecycle_failures": nbridge_fail, "concurrency_failures": nconc_fail,
        "bridge_lifecycle_samples": [{"backend": c["backend"], "way": c.get("way") or c["stream"], "events": o["events"]} for c, o in list(zip(bridges, bridge_out))[:6] if "events" in o],
        "forwards_judged": sum(o["judged"] for c, o in zip(bridges, bridge_out) if c["stream"] == "forward"),
        "calls_with_injected_shared_tier_fault": sum(1 for c, o in zip(cases, outs) for ob in o["obs"] if ob.get("fault")),
        "rule": "histories of register/lookup/remove/expire (+node-address) operations over 3 tunnel ids and 2-3 RoutingTable "
                "instances generated from VERIF_SEED by one PRNG (corpus and directed histories first), each run on the real "
                "RoutingTable over one of six backend configurations; distinct = distinct case JSON; non-trivial = at least one "
                "lookup resolved AND at least one lookup failed (not found / expired) in the same history. Every lookup is judged "
                "by the harness from measured clock readings (ambiguous ones are counted, not judged) and every history without "
                "invalid UTF-8 is replayed on the extracted Coq model.",
        "samples": [{"case": trim(cases[i]), "observed": [x["res"] for x in outs[i]["obs"]]}
                    for i in (0, len(cases) // 2, len(cases) - 1) if 0 <= i < len(cases)],
        "model_vs_impl_cases": len(terms), "model_vs_impl_mismatches": len(mism), "impl_property_failures": nfail,
        "lookups_and_address_reads_judged": judged, "ambiguous_steps_not_judged": amb,
        "ambiguous_steps_in_model_replay": n_amb_model,
        "input_distribution": dist, "generated_file_changed": gen_changed,
        "invalid_utf8_stream_reported_not_judged": inv_rep,
        "probe_stream_reported_not_judged": probe_rep,
    })
    ctx.assumptions += [
        "Go encoding/json round-trips tunnel.WaitingState for valid UTF-8 strings (hypothesis dec (enc r) = Some r of the theorems; "
        "exercised field by field on every JSON-backed history; invalid UTF-8 is reported in a separate stream)",
        "the backends return an entry at least until its deadline on their own clock; anything after the deadline is allowed "
        "(function keep); miniredis stands for Redis (virtual TTL clock)",
        "one RoutingTable call is one atomic step (Get and the Delete of an expired record are not interleaved with other nodes' calls)",
        "wall-clock and monotonic readings of time.Now agree within 5 ms over one history (guard band of the timing classification)",
        "storage failures: only single-call outages of the shared tier are modelled and injected (miniredis SetError around one call)",
        "atomic step of the schedule theorems = one storage call: Storage.Set stores the encoding of the value handed to that call, "
        "memory.Storage.CleanupExpired tests and deletes in one critical section (obligations checked on the real backends by the "
        "conc / sweep streams, not proved about Go)",
        "backend time on memory.Storage is moved by shifting the stored deadlines (export shim VerifAdvance), on Redis by miniredis.FastForward",
        "the call sites startSourceBridge / runBridgeLifecycle are driven on a real SessionManager with a 7-method fake CloudControlAPI "
        "(one port mapping) and net.Pipe connections; they are checked by the Go-side predicate, not replayed on the Coq model "
        "(their effect on the table is the model's Register / Remove)",
    ]
    if broken is not None:
        raise broken


def replay(ctx, path):
    r = json.load(open(path))
    rp = r["replay"]
    if "case" in rp:
        run(ctx, only_cases=[rp["case"]])
    else:
        run(ctx, only_cases=[], only_probes=[rp.get("probe", {"backend": "race", "stream": "probe"})])   # probe or bridge case

"""C20 — SOCKS5 requests and UDP headers are parsed exactly as RFC 1928 defines."""
import hashlib
import json
import os

import vlib

# failures of the Go-side predicate that are explained by the pinned variants of the model (the two defects
# repaired by fixes/C20-*.diff): cases with these keys are compared against the pinned model
PINNED_KEYS = ("adapter-greeting-overread", "udp-short-datagram-rejected")
USER, PASS = b"user", b"s3cret"


# ---------------------------------------------------------------------------------------------------
# message builders
# ---------------------------------------------------------------------------------------------------

def rbytes(rng, n):
    return bytes(rng.randrange(256) for _ in range(n))


def name_bytes(rng, n):
    k = rng.random()
    if k < 0.5:
        return bytes(rng.choice(b"abcxyz019-.") for _ in range(n))
    if k < 0.7:
        s = rng.choice([b"1.2.3.4", b"::1", b"0:0:0:0:0:0:0:1", b"::ffff:9.8.7.6", b"10.0.0.1", b"[::1]", b"a:b", b"fe80::1%eth0"])
        return s[:n] if n < len(s) and rng.random() < 0.5 else s
    return rbytes(rng, n)


def enc_addr(atyp, addr):
    return (bytes([len(addr) & 0xFF]) + addr) if atyp == 3 else addr


def rand_addr(rng, atyp):
    if atyp == 1:
        return rng.choice([bytes([10, 0, 0, 1]), bytes([0, 0, 0, 0]), bytes([255] * 4), rbytes(rng, 4)])
    if atyp == 4:
        return rng.choice([bytes(15) + b"\x01", bytes(10) + b"\xff\xff" + rbytes(rng, 4), bytes(12) + rbytes(rng, 4),
                           rbytes(rng, 16), bytes(16)])
    if atyp == 3:
        return name_bytes(rng, rng.choice([0, 1, 2, 3, 4, 5, 7, 11, 15, 16, 17, 63, 254, 255, rng.randrange(256)]))
    return rbytes(rng, rng.choice([0, 1, 4, 6, 20]))


def rand_greeting(rng, want):
    ver = 5 if rng.random() < 0.92 else rng.choice([4, 0, 6, 255, 1])
    nm = rng.choice([0, 1, 1, 1, 2, 2, 3, 5, 255, rng.randrange(256)])
    pool = [want, want, 0, 2, 1, 255, 128, rng.randrange(256)]
    if rng.random() < 0.2:
        pool = [x for x in pool if x != want] or [1]
    return bytes([ver, nm]) + bytes(rng.choice(pool) for _ in range(nm))


def rand_userpass(rng):
    k = rng.random()
    ver = 1 if k < 0.9 else rng.choice([0, 5, 2])
    u = USER if rng.random() < 0.75 else rng.choice([b"", b"u", USER + b"x", rbytes(rng, rng.choice([1, 5, 255]))])
    p = PASS if rng.random() < 0.75 else rng.choice([b"", b"p", PASS[:-1], rbytes(rng, rng.choice([1, 6, 255]))])
    return bytes([ver, len(u)]) + u + bytes([len(p)]) + p


def rand_request(rng):
    ver = 5 if rng.random() < 0.92 else rng.choice([4, 0, 6, 1])
    cmd = rng.choice([1, 1, 1, 1, 3, 3, 2, 0, 4, rng.randrange(256)])
    rsv = rng.choice([0, 0, 0, 1, 255])
    atyp = rng.choice([1, 1, 3, 3, 3, 4, 4, 0, 2, 5, rng.randrange(256)])
    addr = rand_addr(rng, atyp)
    port = rng.choice([0, 80, 443, 53, 853, 65535, 256, 255, rng.randrange(65536)])
    return bytes([ver, cmd, rsv, atyp]) + enc_addr(atyp, addr) + port.to_bytes(2, "big")


def cut_variants(rng, s, bounds):
    """chunkings: one-shot, byte-wise, exactly at the field boundaries, coalesced across each boundary, random"""
    n = max(len(s), 1)
    out = [[], [1] * n]
    if bounds:
        sizes = [b - a for a, b in zip([0] + bounds, bounds) if b > a]
        out.append(sizes)                                   # every message delivered separately
        for i in range(len(bounds)):
            # the message ending at bounds[i] arrives together with k bytes of what follows
            prev = bounds[i - 1] if i else 0
            k = rng.choice([1, 2, 4, 1000])
            out.append(([prev] if prev else []) + [bounds[i] - prev + k])
    out.append([rng.choice([1, 1, 2, 3, 4, 5, 16, 300]) for _ in range(min(n, 64))])
    out.append([rng.randrange(1, 7) for _ in range(min(n, 64))])
    return out


def session_cases(rng, kinds, n_sessions, trunc_prob=0.35):
    cases = []
    for _ in range(n_sessions):
        kind = rng.choice(kinds)
        auth = kind == "adapter-auth"
        want = 2 if auth else 0
        g = rand_greeting(rng, want)
        parts = [g]
        if auth and rng.random() < 0.9:
            parts.append(rand_userpass(rng))
        parts.append(rand_request(rng))
        parts.append(rbytes(rng, rng.choice([0, 0, 1, 3, 8])))      # application payload that follows
        s = b"".join(parts)
        bounds, acc = [], 0
        for p in parts[:-1]:
            acc += len(p)
            bounds.append(acc)
        if rng.random() < trunc_prob and len(s) > 0:
            s = s[:rng.randrange(len(s))]
        for cuts in rng.sample(cut_variants(rng, s, [b for b in bounds if b <= len(s)]), 3):
            cases.append(mk_session(kind, s, cuts))
    return cases


def mk_session(kind, s, cuts):
    if kind == "listener":
        return {"k": "listener", "s": s.hex(), "cuts": list(cuts)}
    auth = kind == "adapter-auth"
    c = {"k": "adapter", "s": s.hex(), "cuts": list(cuts), "auth": auth}
    if auth:
        c["user"], c["pass"] = USER.hex(), PASS.hex()
    return c


def malformed_sessions(rng, base, per):
    out = []
    for c in base:
        s = bytes.fromhex(c["s"])
        for _ in range(per):
            b = bytearray(s)
            k = rng.randrange(5)
            if k == 0 and b:
                b[rng.randrange(len(b))] ^= 1 << rng.randrange(8)
            elif k == 1 and b:
                i = rng.randrange(len(b))
                b = b[:i] + bytes([rng.randrange(256)]) + b[i:]
            elif k == 2 and b:
                del b[rng.randrange(len(b))]
            elif k == 3:
                b = bytearray(rbytes(rng, rng.randrange(0, 24)))
            else:
                b = bytearray([5, rng.randrange(4)]) + rbytes(rng, rng.randrange(0, 20))
            d = dict(c, s=bytes(b).hex(), cuts=rng.choice([[], [1] * max(len(b), 1), [rng.randrange(1, 6) for _ in range(len(b))]]))
            out.append(d)
    return out


# ---- exhaustive structured enumeration (thorough tier; a seeded sample of it in quick) ----

def enum_sessions(kind):
    want = 2 if kind == "adapter-auth" else 0
    other = 1
    greetings = [
        (bytes([5, 0]), False),
        (bytes([5, 1, want]), True), (bytes([5, 1, other]), False),
        (bytes([5, 2, other, want]), True), (bytes([5, 2, other, 3]), False),
        (bytes([5, 255]) + bytes([7] * 254 + [want]), True), (bytes([5, 255]) + bytes([7] * 255), False),
        (bytes([4, 1, want]), False),
    ]
    ups = [b""]
    if kind == "adapter-auth":
        ups = [bytes([1, len(USER)]) + USER + bytes([len(PASS)]) + PASS,
               bytes([1, len(USER)]) + USER + bytes([len(PASS)]) + PASS[:-1] + b"!",
               bytes([1, 0, 0]), bytes([2, 1, 0x75, 1, 0x70]),
               bytes([1, 255]) + bytes([0x61] * 255) + bytes([255]) + bytes([0x62] * 255)]
    reqs = []
    for ver in (5, 4):
        for cmd in range(5):
            for atyp in range(6):
                alens = [0, 1, 2, 255] if atyp == 3 else [{1: 4, 4: 16}.get(atyp, 3)]
                for al in alens:
                    addr = bytes((0x61 + i % 26) for i in range(al)) if atyp == 3 else bytes(range(1, al + 1))
                    reqs.append(bytes([ver, cmd, 0, atyp]) + enc_addr(atyp, addr) + bytes([0x1F, 0x90]))
                if ver == 4:
                    break
            if ver == 4:
                break
    for g, gok in greetings:
        for up in (ups if gok else [b""]):
            upok = gok and (kind != "adapter-auth" or up == ups[0])
            for r in (reqs if upok else reqs[:1]):
                yield [g] + ([up] if up else []) + [r, b"\xAA\xBB"]


def trunc_points(parts, full=False):
    total = sum(len(p) for p in parts)
    if total <= 48 or full:
        return list(range(total + 1))
    pts, acc = {0, total}, 0
    for p in parts:
        for d in (-1, 0, 1, 2, 4, 5):
            pts.add(acc + d)
        acc += len(p)
        for d in (-3, -2, -1):
            pts.add(acc + d)
    pts |= set(range(0, total, 41))
    return sorted(x for x in pts if 0 <= x <= total)


def enum_cases(kind, full=False):
    out = []
    for parts in enum_sessions(kind):
        full = b"".join(parts)
        bounds, acc = [], 0
        for p in parts[:-1]:
            acc += len(p)
            bounds.append(acc)
        for t in trunc_points(parts, full):
            s = full[:t]
            chunkings = [[], [1] * max(len(s), 1)]
            b0 = bounds[0]
            if len(s) > b0:
                chunkings.append([b0 + 1])                  # greeting coalesced with the first byte of what follows
                chunkings.append([b0, len(s)])              # greeting alone, then the rest in one segment
            for cuts in chunkings:
                out.append(mk_session(kind, s, cuts))
    return out


# ---- UDP ----

def rand_datagram(rng):
    rsv = rng.choice([b"\0\0", b"\0\0", b"\0\0", rbytes(rng, 2)])
    frag = rng.choice([0, 0, 0, 0, 0, 1, 128, rng.randrange(256)])
    atyp = rng.choice([1, 1, 3, 3, 3, 4, 4, 0, 2, 5, rng.randrange(256)])
    addr = rand_addr(rng, atyp)
    if atyp == 3 and rng.random() < 0.5:
        addr = name_bytes(rng, rng.choice([0, 1, 1, 2, 2, 3]))           # short names: header shorter than 10 bytes
    port = rng.choice([0, 53, 80, 443, 65535, rng.randrange(65536)])
    payload = rbytes(rng, rng.choice([0, 0, 1, 1, 2, 3, 10, 100, 600]))
    d = rsv + bytes([frag, atyp]) + enc_addr(atyp, addr) + port.to_bytes(2, "big") + payload
    k = rng.random()
    if k < 0.25 and d:
        d = d[:rng.randrange(len(d))]
    elif k < 0.3:
        d = rbytes(rng, rng.randrange(0, 30))
    return {"k": "udp", "d": d.hex()}


def enum_datagrams():
    out = []
    for frag in (0, 1):
        for atyp in range(6):
            alens = [0, 1, 2, 3, 255] if atyp == 3 else [{1: 4, 4: 16}.get(atyp, 3)]
            for al in alens:
                addr = bytes((0x61 + i % 26) for i in range(al)) if atyp == 3 else bytes(range(1, al + 1))
                for pl in (0, 1, 3):
                    d = bytes([0, 0, frag, atyp]) + enc_addr(atyp, addr) + b"\x00\x35" + bytes([0xEE] * pl)
                    pts = range(len(d) + 1) if len(d) <= 48 else sorted(set(list(range(12)) + list(range(len(d) - 8, len(d) + 1))))
                    for t in pts:
                        out.append({"k": "udp", "d": d[:t].hex()})
    # every domain-name length 0..255 (whole datagram; parse, then build -> parse on the real relay): a name of exactly 4 or
    # 16 bytes must stay a name ("t.co", "0123456789abcdef"), whatever it looks like
    for al in range(256):
        for name in (bytes((0x61 + i % 26) for i in range(al)), (b"t.co.example.org-" * 16)[:al]):
            out.append({"k": "udp", "d": (bytes([0, 0, 0, 3, al]) + name + b"\x01\xbb" + b"pay").hex()})
    # IPv6 addresses with special forms
    for a16 in (bytes(10) + b"\xff\xff\x01\x02\x03\x04", bytes(12) + b"\x01\x02\x03\x04", bytes(15) + b"\x01", bytes(16)):
        out.append({"k": "udp", "d": (bytes([0, 0, 0, 4]) + a16 + b"\x01\xbb" + b"xy").hex()})
    return out


def enum_name_lengths():
    """every domain-name length 0..255 through buildUDPHeader and through both TCP parsers (one-shot and byte-wise)"""
    out = []
    for al in range(256):
        name = (b"t.co.example.org-" * 16)[:al]
        out.append({"k": "build", "host": name.hex(), "port": 443, "payload": "70"})
        s = bytes([5, 1, 0, 5, 1, 0, 3, al]) + name + b"\x01\xbb" + b"\xAA"
        for kind in ("listener", "adapter"):
            out.append(mk_session(kind, s, [] if al % 2 else [1] * len(s)))
    return out


def rand_build(rng):
    k = rng.random()
    if k < 0.25:
        host = ".".join(str(rng.choice([0, 1, 10, 127, 255, rng.randrange(256)])) for _ in range(4)).encode()
    elif k < 0.5:
        host = rng.choice([b"::1", b"::", b"2001:4860:4860::8888", b"::ffff:1.2.3.4", b"0:0:0:0:0:0:0:1", b"fe80::1",
                           b"::1.2.3.4", b"1:2:3:4:5:6:7:8", b"::FFFF:0102:0304", b"fe80::1%eth0", b"01.2.3.4", b"1.2.3"])
    elif k < 0.8:
        host = name_bytes(rng, rng.choice([0, 1, 2, 3, 4, 5, 11, 15, 16, 17, 63, 254, 255]))
    else:
        host = rbytes(rng, rng.choice([1, 4, 16, 40, 255]))
    port = rng.choice([0, 53, 80, 65535, rng.randrange(65536)])
    return {"k": "build", "host": host.hex(), "port": port, "payload": rbytes(rng, rng.choice([0, 1, 2, 30, 300])).hex()}


# ---- histories on ONE relay: results are retained and compared after every later operation ----

DESTS = [(b"8.8.8.8", 53, 4), (b"10.0.0.1", 8080, 48), (b"2001:db8::1", 2222, 16), (b"::ffff:1.2.3.4", 443, 1),
         (b"a", 80, 0), (b"example.com", 443, 48), (b"a-rather-long-host-name.example.org", 65535, 300), (b"", 0, 2)]


def build_op(host, port, plen, fill):
    return {"op": "build", "host": host.hex(), "port": port, "payload": bytes([fill & 0xFF] * plen).hex()}


def parse_op(rng):
    while True:
        d = bytes.fromhex(rand_datagram(rng)["d"])
        if len(d) >= 10:            # shorter ones are the 'udp' cases' business (and differ on an unrepaired tree)
            return {"op": "parse", "d": d.hex()}


def enum_histories():
    """every ordered pair and every triple (x, y, x-sized z) of the destinations above: later results shorter, equal and
    longer than earlier ones, all address types"""
    out = []
    for i, a in enumerate(DESTS):
        for j, b in enumerate(DESTS):
            out.append({"k": "seq", "ops": [build_op(*a, 0xA0 + i), build_op(*b, 0xB0 + j)]})
            c = DESTS[(i + j + 1) % len(DESTS)]
            out.append({"k": "seq", "ops": [build_op(*a, 0xA0 + i), build_op(*b, 0xB0 + j), build_op(*c, 0xC0 + i)]})
    return out


def rand_history(rng):
    ops = []
    for _ in range(rng.choice([2, 3, 3, 4, 6, 8])):
        if rng.random() < 0.65:
            b = rand_build(rng)
            ops.append({"op": "build", "host": b["host"], "port": b["port"], "payload": b["payload"]})
        else:
            ops.append(parse_op(rng))
    return {"k": "seq", "ops": ops}


def conc_cases(rng, n, rounds):
    out = [{"k": "conc", "rounds": rounds, "ops": [build_op(*d, 0x10 + i) for i, d in enumerate(DESTS[:4])]},
           {"k": "conc", "rounds": rounds, "ops": [build_op(*d, 0x20 + i) for i, d in enumerate(DESTS)]}]
    for _ in range(n):
        g = rng.choice([2, 3, 4, 8])
        ops = []
        for i in range(g):
            b = rand_build(rng)
            ops.append({"op": "build", "host": b["host"], "port": b["port"], "payload": b["payload"]})
        out.append({"k": "conc", "rounds": rounds, "ops": ops})
    return out


# ---- two inputs handled at overlapping times (beyond the quantifier; see harness/cmd/c20/overlap.go) ----

def overlap_cases(rng, n_rand):
    g = bytes([5, 1, 0])
    reqs = {"bind": bytes([5, 2, 0, 1, 1, 2, 3, 4, 0, 80]), "atyp": bytes([5, 1, 0, 9, 1, 2, 3, 4, 0, 80]),
            "ver": bytes([4, 1, 0, 1, 1, 2, 3, 4, 0, 80]), "ok": bytes([5, 1, 0, 3, 4]) + b"t.co" + bytes([1, 187]),
            "ok6": bytes([5, 1, 0, 4]) + bytes(15) + b"\x01" + bytes([0, 80]), "nometh": b""}
    out = []
    for kind in ("listener", "adapter"):
        names = list(reqs)
        for a in names:
            for b in names:
                if a == b:
                    continue
                sa = (bytes([5, 1, 2]) if a == "nometh" else g + reqs[a])
                sb = (bytes([5, 1, 2]) if b == "nometh" else g + reqs[b])
                out.append({"k": "twoconn", "conns": [mk_session(kind, sa, []), mk_session(kind, sb, [1] * len(sb))]})
    rnd = session_cases(rng, ["listener", "adapter", "adapter-auth"], n_rand, trunc_prob=0.1)
    for i in range(0, len(rnd) - 1, 2):
        out.append({"k": "twoconn", "conns": [rnd[i], rnd[i + 1]]})
    for host in (bytes([0, 0, 0, 1, 1, 2, 3, 4]), bytes([0, 0, 0, 3, 11]) + b"example.com", bytes([0, 0, 0, 4]) + bytes(15) + b"\x01"):
        d = host + (7000).to_bytes(2, "big") + bytes([0x41] * 48)
        later = [(bytes([0, 0, 0, 1, 8, 8, 8, 8, 0, 53]) + bytes([0x42 + i] * 48)).hex() for i in range(4)]
        out.append({"k": "relay", "d": d.hex(), "later": later, "rounds": 8})
    # single LARGE datagrams through the real relay (datagram size is an input): the forwarded payload must be the DATA
    # bytes, byte for byte, up to the largest UDP datagram (65507 bytes incl. header over loopback)
    for total in (1400, 4096, 16374, 16375, 16384, 16385, 20000, 32768, 40000, 65497, 65507):
        hdr = bytes([0, 0, 0, 1, 1, 2, 3, 4]) + (7000).to_bytes(2, "big")
        d = hdr + bytes((i * 7 + i // 251) % 256 for i in range(total - len(hdr)))
        out.append({"k": "relay", "d": d.hex(), "later": [], "rounds": 2})
    d = bytes([0, 0, 0, 3, 255]) + bytes([0x61] * 255) + (7000).to_bytes(2, "big")
    out.append({"k": "relay", "d": (d + bytes(i % 253 for i in range(65507 - len(d)))).hex(), "later": [], "rounds": 1})
    return out


# ---------------------------------------------------------------------------------------------------
# case -> universal value for Corr/C20.check
# ---------------------------------------------------------------------------------------------------

def tbl_value(o):
    return [[bytes.fromhex(a), [] if b is None else [bytes.fromhex(b)]] for a, b in o["tbl"]]


def canon_value(c):
    return [c["tag"], bytes.fromhex(c["b"])]


def case_value(c, o):
    hb = bytes.fromhex
    pinned = o.get("prop_key") in PINNED_KEYS
    if c["k"] == "listener":
        return [0, hb(c["s"]), list(c["cuts"]),
                [o["ok"], o["cmd"], canon_value(o["canon"]), o["port"], hb(o["out"]), o["used"]], tbl_value(o)]
    if c["k"] == "adapter":
        auth = [[hb(c["user"]), hb(c["pass"])]] if c.get("auth") else None
        return [1, hb(c["s"]), list(c["cuts"]), auth, pinned,
                [o["hs_ok"], o["hs_used"], o["ok"], canon_value(o["canon"]), o["port"], hb(o["out"]), o["used"]], tbl_value(o)]
    if c["k"] == "udp":
        return [2, hb(c["d"]), pinned,
                [o["ok"], canon_value(o["canon"]), o["port"], hb(o["payload"]), hb(o["host"]), hb(o["built"]),
                 o["ok2"], canon_value(o["canon2"]), o["port2"], hb(o["payload2"])], tbl_value(o)]
    if c["k"] == "build":
        return [3, hb(c["host"]), c["port"], hb(c["payload"]), hb(o["built"]), tbl_value(o)]
    if c["k"] in ("seq", "conc"):
        ops = c["ops"]
        if c["k"] == "conc":        # the harness reports round-major, session i of round r builds ops[(i+r) % g]
            g = len(ops)
            ops = [ops[(i + r) % g] for r in range(len(o["ops"]) // g) for i in range(g)]
        vals = []
        for op, r in zip(ops, o["ops"]):
            if op["op"] == "build":
                vals.append([0, hb(op["host"]), op["port"], hb(op["payload"]), hb(r["built"])])
            else:
                vals.append([1, hb(op["d"]), r["ok"], canon_value(r["canon"]), r["port"], hb(r["payload"])])
        return [4, vals, tbl_value(o)]
    raise ValueError(c["k"])


def case_key(c):
    return hashlib.sha256(json.dumps(c, sort_keys=True).encode()).hexdigest()


def shrink(binary, case, key):
    """greedy: shorten the stream from the end / simplify the chunking while the same predicate key still fails"""
    def fails(c):
        try:
            o = vlib.run_harness(binary, [c])[0]
            return (not o["prop_ok"]) and o.get("prop_key") == key
        except vlib.Broken:
            return False
    cur = json.loads(json.dumps(case))
    field = "d" if cur["k"] == "udp" else ("s" if cur["k"] in ("listener", "adapter") else None)
    for _ in range(60):
        changed = False
        if field and len(cur[field]) > 2:
            t = dict(cur, **{field: cur[field][:-2]})
            if fails(t):
                cur, changed = t, True
        if cur.get("cuts") and len(cur["cuts"]) > 1:
            t = dict(cur, cuts=cur["cuts"][:-1])
            if fails(t):
                cur, changed = t, True
        if cur.get("ops") and len(cur["ops"]) > 2:
            for i in range(len(cur["ops"])):
                t = dict(cur, ops=cur["ops"][:i] + cur["ops"][i + 1:])
                if fails(t):
                    cur, changed = t, True
                    break
        if not changed:
            break
    return cur


def load_corpus():
    d = os.path.join(vlib.VERIF, "corpus", "C20")
    out = []
    if os.path.isdir(d):
        for f in sorted(os.listdir(d)):
            if f.endswith(".json"):
                x = json.load(open(os.path.join(d, f)))
                out += x if isinstance(x, list) else [x]
    return out


def dedupe(cases):
    seen, out = set(), []
    for c in cases:
        k = case_key(c)
        if k not in seen:
            seen.add(k)
            out.append(c)
    return out


def run(ctx, only_cases=None):
    thorough = ctx.tier == "thorough"
    rng = ctx.rng
    binary = vlib.build_harness("C20")
    gen_changed = vlib.write_if_changed(os.path.join(vlib.COQ, "Gen", "C20.v"), vlib.harness_text(binary, ["gen"]))
    broken = None
    try:
        pinfo = vlib.coq_properties("C20")
        vlib.proof_coverage(ctx, pinfo, "make -C coq Properties/C20.vo && coqc Properties/C20.v (Print Assumptions audit)",
                            extra_obligations=11)   # the 11 regenerated side conditions of Proofs/SideC20.v
    except vlib.Broken as b:
        broken = b      # keep going: search the implementation for a concrete failing input first

    kinds = ["listener", "adapter", "adapter-auth"]
    exhaustive = False
    if only_cases is not None:
        cases = only_cases
        n_enum = 0
    else:
        cases = load_corpus()
        rnd = session_cases(rng, kinds, 4000 if thorough else 450)
        cases += rnd
        cases += malformed_sessions(rng, rnd[:: (4 if thorough else 8)], 3)
        enum = []
        for k in kinds:
            enum += enum_cases(k, full=thorough)
        n_enum_total = len(enum)
        if thorough:
            exhaustive = True
        else:
            enum = rng.sample(enum, min(len(enum), 1500))
        n_enum = len(enum)
        cases += enum
        ud = enum_datagrams()
        cases += ud
        cases += [rand_datagram(rng) for _ in range(20000 if thorough else 1500)]
        cases += [rand_build(rng) for _ in range(4000 if thorough else 400)]
        cases += enum_name_lengths()
        cases += enum_histories()
        cases += [rand_history(rng) for _ in range(3000 if thorough else 300)]
        cases += conc_cases(rng, 60 if thorough else 10, 8 if thorough else 4)
        cases += overlap_cases(rng, 200 if thorough else 20)
        cases = dedupe(cases)
    outs = vlib.run_harness(binary, cases, timeout=1500)

    # (iii) the property predicate evaluated on the implementation's own outputs, against the Go-side RFC reference
    fails = {}
    for i, (c, o) in enumerate(zip(cases, outs)):
        if not o["prop_ok"]:
            fails.setdefault(o.get("prop_key", "?"), []).append(i)
    for key, idx in sorted(fails.items()):
        i = min(idx, key=lambda j: len(json.dumps(cases[j])))
        small = shrink(binary, cases[i], key) if only_cases is None else cases[i]
        so = vlib.run_harness(binary, [small])[0]
        if so["prop_ok"]:
            small, so = cases[i], outs[i]
        ctx.violation(key, "real SOCKS5 parser: %s" % so.get("prop_msg", ""),
                      {"case": small, "observed": {k: v for k, v in so.items() if k != "tbl"}, "failing_cases_in_run": len(idx)})

    # (ii) model vs implementation (pinned variants for the cases explained by the two repaired defects)
    mism = []
    pairs = []          # (case, observation) handed to the model; a twoconn case contributes its two connections
    for c, o in zip(cases, outs):
        if o.get("panic") or c["k"] == "relay":
            continue            # relay: real sockets/goroutines, judged by the Go-side predicate only
        if c["k"] == "twoconn":
            pairs += [(sc, so) for sc, so in zip(c["conns"], o["conns"]) if not so.get("panic")]
        else:
            pairs.append((c, o))
    terms = [case_value(c, o) for c, o in pairs]
    try:
        res = vlib.model_eval("C20", terms)
        mism = [k for k, ok in enumerate(res) if not ok]
        small = [k for k, (c, _) in enumerate(pairs) if len(json.dumps(c)) < 400]
        small = small[:: max(1, len(small) // 40)][:40]
        vm_bad = sorted(small[k] for k in vlib.vm_crosscheck("C20", [terms[k] for k in small]))
        ext_bad = sorted(k for k in small if not res[k])
        if vm_bad != ext_bad:
            raise vlib.Broken("extracted runner and vm_compute disagree on the C20 model", "vm=%s extracted=%s" % (vm_bad, ext_bad))
        ctx.coverage["vm_compute_crosschecked_cases"] = len(small)
    except vlib.Broken as b:
        broken = broken or b
    for k in mism[:3]:
        c, o = pairs[k]
        if o["prop_ok"] or o.get("prop_key") in PINNED_KEYS:
            which = "pinned" if o.get("prop_key") in PINNED_KEYS else "current"
            pred = None
            try:
                pred = vlib.model_eval("C20", [case_value(c, o)], predict=True)[1][0]
            except Exception:
                pass
            ctx.violation("model-mismatch", "Corr/C20.check: the %s Socks model and the real parser disagree on a case on which the "
                          "Go-side RFC predicate %s; the theorems of Properties/C20.v no longer speak about this code"
                          % (which, "holds" if o["prop_ok"] else "fails with the known key " + o["prop_key"]),
                          {"case": c, "observed": {kk: v for kk, v in o.items() if kk != "tbl"}, "model_predicts": pred},
                          found_input=False)

    # coverage
    nontrivial = set()
    dist = {"listener": 0, "adapter_noauth": 0, "adapter_auth": 0, "udp_parse": 0, "udp_build": 0,
            "sessions_accepted": 0, "sessions_with_error_reply": 0, "sessions_rejected_silently_or_incomplete": 0,
            "udp_accepted": 0, "udp_dropped": 0, "chunkings": {"one_shot": 0, "bytewise": 0, "other": 0},
            "enumerated_structured_cases": n_enum, "relay_histories": 0, "concurrent_build_cases": 0,
            "history_operations": 0, "parse_results_whose_payload_aliases_the_input_buffer": 0,
            "overlapping_connection_pairs": 0, "real_relay_cases": 0, "real_relay_rounds_judged": 0,
            "real_relay_rounds_inconclusive": 0}
    for c, o in zip(cases, outs):
        k = c["k"]
        if k in ("listener", "adapter"):
            dist["listener" if k == "listener" else ("adapter_auth" if c.get("auth") else "adapter_noauth")] += 1
            cuts = c["cuts"]
            dist["chunkings"]["one_shot" if not cuts else ("bytewise" if set(cuts) == {1} else "other")] += 1
            if o["ok"]:
                dist["sessions_accepted"] += 1
                nontrivial.add(case_key(c))
            elif len(o["out"]) > 4:
                dist["sessions_with_error_reply"] += 1
                nontrivial.add(case_key(c))
            else:
                dist["sessions_rejected_silently_or_incomplete"] += 1
        elif k == "udp":
            dist["udp_parse"] += 1
            if o["ok"]:
                dist["udp_accepted"] += 1
                nontrivial.add(case_key(c))
            else:
                dist["udp_dropped"] += 1
        elif k == "build":
            dist["udp_build"] += 1
            nontrivial.add(case_key(c))
        elif k in ("twoconn", "relay"):
            dist["overlapping_connection_pairs" if k == "twoconn" else "real_relay_cases"] += 1
            dist["real_relay_rounds_judged"] += o.get("relay_rounds_judged", 0)
            dist["real_relay_rounds_inconclusive"] += o.get("inconclusive", 0)
            nontrivial.add(case_key(c))
        else:
            dist["relay_histories" if k == "seq" else "concurrent_build_cases"] += 1
            dist["history_operations"] += len(o.get("ops") or [])
            dist["parse_results_whose_payload_aliases_the_input_buffer"] += o.get("payload_aliases_input", 0)
            if sum(1 for op in c["ops"] if op["op"] == "build") >= 2:
                nontrivial.add(case_key(c))
    pick = [i for i in (0, len(cases) // 3, 2 * len(cases) // 3, len(cases) - 1) if 0 <= i < len(cases)]
    ctx.coverage.update({
        "evaluations": len(cases), "distinct_nontrivial": len(nontrivial),
        "rule": "corpus first; then sessions (greeting [+RFC1929] + request + payload, mostly valid, 35% truncated) x chunkings "
                "(one-shot, byte-wise, per-message, coalesced across each message boundary, random), a malformed stream (bit "
                "flips / insertions / deletions / random bytes), the structured enumeration ver x nmethods{0,1,2,255} x methods x "
                "cmd 0..4 x atyp 0..5 x domain length {0,1,2,255} x every truncation point x {one-shot, byte-wise, greeting "
                "coalesced with the next byte, greeting alone} (complete in the thorough tier, a seeded sample in quick), UDP "
                "datagrams (enumeration frag x atyp x length x payload x truncation, EVERY domain-name length 0..255 + random), "
                "buildUDPHeader destinations and both TCP parsers with every name length 0..255, "
                "histories of build/parse operations on ONE relay whose results are retained and re-compared after every later "
                "operation (every ordered pair and triple of 8 destinations of all address types and of shorter/equal/longer "
                "sizes + random histories) and rounds of 2..8 goroutines building at the same time on one relay, judged after a barrier; "
                "all from one PRNG seeded by VERIF_SEED.  distinct = distinct case JSON; non-trivial = a session that is accepted "
                "or answered with an RFC error reply, an accepted datagram, a build case, or a relay history with at least two builds.  Every case is run through the real "
                "parsers, judged by the Go-side RFC reference, and compared with the extracted Coq model.",
        "samples": [{"case": cases[i], "observed": {k: v for k, v in outs[i].items() if k != "tbl"}} for i in pick],
        "exhaustive": exhaustive,
        "model_vs_impl_cases": len(terms), "model_vs_impl_mismatches": len(mism),
        "impl_property_failures": {k: len(v) for k, v in fails.items()},
        "input_distribution": dist, "generated_file_changed": gen_changed,
    })
    if only_cases is None:
        ctx.coverage["structured_enumeration_size"] = n_enum_total
    ctx.assumptions += [
        "net.ParseIP returns 16-byte addresses and inverts net.IP.String on 4- and 16-byte addresses (hypotheses of "
        "C20_udp_rebuild_reparse / C20_udp_build_then_parse; exercised by every accepted case of the run)",
        "io.Reader contract: a Read returns n>0 or an error (the chunk oracle never returns (0,nil)); conn.Write does not fail",
        "reserved fields (RSV) are not validated by the reference; the 4-byte fixed part of a request is judged as a unit",
        "Go index-out-of-range panics are not modelled (the harness recovers and reports any panic as a violation)",
        "results are values (C20_udp_results_are_values is trivial in Gallina): for the Go code this is the no-aliasing assumption "
        "checked by the seq/conc cases: a datagram returned by buildUDPHeader keeps its bytes until its consumer is done with it "
        "(after any later build/parse on the same relay, after the caller reuses the payload buffer it passed in, and after a "
        "barrier under concurrent builds); the host string returned by parseUDPHeader does not change when the input buffer is reused",
        "parseUDPHeader returns the payload as a SUB-SLICE of its input buffer (payload := data[headerLen:]; not documented in the "
        "code, measured on every run: coverage.input_distribution.parse_results_whose_payload_aliases_the_input_buffer). This is "
        "accepted because readLoop hands every datagram its own copy (dataCopy) and handlePacket uses the payload before returning; "
        "readLoop/handlePacket themselves (real sockets, goroutines) are not driven by this check",
        "overlapping handling of two inputs is outside the property's quantifier (inputs, one at a time) and outside the theorems; it is "
        "covered by supplementary harness cases only: twoconn (connection B handled while a Write of connection A is parked; both must be "
        "answered as when alone) and relay (a REAL UDPRelay on 127.0.0.1: a datagram parked in tunnel set-up while later datagrams arrive "
        "must be forwarded with its own DATA bytes — this is what justifies accepting parseUDPHeader's sub-slice payload); rounds in which "
        "a loopback datagram does not arrive within 2 s are counted inconclusive, never failed",
        "the size of readLoop's receive buffer (datagram truncation by the kernel) is outside the model: large datagrams (up to 65507 bytes) "
        "are sent through the real relay by the relay cases and the forwarded payload is compared byte for byte (harness only)",
        "host names longer than 255 bytes are not given to buildUDPHeader (its callers pass hosts obtained from parseUDPHeader)",
    ]
    if broken is not None:
        raise broken


def replay(ctx, path):
    r = json.load(open(path))
    run(ctx, only_cases=[r["replay"]["case"]])

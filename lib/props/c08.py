"""C08 — cross-node lookup finds a connected client at its current node."""
import hashlib
import itertools
import json
import os

import vlib

TTL_MS, UNIT_MS, MARGIN_MS = 300, 120, 25        # ttl = 2.5 units: no event ever falls within 60 ms of a deadline
BACKENDS = ["memory", "redis", "hybrid-redis", "hybrid-mem"]
PTR = {"memory": 1, "hybrid-mem": 1, "redis": 0, "hybrid-redis": 0}     # Get hands back the stored Go value
INCL = {"memory": 1, "hybrid-mem": 1, "redis": 0, "hybrid-redis": 0}    # readable at exactly the deadline (never observed)

CONNECT, AUTHOK, AUTHFAIL, KICK, HEARTBEAT, CLOSE, TICK, SREG, SUNREG, SREFRESH = 0, 1, 2, 3, 4, 5, 6, 10, 11, 12
SIDE_CONDITIONS = 7   # lemmas of Proofs/SideC08.v


def mk(mode, backend, ops, nodes, clients, tag=""):
    return {"mode": mode, "backend": backend, "ttl_ms": TTL_MS, "unit_ms": UNIT_MS, "margin_ms": MARGIN_MS,
            "nodes": nodes, "clients": clients, "ops": ops, "tag": tag}


# ----------------------------------------------------------------------------------------------
# generators
# ----------------------------------------------------------------------------------------------
def tick(rng, budget):
    d = rng.choice([1, 1, 2, 2, 2, 3, 4])
    d = min(d, budget[0])
    budget[0] -= d
    return [TICK, d] if d > 0 else None


def session_history(rng, nodes, clients, length):
    """valid SessionManager histories: unique connection ids, handshakes on open connections, a connection
    authenticates as one client id only; logins of a client may be preceded by the kick the real auth handler issues"""
    ops, nextc, budget = [], [1], [9]
    open_conns = []          # (n, c)
    owner = {}               # c -> client
    current = {}             # x -> (n, c)
    for _ in range(length):
        k = rng.random()
        if k < 0.16 or not open_conns:
            n = rng.randrange(1, nodes + 1)
            c = nextc[0]
            nextc[0] += 1
            ops.append([CONNECT, n, c])
            open_conns.append((n, c))
            if rng.random() < 0.8:
                x = rng.choice(clients)
                if rng.random() < 0.4:
                    ops.append([KICK, n, x, c])
                ops.append([AUTHOK, n, c, x])
                owner[c] = x
                current[x] = (n, c)
        elif k < 0.26:
            n, c = rng.choice(open_conns)
            x = owner.get(c) or rng.choice(clients)
            if rng.random() < 0.25:
                ops.append([AUTHFAIL, n, c, x])
            else:
                ops.append([AUTHOK, n, c, x])
                owner[c] = x
                current[x] = (n, c)
        elif k < 0.56:
            # heartbeats: mostly on current connections, sometimes on stale / unknown ones
            if current and rng.random() < 0.7:
                n, c = current[rng.choice(sorted(current))]
            else:
                n, c = rng.choice(open_conns)
                if rng.random() < 0.1:
                    n = rng.randrange(1, nodes + 1)
            ops.append([HEARTBEAT, n, c])
        elif k < 0.72:
            # closes: prefer OLD connections (the late cleanup), sometimes the current one
            stale = [nc for nc in open_conns if nc not in current.values()]
            n, c = rng.choice(stale) if stale and rng.random() < 0.7 else rng.choice(open_conns)
            ops.append([CLOSE, n, c])
            open_conns.remove((n, c))
        else:
            t = tick(rng, budget)
            if t:
                ops.append(t)
    return ops


def store_history(rng, nodes, clients, length):
    """bare connstate.Store calls: a connection id belongs to one (node, client, type) for good; refresh and
    unregister may come from any node and at any time (also for unknown / already removed connections)"""
    ops, budget = [], [9]
    conns = {}               # c -> (n, x, ctl)
    for _ in range(length):
        k = rng.random()
        if k < 0.3 or not conns:
            c = rng.randrange(1, 7)
            if c not in conns:
                conns[c] = (rng.randrange(1, nodes + 1), rng.choice(clients + [0]), 1 if rng.random() < 0.85 else 0)
            n, x, ctl = conns[c]
            ops.append([SREG, n, c, x, ctl])
        elif k < 0.5:
            c = rng.choice(sorted(conns)) if rng.random() < 0.9 else rng.randrange(1, 9)
            n = conns[c][0] if c in conns and rng.random() < 0.7 else rng.randrange(1, nodes + 1)
            ops.append([SUNREG, n, c])
        elif k < 0.75:
            c = rng.choice(sorted(conns)) if rng.random() < 0.9 else rng.randrange(1, 9)
            n = conns[c][0] if c in conns and rng.random() < 0.7 else rng.randrange(1, nodes + 1)
            ops.append([SREFRESH, n, c])
        else:
            t = tick(rng, budget)
            if t:
                ops.append(t)
    return ops


def scripted(rng):
    """the histories the property is about, with randomised placement of the old node's cleanup"""
    out = []
    x = 7
    # reconnect to another node before the old node notices; old node cleans up late; heartbeats keep the new one alive
    base = [[CONNECT, 1, 1], [AUTHOK, 1, 1, x], [TICK, 1], [HEARTBEAT, 1, 1], [CONNECT, 2, 2], [AUTHOK, 2, 2, x]]
    tail = [[HEARTBEAT, 2, 2], [TICK, 2], [HEARTBEAT, 2, 2], [TICK, 2], [HEARTBEAT, 2, 2], [TICK, 2]]
    for pos in range(len(tail) + 1):
        out.append(("reconnect-other-node", base + tail[:pos] + [[CLOSE, 1, 1]] + tail[pos:]))
    # a stale heartbeat on the OLD connection after the new login must not steal the index back
    out.append(("stale-heartbeat", base + [[HEARTBEAT, 1, 1], [TICK, 1], [HEARTBEAT, 2, 2], [HEARTBEAT, 1, 1], [TICK, 2],
                                           [HEARTBEAT, 2, 2], [CLOSE, 1, 1], [TICK, 2]]))
    # same-node reconnect the way the real auth handler does it: kick, login, the kicked connection is closed later
    out.append(("same-node-kick", [[CONNECT, 1, 1], [AUTHOK, 1, 1, x], [CONNECT, 1, 2], [KICK, 1, x, 2], [AUTHOK, 1, 2, x],
                                   [TICK, 1], [CLOSE, 1, 1], [HEARTBEAT, 1, 2], [TICK, 2], [HEARTBEAT, 1, 2], [TICK, 2]]))
    # same-node reconnect without a kick (handleHandshake unregisters the old connection itself), then its late close
    out.append(("same-node-replace", [[CONNECT, 1, 1], [AUTHOK, 1, 1, x], [CONNECT, 1, 2], [AUTHOK, 1, 2, x], [CLOSE, 1, 1],
                                      [TICK, 2], [HEARTBEAT, 1, 2], [TICK, 2]]))
    # a healthy session outlives several ttl's; then it is closed
    out.append(("long-session", [[CONNECT, 1, 1], [AUTHOK, 1, 1, x]] + [[TICK, 2], [HEARTBEAT, 1, 1]] * 4 +
                [[CLOSE, 1, 1], [TICK, 1]]))
    # heartbeats stop: the record lapses (no requirement), a new login restores the lookup
    out.append(("lapse-and-return", [[CONNECT, 1, 1], [AUTHOK, 1, 1, x], [TICK, 3], [HEARTBEAT, 1, 1], [TICK, 1],
                                     [CONNECT, 2, 2], [AUTHOK, 2, 2, x], [TICK, 2], [HEARTBEAT, 2, 2], [CLOSE, 1, 1]]))
    # three nodes, ping-pong, cleanups in reverse order
    out.append(("three-nodes", [[CONNECT, 1, 1], [AUTHOK, 1, 1, x], [CONNECT, 2, 2], [AUTHOK, 2, 2, x], [CONNECT, 3, 3],
                                [AUTHOK, 3, 3, x], [CLOSE, 2, 2], [HEARTBEAT, 3, 3], [TICK, 2], [CLOSE, 1, 1],
                                [HEARTBEAT, 3, 3], [TICK, 2], [CLOSE, 3, 3]]))
    return out


def store_scripted():
    x = 7
    return [
        ("store-late-unregister", [[SREG, 1, 1, x, 1], [SREG, 2, 2, x, 1], [SUNREG, 1, 1]]),
        ("store-refresh-both-keys", [[SREG, 1, 1, x, 1]] + [[TICK, 2], [SREFRESH, 1, 1]] * 3 + [[TICK, 2]]),
        ("store-refresh-from-other-node", [[SREG, 1, 1, x, 1], [TICK, 2], [SREFRESH, 2, 1], [TICK, 2]]),
        ("store-stale-refresh", [[SREG, 1, 1, x, 1], [SREG, 2, 2, x, 1], [SREFRESH, 1, 1], [TICK, 2], [SREFRESH, 2, 2],
                                 [SREFRESH, 1, 1], [TICK, 2], [SUNREG, 1, 1]]),
        ("store-tunnel-not-indexed", [[SREG, 1, 1, x, 0], [SREG, 1, 2, 0, 1], [SREG, 2, 3, x, 1], [SUNREG, 1, 1]]),
    ]


def exhaustive_store(depth):
    """every time-free store history up to `depth` over a 6-letter alphabet (two nodes, two connections of one client)"""
    alpha = [[SREG, 1, 1, 7, 1], [SREG, 2, 2, 7, 1], [SUNREG, 1, 1], [SUNREG, 2, 2], [SREFRESH, 1, 1], [SREFRESH, 2, 2]]
    out = []
    for d in range(1, depth + 1):
        for seq in itertools.product(alpha, repeat=d):
            out.append([list(o) for o in seq])
    return out


def gen_cases(ctx, thorough):
    rng = ctx.rng
    cases = []
    for backend in BACKENDS:
        for tag, ops in scripted(rng):
            cases.append(mk("session", backend, ops, 3, [7, 8], tag))
        for tag, ops in store_scripted():
            cases.append(mk("store", backend, ops, 2, [7, 8], tag))
        for _ in range(400 if thorough else 45):
            nodes = rng.choice([2, 2, 3])
            cases.append(mk("session", backend, session_history(rng, nodes, [1, 2], rng.randrange(8, 26)), nodes, [1, 2], "random"))
        for _ in range(250 if thorough else 30):
            cases.append(mk("store", backend, store_history(rng, 2, [1, 2], rng.randrange(5, 18)), 2, [1, 2], "random"))
    for ops in exhaustive_store(5 if thorough else 3):
        for backend in ("memory", "redis"):
            cases.append(mk("store", backend, ops, 2, [7], "exhaustive"))
    return cases


# ----------------------------------------------------------------------------------------------
# model side
# ----------------------------------------------------------------------------------------------
def case_value(c, o):
    """the universal value Corr/C08.check expects; the history is cut where the wall clock drifted past the margin"""
    n = len(c["ops"]) if o["tainted_at"] < 0 else o["tainted_at"]
    ops = []
    for op in c["ops"][:n]:
        op = list(op) + [0] * (5 - len(op))
        if op[0] == TICK:
            op[1] *= c["unit_ms"]
        ops.append(op)
    return [list(o["variant"]), [PTR[c["backend"]], INCL[c["backend"]]], c["ttl_ms"], 0 if c["mode"] == "store" else 1,
            list(c["clients"]), ops, [[[list(a) for a in node] for node in step] for step in o["obs"][:n]]]


def shrink(binary, case, key):
    def fails(c):
        try:
            r = vlib.run_harness(binary, [c])[0]
        except vlib.Broken:
            return False
        return (not r["prop_ok"]) and r["prop_key"] == key
    cur = json.loads(json.dumps(case))
    tries = 0
    changed = True
    while changed and tries < 40:
        changed = False
        for i in range(len(cur["ops"])):
            t = dict(cur, ops=cur["ops"][:i] + cur["ops"][i + 1:])
            tries += 1
            if fails(t):
                cur, changed = t, True
                break
            if tries >= 40:
                break
    return cur


def load_corpus():
    d = os.path.join(vlib.VERIF, "corpus", "C08")
    out = []
    if os.path.isdir(d):
        for f in sorted(os.listdir(d)):
            if f.endswith(".json"):
                out.append(json.load(open(os.path.join(d, f))))
    return out


def run(ctx, only_cases=None):
    thorough = ctx.tier == "thorough"
    binary = vlib.build_harness("C08")
    gen_changed = vlib.write_if_changed(os.path.join(vlib.COQ, "Gen", "C08.v"), vlib.harness_text(binary, ["gen"]))
    broken = None
    try:
        pinfo = vlib.coq_properties("C08")
        vlib.coq_make(["Proofs/SideC08.vo"])
        vlib.proof_coverage(ctx, pinfo, "make -C coq Properties/C08.vo Proofs/SideC08.vo && coqc Properties/C08.v (Print Assumptions audit)",
                            extra_obligations=SIDE_CONDITIONS)
    except vlib.Broken as b:
        broken = b   # keep going: evaluate the predicate on the real code first
    cases = only_cases if only_cases is not None else load_corpus() + gen_cases(ctx, thorough)
    env = {"VERIF_C08_PAR": "32", "VERIF_REPO": vlib.REPO}
    outs = vlib.run_harness(binary, cases, timeout=1500, env=env)
    variant = outs[0]["variant"] if outs else None

    # (iii) the property predicate evaluated on the real code's answers
    nfail, by_key = 0, {}
    for c, o in zip(cases, outs):
        if not o["prop_ok"]:
            nfail += 1
            by_key.setdefault(o["prop_key"], []).append((c, o))
    for key, lst in sorted(by_key.items()):
        c, o = min(lst, key=lambda co: len(co[0]["ops"]))
        if key in ctx.known:
            small = c
        else:
            small = shrink(binary, c, key)
            o = vlib.run_harness(binary, [small], env=env)[0] if small is not c else o
            if o["prop_ok"]:
                small, o = c, min(lst, key=lambda co: len(co[0]["ops"]))[1]
        ctx.violation(key, "real connstate.Store / SessionManager on backend %s: %s (%d histories fail this way)"
                      % (small["backend"], o["prop_msg"], len(lst)),
                      {"case": small, "failing_step": o["prop_step"], "observed": o["obs"], "variant_probed": o["variant"]})

    # (ii) model vs implementation, every step of every history (up to the first timing-tainted step)
    terms = [case_value(c, o) for c, o in zip(cases, outs)]
    mism = []
    try:
        res = vlib.model_eval("C08", terms)
        mism = [i for i, ok in enumerate(res) if not ok]
        small = [i for i, c in enumerate(cases) if len(c["ops"]) <= 12][:: max(1, len(cases) // 40)][:40]
        vm_bad = sorted(small[k] for k in vlib.vm_crosscheck("C08", [terms[i] for i in small]))
        ext_bad = sorted(i for i in small if not res[i])
        if vm_bad != ext_bad:
            raise vlib.Broken("extracted runner and vm_compute disagree on the C08 model", "vm=%s extracted=%s" % (vm_bad, ext_bad))
        ctx.coverage["vm_compute_crosschecked_cases"] = len(small)
    except vlib.Broken as b:
        broken = broken or b
    reported = 0
    for i in mism:
        if reported >= 2:
            break
        reported += 1
        pred = None
        try:
            pred = vlib.model_eval("C08", [terms[i]], predict=True)[1][0]
        except Exception:
            pass
        ctx.violation("model-mismatch", "Corr/C08.check: Model/ConnState.v (variant %s) and the real code disagree on a history%s; "
                      "the theorems of Properties/C08.v no longer speak about this code"
                      % (outs[i]["variant"], "" if outs[i]["prop_ok"] else " (the Go-side predicate fails on it too: %s)" % outs[i]["prop_key"]),
                      {"case": cases[i], "observed": outs[i]["obs"], "model_predicts": pred, "tainted_at": outs[i]["tainted_at"]},
                      found_input=not outs[i]["prop_ok"])

    # coverage
    distinct, nontrivial = set(), set()
    dist = {"by_backend": {}, "by_mode": {}, "by_tag": {}, "ops": {}, "timing_tainted_histories": 0, "steps_not_compared": 0}
    steps = 0
    for c, o in zip(cases, outs):
        h = hashlib.sha256(json.dumps([c["mode"], c["backend"], c["ops"]]).encode()).hexdigest()
        distinct.add(h)
        n = len(c["ops"]) if o["tainted_at"] < 0 else o["tainted_at"]
        steps += n
        if o["tainted_at"] >= 0:
            dist["timing_tainted_histories"] += 1
            dist["steps_not_compared"] += len(c["ops"]) - n
        found = {tuple(a) for st in o["obs"][:n] for node in st for a in node if a[0] == 1}
        if len({a[1] for a in found}) >= 2 or (found and any(op[0] == TICK for op in c["ops"][:n])):
            nontrivial.add(h)
        for k, v in (("by_backend", c["backend"]), ("by_mode", c["mode"]), ("by_tag", c.get("tag", ""))):
            dist[k][v] = dist[k].get(v, 0) + 1
        for op in c["ops"]:
            dist["ops"][str(op[0])] = dist["ops"].get(str(op[0]), 0) + 1
    samples = [{"case": cases[i], "observed": outs[i]["obs"], "prop_ok": outs[i]["prop_ok"]}
               for i in sorted({0, len(cases) // 2, len(cases) - 1}) if i < len(cases)]
    ctx.coverage.update({
        "evaluations": len(cases), "distinct_nontrivial": len(nontrivial),
        "rule": "one evaluation = one history driven through the real code of 2-3 nodes over one shared storage, with FindClientNode "
                "asked for every client on every node after every event, the C08 predicate evaluated on those answers and the "
                "whole trace compared with the extracted Coq model; distinct = distinct (mode, backend, history); non-trivial = "
                "the lookup answered at least two different nodes during the history, or answered a node in a history in which time passes.",
        "samples": samples, "steps_compared": steps, "expectations_checked_on_real_code": sum(o["checked"] for o in outs),
        "model_vs_impl_cases": len(terms), "model_vs_impl_mismatches": len(mism), "impl_property_failures": nfail,
        "impl_property_failures_by_key": {k: len(v) for k, v in by_key.items()},
        "code_variant_probed": dict(zip(["unregister_guard", "refresh_renews_index", "heartbeat_refreshes", "pointer_shape_accepted"], variant or [])),
        "max_wallclock_lateness_ms": max([o["max_late_ms"] for o in outs] or [0]),
        "timing": {"ttl_ms": TTL_MS, "unit_ms": UNIT_MS, "margin_ms": MARGIN_MS},
        "input_distribution": dist, "generated_file_changed": gen_changed,
    })
    ctx.assumptions += [
        "connection ids are unique across the cluster (C15) — hypothesis `forall n' x, In (AuthOK n' c x) pre -> n' = n` and single_client",
        "each connstate.Store method is one atomic step (the read-then-delete / read-then-set windows inside UnregisterConnection and RefreshConnection are not modelled)",
        "the storage behaves as one TTL key-value map for string / JSON values (C13); Redis replication lag and clock skew between nodes are not modelled",
        "Info.ExpiresAt and the key's storage deadline coincide (both now+ttl of the same call)",
        "the auth handler is scripted (sets ClientID/Authenticated like ServerAuthHandler, whose KickOldControlConnection is the Kick event)",
    ]
    if broken is not None:
        raise broken


def replay(ctx, path):
    r = json.load(open(path))
    run(ctx, only_cases=[r["replay"]["case"]])

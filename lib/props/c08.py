"""C08 — cross-node lookup finds a connected client at its current node."""
import hashlib
import itertools
import json
import os

import vlib

TTL_MS, UNIT_MS, MARGIN_MS = 300, 120, 25        # ttl = 2.5 units: no event ever falls within 60 ms of a deadline
BACKENDS = ["memory", "redis", "hybrid-redis", "hybrid-shared-mem", "hybrid-mem", "hybrid-persist"]
PTR = {"memory": 1, "hybrid-mem": 1, "hybrid-shared-mem": 1, "hybrid-persist": 1, "hybrid-gated-shared": 1, "redis": 0, "hybrid-redis": 0}     # Get hands back the stored Go value
INCL = {"memory": 1, "hybrid-mem": 1, "hybrid-shared-mem": 1, "hybrid-persist": 1, "hybrid-gated-shared": 1, "redis": 0, "hybrid-redis": 0}    # readable at exactly the deadline (never observed)

CONNECT, AUTHOK, AUTHFAIL, KICK, HEARTBEAT, CLOSE, TICK, STALE, SEND, SENDRACE, SREG, SUNREG, SREFRESH, AUTHLOST = 0, 1, 2, 3, 4, 5, 6, 7, 8, 9, 10, 11, 12, 13
SHUTDOWN, FAULT, CHALLENGE = 14, 15, 16
SIDE_CONDITIONS = 9   # lemmas of Proofs/SideC08.v


def mk(mode, backend, ops, nodes, clients, tag=""):
    return {"mode": mode, "backend": backend, "ttl_ms": TTL_MS, "unit_ms": UNIT_MS, "margin_ms": MARGIN_MS,
            "nodes": nodes, "clients": clients, "ops": ops, "tag": tag}


# ----------------------------------------------------------------------------------------------
# generators
# ----------------------------------------------------------------------------------------------
def tick(rng, budget):
    d = rng.choice([1, 1, 2, 2, 2, 3, 4])
    d = min(d, budget[0])
    budget[0] -= d
    return [TICK, d] if d > 0 else None


CONTROL_SHAPES = [k for k in range(32) if k >= 16 or k % 4 != 2]
TUNNEL_SHAPES = [k for k in range(32) if k < 16 and k % 4 == 2]


def rand_shape(rng):
    """handshake request shape: mostly what the in-tree client sends, often a legacy / odd but accepted one, sometimes tunnel-typed"""
    r = rng.random()
    if r < 0.45:
        return 0
    if r < 0.88:
        return rng.choice(CONTROL_SHAPES)
    return rng.choice(TUNNEL_SHAPES)


def session_history(rng, nodes, clients, length):
    """valid SessionManager histories: unique connection ids, handshakes only on connections whose stream the server has
    not closed (not closed / kicked / replaced), a connection authenticates as one client id only; logins may be preceded
    by the kick the real auth handler issues; a kick may also happen WITHOUT the login completing; connections end by
    CloseConnection or by the stale sweep"""
    ops, nextc, budget = [], [1], [9]
    open_conns = []          # (n, c): CloseConnection has not run
    dead = set()             # stream closed by kick / replacement
    owner = {}               # c -> client (successful handshake)
    current = {}             # x -> (n, c)
    regmap = {}              # (n, x) -> c registered control connection
    tunnelled = set()        # connections that only completed a tunnel-typed handshake (registered with a client id, never logged in)

    def login(n, c, x):
        old = regmap.get((n, x))
        if old is not None and old != c:
            dead.add(old)
        regmap[(n, x)] = c
        owner[c] = x
        current[x] = (n, c)

    def kick(n, x, newc):
        old = regmap.get((n, x))
        if old is not None and old != newc:
            dead.add(old)
            del regmap[(n, x)]

    def gone(n, c):
        for k, v in list(regmap.items()):
            if k[0] == n and v == c:
                del regmap[k]

    if rng.random() < 0.12:
        # a collaborator fault for the whole history: this node's cloud control fails the heartbeat's runtime-state refresh;
        # the location record must be kept alive by the heartbeats all the same (the two refreshes are independent)
        ops.append([FAULT, rng.randrange(1, nodes + 1), 1])
    for _ in range(length):
        k = rng.random()
        usable = [nc for nc in open_conns if nc[1] not in dead]
        if k < 0.16 or not open_conns:
            n = rng.randrange(1, nodes + 1)
            c = nextc[0]
            nextc[0] += 1
            ops.append([CONNECT, n, c])
            open_conns.append((n, c))
            r = rng.random()
            x = rng.choice(clients)
            if r < 0.75:
                sh = rand_shape(rng)
                if rng.random() < 0.4 and sh in CONTROL_SHAPES:
                    ops.append([KICK, n, x, c])
                    kick(n, x, c)
                if (n, x) not in regmap and rng.random() < 0.3:
                    # the login completes inside a forwarding path's lookup for x on this very node (command / HTTP; before
                    # the index read or between the two reads)
                    ops.append([SENDRACE, n, c, x, sh, rng.randrange(2), rng.randrange(2)])
                else:
                    ops.append([AUTHOK, n, c, x, sh])
                if sh in CONTROL_SHAPES:
                    login(n, c, x)
                else:
                    tunnelled.add(c)
            elif r < 0.80 and (n, x) not in regmap:
                # the login authenticates but its response is lost; the node then closes the dead connection
                ops.append([AUTHLOST, n, c, x, rand_shape(rng)])
                ops.append([CLOSE, n, c])
                open_conns.remove((n, c))
            elif r < 0.87:
                # the auth handler kicked the old connection but the login did not complete (response lost / rejected)
                ops.append([KICK, n, x, c])
                kick(n, x, c)
                if rng.random() < 0.5:
                    ops.append([AUTHFAIL, n, c, x])
        elif k < 0.26 and usable:
            n, c = rng.choice(usable)
            x = owner.get(c) or rng.choice(clients)
            if rng.random() < 0.25:
                ops.append([AUTHFAIL, n, c, x])
            else:
                sh = rand_shape(rng)
                ops.append([AUTHOK, n, c, x, sh])
                if sh in CONTROL_SHAPES:
                    login(n, c, x)
                    tunnelled.discard(c)
                elif c not in owner:
                    tunnelled.add(c)
        elif k < 0.54:
            if current and rng.random() < 0.7:
                n, c = current[rng.choice(sorted(current))]
            else:
                # (not on connections that only did a tunnel-typed handshake: their heartbeat can rebuild the runtime state
                #  for the tunnel connection when the state is absent — see the report; not modelled)
                cand = [nc for nc in open_conns if nc[1] not in tunnelled] or open_conns
                n, c = rng.choice(cand)
                if rng.random() < 0.1:
                    n = rng.randrange(1, nodes + 1)
            if c in tunnelled:
                continue
            ops.append([HEARTBEAT, n, c])
        elif k < 0.72:
            # the end of a connection: prefer OLD ones (the late cleanup), sometimes the current one;
            # by CloseConnection or, for connections that completed a handshake, by the stale sweep
            stale = [nc for nc in open_conns if nc not in current.values()]
            n, c = rng.choice(stale) if stale and rng.random() < 0.7 else rng.choice(open_conns)
            if c in owner and rng.random() < 0.4:
                ops.append([STALE, n, c])
                if regmap.get((n, owner[c])) == c:      # still registered: the sweep closes it
                    gone(n, c)
                    open_conns.remove((n, c))
                    dead.add(c)
            else:
                ops.append([CLOSE, n, c])
                gone(n, c)
                open_conns.remove((n, c))
        elif k < 0.745 and (owner or tunnelled):
            # a phase-1 handshake message (no proof) on a connection that was authenticated EARLIER (by a control or by a
            # tunnel-typed handshake): answered with a challenge; nothing may be (re-)registered for it
            cand = [nc for nc in usable if nc[1] in owner or nc[1] in tunnelled]
            if cand:
                n, c = rng.choice(cand)
                ops.append([CHALLENGE, n, c, owner.get(c) or rng.choice(clients), rng.choice(CONTROL_SHAPES[:12])])
        elif k < 0.76:
            # a forwarding path asks for a client that never logged in (id 99): a pure read
            ops.append([SEND, rng.randrange(1, nodes + 1), 99, rng.randrange(2)])
        else:
            t = tick(rng, budget)
            if t:
                ops.append(t)
    if rng.random() < 0.3:
        # graceful shutdown of one node: SessionManager.Close(), then the adapters' deferred CloseConnection of its connections;
        # the other nodes carry on (heartbeats of their current connections)
        n = rng.randrange(1, nodes + 1)
        ops.append([SHUTDOWN, n])
        for (m, c) in [nc for nc in open_conns if nc[0] == n]:
            ops.append([CLOSE, m, c])
        for x2, (m, c) in sorted(current.items()):
            if m != n and (m, c) in open_conns:
                ops.append([HEARTBEAT, m, c])
    return ops


def store_history(rng, nodes, clients, length):
    """bare connstate.Store calls: a connection id belongs to one (node, client, type) for good; refresh and
    unregister may come from any node and at any time (also for unknown / already removed connections)"""
    ops, budget = [], [9]
    conns = {}               # c -> (n, x, ctl)
    for _ in range(length):
        k = rng.random()
        if k < 0.3 or not conns:
            c = rng.randrange(1, 7)
            if c not in conns:
                conns[c] = (rng.randrange(1, nodes + 1), rng.choice(clients + [0]), 1 if rng.random() < 0.85 else 0)
            n, x, ctl = conns[c]
            ops.append([SREG, n, c, x, ctl])
        elif k < 0.5:
            c = rng.choice(sorted(conns)) if rng.random() < 0.9 else rng.randrange(1, 9)
            n = conns[c][0] if c in conns and rng.random() < 0.7 else rng.randrange(1, nodes + 1)
            ops.append([SUNREG, n, c])
        elif k < 0.75:
            c = rng.choice(sorted(conns)) if rng.random() < 0.9 else rng.randrange(1, 9)
            n = conns[c][0] if c in conns and rng.random() < 0.7 else rng.randrange(1, nodes + 1)
            ops.append([SREFRESH, n, c])
        else:
            t = tick(rng, budget)
            if t:
                ops.append(t)
    return ops


def scripted(rng):
    """the histories the property is about, with randomised placement of the old node's cleanup"""
    out = []
    x = 7
    # reconnect to another node before the old node notices; old node cleans up late; heartbeats keep the new one alive
    base = [[CONNECT, 1, 1], [AUTHOK, 1, 1, x], [TICK, 1], [HEARTBEAT, 1, 1], [CONNECT, 2, 2], [AUTHOK, 2, 2, x]]
    tail = [[HEARTBEAT, 2, 2], [TICK, 2], [HEARTBEAT, 2, 2], [TICK, 2], [HEARTBEAT, 2, 2], [TICK, 2]]
    for pos in range(len(tail) + 1):
        out.append(("reconnect-other-node", base + tail[:pos] + [[CLOSE, 1, 1]] + tail[pos:]))
    # a stale heartbeat on the OLD connection after the new login must not steal the index back
    out.append(("stale-heartbeat", base + [[HEARTBEAT, 1, 1], [TICK, 1], [HEARTBEAT, 2, 2], [HEARTBEAT, 1, 1], [TICK, 2],
                                           [HEARTBEAT, 2, 2], [CLOSE, 1, 1], [TICK, 2]]))
    # same-node reconnect the way the real auth handler does it: kick, login, the kicked connection is closed later
    out.append(("same-node-kick", [[CONNECT, 1, 1], [AUTHOK, 1, 1, x], [CONNECT, 1, 2], [KICK, 1, x, 2], [AUTHOK, 1, 2, x],
                                   [TICK, 1], [CLOSE, 1, 1], [HEARTBEAT, 1, 2], [TICK, 2], [HEARTBEAT, 1, 2], [TICK, 2]]))
    # same-node reconnect without a kick (handleHandshake unregisters the old connection itself), then its late close
    out.append(("same-node-replace", [[CONNECT, 1, 1], [AUTHOK, 1, 1, x], [CONNECT, 1, 2], [AUTHOK, 1, 2, x], [CLOSE, 1, 1],
                                      [TICK, 2], [HEARTBEAT, 1, 2], [TICK, 2]]))
    # a healthy session outlives several ttl's; then it is closed
    out.append(("long-session", [[CONNECT, 1, 1], [AUTHOK, 1, 1, x]] + [[TICK, 2], [HEARTBEAT, 1, 1]] * 4 +
                [[CLOSE, 1, 1], [TICK, 1]]))
    # heartbeats stop: the record lapses (no requirement), a new login restores the lookup
    out.append(("lapse-and-return", [[CONNECT, 1, 1], [AUTHOK, 1, 1, x], [TICK, 3], [HEARTBEAT, 1, 1], [TICK, 1],
                                     [CONNECT, 2, 2], [AUTHOK, 2, 2, x], [TICK, 2], [HEARTBEAT, 2, 2], [CLOSE, 1, 1]]))
    # the client goes silent: the stale sweep closes its last connection -> not connected on every node
    out.append(("stale-sweep-last", [[CONNECT, 1, 1], [AUTHOK, 1, 1, x], [TICK, 1], [HEARTBEAT, 1, 1], [STALE, 1, 1], [TICK, 1]]))
    # reconnect to another node, the old node notices only through its stale sweep
    out.append(("stale-sweep-old", base + [[HEARTBEAT, 2, 2], [STALE, 1, 1], [TICK, 2], [HEARTBEAT, 2, 2], [TICK, 2], [STALE, 2, 2]]))
    # kicked by a login that never completes, then the kicked connection is closed: not connected
    out.append(("kick-without-login", [[CONNECT, 1, 1], [AUTHOK, 1, 1, x], [CONNECT, 1, 2], [KICK, 1, x, 2], [AUTHFAIL, 1, 2, x],
                                       [CLOSE, 1, 1], [TICK, 1], [CLOSE, 1, 2]]))
    # every handshake request shape the server accepts as a control connection: legacy clients that omit connection_type /
    # version / protocol, another spelling, an empty payload — reconnect on the other node with that shape, keep it alive
    for sh in CONTROL_SHAPES:
        out.append(("request-shape-%d" % sh, [[CONNECT, 1, 1], [AUTHOK, 1, 1, x, 0], [CONNECT, 2, 2], [AUTHOK, 2, 2, x, sh],
                                               [CLOSE, 1, 1], [TICK, 2], [HEARTBEAT, 2, 2], [TICK, 2], [CLOSE, 2, 2]]))
    # tunnel-typed handshakes never create (or move) a client index
    for sh in TUNNEL_SHAPES:
        out.append(("tunnel-shape-%d" % sh, [[CONNECT, 1, 1], [AUTHOK, 1, 1, x, sh], [CONNECT, 2, 2], [AUTHOK, 2, 2, x, 0],
                                             [CONNECT, 1, 3], [AUTHOK, 1, 3, x, sh], [HEARTBEAT, 1, 3], [TICK, 2], [HEARTBEAT, 2, 2], [TICK, 2]]))
    # the runtime-state record: connect A, connect B, late heartbeats of a1 handled after the new login, A reaps a1
    # (close or stale sweep), heartbeat b1, close b1 — the record must name (B, b1) throughout
    for reap in ([CLOSE, 1, 1], [STALE, 1, 1]):
        out.append(("state-late-heartbeat", [[CONNECT, 1, 1], [AUTHOK, 1, 1, x, 0], [HEARTBEAT, 1, 1], [CONNECT, 2, 2], [AUTHOK, 2, 2, x, 0],
                                              [HEARTBEAT, 1, 1], [HEARTBEAT, 2, 2], [HEARTBEAT, 1, 1], reap, [HEARTBEAT, 2, 2], [CLOSE, 2, 2]]))
    # a command / HTTP request for X is being forwarded on node 1 exactly while X's handshake on node 1 completes (inside the
    # forwarder's lookup: before the index read, or between its two reads while X is still indexed on node 2); X then heartbeats
    for via in (0, 1):
        out.append(("forwarder-races-login", [[CONNECT, 1, 1], [SENDRACE, 1, 1, x, 0, via, 0], [HEARTBEAT, 1, 1], [TICK, 2], [HEARTBEAT, 1, 1],
                                               [TICK, 2], [SEND, 2, 99, via], [CLOSE, 1, 1]]))
        out.append(("forwarder-races-move", [[CONNECT, 2, 1], [AUTHOK, 2, 1, x, 0], [CONNECT, 1, 2], [SENDRACE, 1, 2, x, 1, via, 1], [HEARTBEAT, 1, 2],
                                              [TICK, 2], [CLOSE, 2, 1], [HEARTBEAT, 1, 2], [TICK, 2], [CLOSE, 1, 2]]))
    # a handshake on another (or the same) node authenticates but its response cannot be delivered: NOT a successful handshake —
    # the client's live connection keeps the lookup; the dead connection is closed by its node, heartbeats continue
    for n2 in (2, 1):
        out.append(("response-lost", [[CONNECT, 1, 1], [AUTHOK, 1, 1, x, 0], [HEARTBEAT, 1, 1], [CONNECT, n2, 2], [AUTHLOST, n2, 2, x, 0], [CLOSE, n2, 2],
                                      [HEARTBEAT, 1, 1], [TICK, 2], [HEARTBEAT, 1, 1], [TICK, 2], [CLOSE, 1, 1]]))
    # graceful shutdown of the node that holds the client's last connection: other nodes must not keep locating it there
    out.append(("node-shutdown-last", [[CONNECT, 1, 1], [AUTHOK, 1, 1, x, 0], [HEARTBEAT, 1, 1], [SHUTDOWN, 1], [CLOSE, 1, 1], [TICK, 1]]))
    # shutdown of the OLD node after the client moved: the new registration stays
    out.append(("node-shutdown-old", base + [[HEARTBEAT, 2, 2], [SHUTDOWN, 1], [CLOSE, 1, 1], [TICK, 2], [HEARTBEAT, 2, 2], [TICK, 2], [CLOSE, 2, 2]]))
    # cloud control fails the heartbeat's runtime-state refresh: the location record is kept alive all the same
    out.append(("cloud-fault-heartbeats", [[FAULT, 1, 1], [CONNECT, 1, 1], [AUTHOK, 1, 1, x, 0]] + [[TICK, 2], [HEARTBEAT, 1, 1]] * 3 + [[TICK, 2], [CLOSE, 1, 1]]))
    # the client moved to node 2; a phase-1 handshake message arrives on its OLD, still authenticated connection on node 1 (and on a
    # connection that only did a tunnel-typed handshake): the most recent SUCCESSFUL handshake stays (2, 2)
    out.append(("phase1-on-old-connection", base + [[CHALLENGE, 1, 1, x, 0], [HEARTBEAT, 2, 2], [TICK, 2], [CHALLENGE, 1, 1, x, 1], [HEARTBEAT, 2, 2],
                                                     [TICK, 2], [CLOSE, 1, 1], [HEARTBEAT, 2, 2], [TICK, 1]]))
    out.append(("phase1-on-tunnel-authenticated", [[CONNECT, 2, 2], [AUTHOK, 2, 2, x, 0], [CONNECT, 1, 3], [AUTHOK, 1, 3, x, TUNNEL_SHAPES[0]],
                                                    [CHALLENGE, 1, 3, x, 0], [HEARTBEAT, 2, 2], [TICK, 2], [CLOSE, 1, 3], [HEARTBEAT, 2, 2], [TICK, 1]]))
    # three nodes, ping-pong, cleanups in reverse order
    out.append(("three-nodes", [[CONNECT, 1, 1], [AUTHOK, 1, 1, x], [CONNECT, 2, 2], [AUTHOK, 2, 2, x], [CONNECT, 3, 3],
                                [AUTHOK, 3, 3, x], [CLOSE, 2, 2], [HEARTBEAT, 3, 3], [TICK, 2], [CLOSE, 1, 1],
                                [HEARTBEAT, 3, 3], [TICK, 2], [CLOSE, 3, 3]]))
    return out


def store_scripted():
    x = 7
    return [
        ("store-late-unregister", [[SREG, 1, 1, x, 1], [SREG, 2, 2, x, 1], [SUNREG, 1, 1]]),
        ("store-refresh-both-keys", [[SREG, 1, 1, x, 1]] + [[TICK, 2], [SREFRESH, 1, 1]] * 3 + [[TICK, 2]]),
        ("store-refresh-from-other-node", [[SREG, 1, 1, x, 1], [TICK, 2], [SREFRESH, 2, 1], [TICK, 2]]),
        ("store-stale-refresh", [[SREG, 1, 1, x, 1], [SREG, 2, 2, x, 1], [SREFRESH, 1, 1], [TICK, 2], [SREFRESH, 2, 2],
                                 [SREFRESH, 1, 1], [TICK, 2], [SUNREG, 1, 1]]),
        ("store-tunnel-not-indexed", [[SREG, 1, 1, x, 0], [SREG, 1, 2, 0, 1], [SREG, 2, 3, x, 1], [SUNREG, 1, 1]]),
    ]


def exhaustive_store(depth):
    """every time-free store history up to `depth` over a 6-letter alphabet (two nodes, two connections of one client)"""
    alpha = [[SREG, 1, 1, 7, 1], [SREG, 2, 2, 7, 1], [SUNREG, 1, 1], [SUNREG, 2, 2], [SREFRESH, 1, 1], [SREFRESH, 2, 2]]
    out = []
    for d in range(1, depth + 1):
        for seq in itertools.product(alpha, repeat=d):
            out.append([list(o) for o in seq])
    return out


def multiset_perms(counts):
    """all distinct interleavings of counts[i] steps of thread i"""
    out = []

    def rec(prefix, left):
        if not any(left):
            out.append(list(prefix))
            return
        for i, k in enumerate(left):
            if k:
                left[i] -= 1
                prefix.append(i)
                rec(prefix, left)
                prefix.pop()
                left[i] += 1
    rec([], list(counts))
    return out


TH_FIND, TH_REG, TH_UNREG, TH_REFRESH = 0, 1, 2, 3


def mkc(backend, setup, threads, sched, nodes, clients, tag):
    return {"mode": "conc", "backend": backend, "nodes": nodes, "clients": clients, "setup": setup, "threads": threads,
            "sched": sched, "tag": tag}


def conc_cases(ctx, thorough):
    """concurrent phases at storage-call granularity, replayed through the gated storage double"""
    rng = ctx.rng
    out = []
    x = 7
    old = [[SREG, 1, 1, x, 1]]
    # a lookup in flight on node 3 while the client moves from node 1 to node 2 and node 1 cleans up: ALL 420 interleavings
    moving = [[TH_FIND, 3, x], [TH_REG, 2, 2, x, 1], [TH_UNREG, 1, 1]]
    all420 = multiset_perms([2, 2, 4])
    for sched in all420:
        out.append(mkc("memory", old, moving, sched, 3, [x], "lookup||move:exhaustive"))
    for sched in (all420 if thorough else rng.sample(all420, 40)):
        out.append(mkc("redis", old, moving, sched, 3, [x], "lookup||move"))
    for sched in rng.sample(all420, 40):
        out.append(mkc("hybrid-redis", old, moving, sched, 3, [x], "lookup||move"))
    # the writers' own windows: all 15 interleavings each
    # "hybrid-gated-shared": the gate sits in the SHARED tier under one tiered-storage instance per invocation (per node)
    for backend in ("memory", "redis", "hybrid-redis", "hybrid-shared-mem", "hybrid-mem", "hybrid-persist", "hybrid-gated-shared"):
        for sched in multiset_perms([4, 2]):
            out.append(mkc(backend, old, [[TH_UNREG, 1, 1], [TH_REG, 2, 2, x, 1]], sched, 2, [x], "unregister||register:exhaustive"))
            out.append(mkc(backend, old, [[TH_REFRESH, 1, 1], [TH_REG, 2, 2, x, 1]], sched, 2, [x], "refresh||register:exhaustive"))
    # lookups against heartbeat refresh of the current connection and the late cleanup of the old one
    two = [[SREG, 1, 1, x, 1], [SREG, 2, 2, x, 1]]
    hb = [[TH_FIND, 1, x], [TH_REFRESH, 2, 2], [TH_UNREG, 1, 1], [TH_FIND, 2, x]]
    perms = multiset_perms([2, 4, 3, 2])
    for sched in rng.sample(perms, 400 if thorough else 60):
        out.append(mkc(rng.choice(["memory", "redis"]), two, hb, sched, 2, [x], "lookup||heartbeat||cleanup"))
    # random phases
    for _ in range(1500 if thorough else 150):
        conns = {}
        setup = []
        for _ in range(rng.randrange(0, 4)):
            c = rng.randrange(1, 5)
            conns.setdefault(c, (rng.randrange(1, 3), rng.choice([1, 2])))
            n, cl = conns[c]
            setup.append(rng.choice([[SREG, n, c, cl, 1]] * 3 + [[SUNREG, n, c]]))
        threads = []
        for _ in range(rng.randrange(2, 5)):
            k = rng.choice([TH_FIND, TH_FIND, TH_REG, TH_UNREG, TH_REFRESH])
            if k == TH_FIND:
                threads.append([TH_FIND, rng.randrange(1, 3), rng.choice([1, 2])])
            else:
                c = rng.randrange(1, 6)
                conns.setdefault(c, (rng.randrange(1, 3), rng.choice([1, 2])))
                n, cl = conns[c]
                threads.append([k, n, c, cl, 1] if k == TH_REG else [k, rng.choice([n, n, 3 - n]), c])
        sched = [rng.randrange(len(threads)) for _ in range(rng.randrange(0, 14))]
        out.append(mkc(rng.choice(["memory", "redis", "hybrid-shared-mem", "hybrid-redis", "hybrid-mem"]), setup, threads, sched, 2, [1, 2], "random"))
    return out


def realauth_cases(ctx, thorough):
    """the REAL ServerAuthHandler (two assembled server fixtures over one storage): control login, then tunnel-typed
    handshakes of the same client (client/tunnel_dialer.go sends one on every tunnel connection) on either node,
    heartbeats, closes of the tunnel connections; ops: [0,n,c] open, [1,n,c,kind 0 control|1 tunnel|2 untyped] handshake,
    [2,n,c] close, [3,n,c] heartbeat"""
    rng = ctx.rng
    out = [{"mode": "realauth", "tag": "tunnel-handshakes", "ops":
            [[0, 1, 1], [1, 1, 1, 0], [3, 1, 1], [0, 1, 2], [1, 1, 2, 1], [0, 2, 3], [1, 2, 3, 1], [3, 1, 1], [2, 2, 3], [3, 1, 1], [2, 1, 2], [2, 1, 1]]},
           {"mode": "realauth", "tag": "untyped-login-then-tunnel", "ops":
            [[0, 2, 1], [1, 2, 1, 2], [0, 1, 2], [1, 1, 2, 1], [2, 1, 2], [3, 2, 1], [2, 2, 1]]},
           {"mode": "realauth", "tag": "response-lost", "ops":
            [[0, 1, 1], [1, 1, 1, 0], [3, 1, 1], [0, 2, 2], [1, 2, 2, 3], [2, 2, 2], [3, 1, 1], [2, 1, 1]]},
           {"mode": "realauth", "tag": "phase1-on-old-connection", "ops":
            [[0, 1, 1], [1, 1, 1, 0], [0, 2, 2], [1, 2, 2, 0], [1, 1, 1, 4], [3, 2, 2], [2, 1, 1], [3, 2, 2], [2, 2, 2]]},
           {"mode": "realauth", "tag": "move-control-then-tunnel", "ops":
            [[0, 1, 1], [1, 1, 1, 0], [0, 2, 2], [1, 2, 2, 0], [0, 1, 3], [1, 1, 3, 1], [2, 1, 1], [3, 2, 2], [2, 1, 3], [3, 2, 2]]}]
    for _ in range(40 if thorough else 6):
        ops, nextc, ctrl, tun = [], 1, None, []
        for _ in range(rng.randrange(6, 14)):
            r = rng.random()
            if ctrl is None or r < 0.15:
                n = rng.randrange(1, 3)
                ops += [[0, n, nextc], [1, n, nextc, rng.choice([0, 0, 2])]]
                ctrl = (n, nextc)
                nextc += 1
            elif r < 0.5:
                n = rng.randrange(1, 3)
                ops += [[0, n, nextc], [1, n, nextc, 1]]
                tun.append((n, nextc))
                nextc += 1
            elif r < 0.75 and tun:
                n, c = tun.pop(rng.randrange(len(tun)))
                ops.append([2, n, c])
            else:
                ops.append([3, ctrl[0], ctrl[1]])
        out.append({"mode": "realauth", "tag": "random", "ops": ops})
    return out


def is_state_phase(c):
    return any(t[0] in (4, 5, 6) for t in c["threads"])


def state_phases(ctx, thorough):
    """the client runtime-state service (ConnectClient / EnsureClientOnline / DisconnectClientIfMatch) at GetState/SetState/
    DeleteState granularity: the new login on node 2 races a heartbeat and/or the cleanup of the old connection on node 1"""
    rng = ctx.rng
    x = 7
    old = [[4, 1, 1, x]]
    out = []
    for backend in ("memory", "redis", "hybrid-redis", "hybrid-shared-mem", "hybrid-persist", "hybrid-gated-shared"):
        for sched in multiset_perms([2, 2]):
            out.append(mkc(backend, old, [[6, 1, 1, x], [4, 2, 2, x]], sched, 2, [x], "state:disconnect||connect:exhaustive"))
            out.append(mkc(backend, old, [[5, 1, 1, x], [4, 2, 2, x]], sched, 2, [x], "state:heartbeat||connect:exhaustive"))
        # the heartbeat's REBUILD path: a late heartbeat on the old connection (1,1) while the record is only the tombstone of a
        # matched delete (login (2,2) closed) or truly absent, racing the login (2,3): a login at EVERY storage call of the rebuild
        for sched in multiset_perms([3, 2]):
            out.append(mkc(backend, [[4, 1, 1, x], [4, 2, 2, x], [6, 2, 2, x]], [[5, 1, 1, x], [4, 2, 3, x]], sched, 2, [x],
                           "state:rebuild-over-tombstone||connect:exhaustive"))
        for sched in multiset_perms([2, 2]):
            out.append(mkc(backend, [], [[5, 1, 1, x], [4, 2, 3, x]], sched, 2, [x], "state:rebuild-absent||connect:exhaustive"))
    perms = multiset_perms([2, 2, 2])
    for sched in (perms if thorough else rng.sample(perms, 30)):
        out.append(mkc(rng.choice(["memory", "redis"]), old, [[5, 1, 1, x], [6, 1, 1, x], [4, 2, 2, x]], sched, 2, [x], "state:heartbeat||cleanup||connect"))
    # no new login: heartbeats and a cleanup of a connection that is NOT the recorded one never disturb the record
    for sched in rng.sample(perms, 20):
        out.append(mkc("memory", [[4, 1, 1, x], [4, 2, 2, x]], [[5, 1, 1, x], [6, 1, 1, x], [5, 2, 2, x]], sched, 2, [x], "state:old-connection-noise"))
    return out


def conc_value(c, o):
    pad = lambda op: list(op) + [0] * (5 - len(op))
    if is_state_phase(c):
        return [list(o["variant"]), [PTR[c["backend"]], INCL[c["backend"]]], 3600000, 3, list(c["clients"]),
                [[pad(op) for op in c["setup"]], [pad(t) for t in c["threads"]], list(o["sched"])],
                [[list(a) for a in node] for node in o["final_rs"]]]
    return [list(o["variant"]), [PTR[c["backend"]], INCL[c["backend"]]], 3600000, 2, list(c["clients"]),
            [[pad(op) for op in c["setup"]], [pad(t) for t in c["threads"]], list(o["sched"])],
            [[(list(r) if r else None) for r in o["results"]], [[list(a) for a in node] for node in o["final"]]]]


def virtual_cases(ctx, thorough):
    """lifetimes with a fractional-second part (2.5 s) and heartbeats every 2.2 s, on the Redis-backed backends with miniredis'
    clock advanced instead of sleeping: a renewal that keeps only whole seconds of the ttl lets the index lapse between two
    on-time heartbeats"""
    rng = ctx.rng
    x = 7
    out = []

    def v(mode, backend, ops, nodes, clients, tag):
        c = mk(mode, backend, ops, nodes, clients, tag)
        c.update({"ttl_ms": 2500, "unit_ms": 1100, "virtual": True})
        return c
    for backend in ("redis", "hybrid-redis"):
        out.append(v("store", backend, [[SREG, 1, 1, x, 1]] + [[TICK, 2], [SREFRESH, 1, 1]] * 4 + [[TICK, 2], [TICK, 1]], 2, [x], "virtual:store-refresh-2.2s"))
        out.append(v("session", backend, [[CONNECT, 1, 1], [AUTHOK, 1, 1, x, 0]] + [[TICK, 2], [HEARTBEAT, 1, 1]] * 4 +
                     [[CONNECT, 2, 2], [AUTHOK, 2, 2, x, 0], [TICK, 2], [HEARTBEAT, 2, 2], [CLOSE, 1, 1], [TICK, 2], [HEARTBEAT, 2, 2], [TICK, 2], [CLOSE, 2, 2]],
                     2, [x], "virtual:session-heartbeat-2.2s"))
        for _ in range(30 if thorough else 4):
            nodes = rng.choice([2, 3])
            out.append(v("session", backend, session_history(rng, nodes, [1, 2], rng.randrange(10, 24)), nodes, [1, 2], "virtual:random"))
            out.append(v("store", backend, store_history(rng, 2, [1, 2], rng.randrange(6, 16)), 2, [1, 2], "virtual:random"))
    return out


def gen_cases(ctx, thorough):
    rng = ctx.rng
    cases = []
    for backend in BACKENDS:
        for k, (tag, ops) in enumerate(scripted(rng)):
            if "-shape-" in tag and not thorough and tag != "request-shape-1" and BACKENDS[k % len(BACKENDS)] != backend:
                continue   # quick: every request shape on one backend (rotating), the legacy shape on all of them
            cases.append(mk("session", backend, ops, 3, [7, 8], tag))
        for tag, ops in store_scripted():
            cases.append(mk("store", backend, ops, 2, [7, 8], tag))
        for _ in range(400 if thorough else 45):
            nodes = rng.choice([2, 2, 3])
            cases.append(mk("session", backend, session_history(rng, nodes, [1, 2], rng.randrange(8, 26)), nodes, [1, 2], "random"))
        for _ in range(250 if thorough else 30):
            cases.append(mk("store", backend, store_history(rng, 2, [1, 2], rng.randrange(5, 18)), 2, [1, 2], "random"))
    for ops in exhaustive_store(5 if thorough else 3):
        for backend in ("memory", "redis"):
            cases.append(mk("store", backend, ops, 2, [7], "exhaustive"))
    return cases


# ----------------------------------------------------------------------------------------------
# model side
# ----------------------------------------------------------------------------------------------
def case_value(c, o):
    """the universal value Corr/C08.check expects; the history is cut where the wall clock drifted past the margin"""
    n = len(c["ops"]) if o["tainted_at"] < 0 else o["tainted_at"]
    ops = []
    for op in c["ops"][:n]:
        if op[0] == SHUTDOWN and c["mode"] == "session":
            ops.append([SHUTDOWN, op[1], list(c["clients"]), 0, 0])     # the registry of node op[1] is emptied for every client
            continue
        op = list(op) + [0] * (5 - len(op))
        if op[0] == TICK:
            op[1] *= c["unit_ms"]
        ops.append(op)
    return [list(o["variant"]), [PTR[c["backend"]], INCL[c["backend"]]], c["ttl_ms"], 0 if c["mode"] == "store" else 1,
            list(c["clients"]), ops, [[[list(a) for a in node] for node in step] for step in o["obs"][:n]],
            [] if any(op[0] in (AUTHLOST, FAULT) for op in c["ops"]) else
            [[[list(a) for a in node] for node in step] for step in (o.get("rs") or [])[:n]]]


def shrink(binary, case, key):
    def fails(c):
        try:
            r = vlib.run_harness(binary, [c])[0]
        except vlib.Broken:
            return False
        return (not r["prop_ok"]) and r["prop_key"] == key
    cur = json.loads(json.dumps(case))
    tries = 0
    changed = True
    while changed and tries < 40:
        changed = False
        for i in range(len(cur["ops"])):
            t = dict(cur, ops=cur["ops"][:i] + cur["ops"][i + 1:])
            tries += 1
            if fails(t):
                cur, changed = t, True
                break
            if tries >= 40:
                break
    return cur


def load_corpus():
    d = os.path.join(vlib.VERIF, "corpus", "C08")
    out = []
    if os.path.isdir(d):
        for f in sorted(os.listdir(d)):
            if f.endswith(".json"):
                out.append(json.load(open(os.path.join(d, f))))
    return out


def run(ctx, only_cases=None):
    thorough = ctx.tier == "thorough"
    binary = vlib.build_harness("C08")
    gen_changed = vlib.write_if_changed(os.path.join(vlib.COQ, "Gen", "C08.v"), vlib.harness_text(binary, ["gen"]))
    broken = None
    try:
        pinfo = vlib.coq_properties("C08")
        vlib.coq_make(["Proofs/SideC08.vo"])
        vlib.proof_coverage(ctx, pinfo, "make -C coq Properties/C08.vo Proofs/SideC08.vo && coqc Properties/C08.v (Print Assumptions audit)",
                            extra_obligations=SIDE_CONDITIONS)
    except vlib.Broken as b:
        broken = b   # keep going: evaluate the predicate on the real code first
    all_cases = only_cases if only_cases is not None else load_corpus() + gen_cases(ctx, thorough) + virtual_cases(ctx, thorough) + conc_cases(ctx, thorough) + state_phases(ctx, thorough) + realauth_cases(ctx, thorough)
    env = {"VERIF_C08_PAR": "32", "VERIF_REPO": vlib.REPO}
    all_outs = vlib.run_harness(binary, all_cases, timeout=1500, env=env)
    variant = all_outs[0]["variant"] if all_outs else None
    cases = [c for c in all_cases if c["mode"] not in ("conc", "realauth")]
    outs = [o for c, o in zip(all_cases, all_outs) if c["mode"] not in ("conc", "realauth")]
    rcases = [c for c in all_cases if c["mode"] == "realauth"]
    routs = [o for c, o in zip(all_cases, all_outs) if c["mode"] == "realauth"]
    ccases = [c for c in all_cases if c["mode"] == "conc"]
    couts = [o for c, o in zip(all_cases, all_outs) if c["mode"] == "conc"]
    repaired = list(variant or [])[:4] == [1, 1, 1, 1]   # the interleaving model is the repaired code only

    # (iii) the property predicate evaluated on the real code's answers
    nfail, by_key = 0, {}
    for c, o in zip(cases, outs):
        if not o["prop_ok"]:
            nfail += 1
            by_key.setdefault(o["prop_key"], []).append((c, o))
    # the real ServerAuthHandler: location records vs the registered control connection
    rby = {}
    for c, o in zip(rcases, routs):
        if not o["prop_ok"]:
            nfail += 1
            rby.setdefault(o["prop_key"], []).append((c, o))
    for key, lst in sorted(rby.items()):
        c, o = min(lst, key=lambda co: len(co[0]["ops"]))
        ctx.violation(key, "%s (%d histories fail this way)" % (o["prop_msg"], len(lst)), {"case": c, "observed": o["steps"]})
    # concurrent phases: "a lookup never writes" and the state after the phase
    cby = {}
    for c, o in zip(ccases, couts):
        if not o["prop_ok"]:
            nfail += 1
            cby.setdefault(o["prop_key"], []).append((c, o))
    for key, lst in sorted(cby.items()):
        c, o = min(lst, key=lambda co: (len(co[0]["threads"]), len(co[1]["sched"])))
        ctx.violation(key, "real connstate.Store over a gated %s storage: %s (%d schedules fail this way)" % (c["backend"], o["prop_msg"], len(lst)),
                      {"case": c, "executed_schedule": o["sched"], "storage_calls": o["calls"], "results": o["results"], "final": o["final"]})
    for key, lst in sorted(by_key.items()):
        c, o = min(lst, key=lambda co: len(co[0]["ops"]))
        if key in ctx.known:
            small = c
        else:
            small = shrink(binary, c, key)
            o = vlib.run_harness(binary, [small], env=env)[0] if small is not c else o
            if o["prop_ok"]:
                small, o = c, min(lst, key=lambda co: len(co[0]["ops"]))[1]
        ctx.violation(key, "real connstate.Store / SessionManager on backend %s: %s (%d histories fail this way)"
                      % (small["backend"], o["prop_msg"], len(lst)),
                      {"case": small, "failing_step": o["prop_step"], "observed": o["obs"], "variant_probed": o["variant"]})

    # (ii) model vs implementation, every step of every history (up to the first timing-tainted step)
    terms = [case_value(c, o) for c, o in zip(cases, outs)]
    if repaired:
        terms += [conc_value(c, o) for c, o in zip(ccases, couts)]
    mcases = cases + (ccases if repaired else [])
    mouts = outs + (couts if repaired else [])
    mism = []
    try:
        res = vlib.model_eval("C08", terms)
        mism = [i for i, ok in enumerate(res) if not ok]
        small = [i for i, c in enumerate(mcases) if len(c.get("ops", c.get("threads"))) <= 12][:: max(1, len(mcases) // 40)][:40]
        vm_bad = sorted(small[k] for k in vlib.vm_crosscheck("C08", [terms[i] for i in small]))
        ext_bad = sorted(i for i in small if not res[i])
        if vm_bad != ext_bad:
            raise vlib.Broken("extracted runner and vm_compute disagree on the C08 model", "vm=%s extracted=%s" % (vm_bad, ext_bad))
        ctx.coverage["vm_compute_crosschecked_cases"] = len(small)
    except vlib.Broken as b:
        broken = broken or b
    reported = 0
    for i in mism:
        if reported >= 2:
            break
        reported += 1
        pred = None
        try:
            pred = vlib.model_eval("C08", [terms[i]], predict=True)[1][0]
        except Exception:
            pass
        ctx.violation("model-mismatch", "Corr/C08.check: Model/ConnState.v (variant %s) and the real code disagree on a history%s; "
                      "the theorems of Properties/C08.v no longer speak about this code"
                      % (mouts[i]["variant"], "" if mouts[i]["prop_ok"] else " (the Go-side predicate fails on it too: %s)" % mouts[i]["prop_key"]),
                      {"case": mcases[i], "observed": mouts[i].get("obs", [mouts[i].get("results"), mouts[i].get("final"), mouts[i].get("sched")]),
                       "model_predicts": pred, "tainted_at": mouts[i].get("tainted_at")},
                      found_input=not mouts[i]["prop_ok"])

    # coverage
    distinct, nontrivial = set(), set()
    dist = {"by_backend": {}, "by_mode": {}, "by_tag": {}, "ops": {}, "timing_tainted_histories": 0, "steps_not_compared": 0}
    steps = 0
    for c, o in zip(cases, outs):
        h = hashlib.sha256(json.dumps([c["mode"], c["backend"], c["ops"]]).encode()).hexdigest()
        distinct.add(h)
        n = len(c["ops"]) if o["tainted_at"] < 0 else o["tainted_at"]
        steps += n
        if o["tainted_at"] >= 0:
            dist["timing_tainted_histories"] += 1
            dist["steps_not_compared"] += len(c["ops"]) - n
        found = {tuple(a) for st in o["obs"][:n] for node in st for a in node if a[0] == 1}
        if len({a[1] for a in found}) >= 2 or (found and any(op[0] == TICK for op in c["ops"][:n])):
            nontrivial.add(h)
        for k, v in (("by_backend", c["backend"]), ("by_mode", c["mode"]), ("by_tag", c.get("tag", ""))):
            dist[k][v] = dist[k].get(v, 0) + 1
        for op in c["ops"]:
            dist["ops"][str(op[0])] = dist["ops"].get(str(op[0]), 0) + 1
    cnontrivial, ctags = set(), {}
    for c, o in zip(ccases, couts):
        ctags[c["tag"]] = ctags.get(c["tag"], 0) + 1
        # non-trivial: at least two invocations actually interleave (the executed schedule switches thread before one finishes)
        sw = sum(1 for a, b in zip(o["sched"], o["sched"][1:]) if a != b)
        if sw >= len(c["threads"]):
            cnontrivial.add(hashlib.sha256(json.dumps([c["backend"], c["setup"], c["threads"], o["sched"]]).encode()).hexdigest())
    samples = [{"case": cases[i], "observed": outs[i]["obs"], "prop_ok": outs[i]["prop_ok"]}
               for i in sorted({0, len(cases) // 2, len(cases) - 1}) if 0 <= i < len(cases)]
    if ccases:
        k = len(ccases) // 2
        samples.append({"case": ccases[k], "executed_schedule": couts[k]["sched"], "results": couts[k]["results"],
                        "final": couts[k]["final"], "prop_ok": couts[k]["prop_ok"]})
    ctx.coverage.update({
        "evaluations": len(cases) + len(ccases) + len(rcases),
        "real_auth_handler_histories": {"run": len(rcases), "expectations_checked": sum(o["checked"] for o in routs)}, "distinct_nontrivial": len(nontrivial) + len(cnontrivial),
        "concurrent_phases": {"replayed": len(ccases), "distinct_nontrivial": len(cnontrivial), "by_tag": ctags,
                              "compared_with_thread_model": repaired,
                              "lookups_checked_read_only": sum(1 for c in ccases for t in c["threads"] if t[0] == TH_FIND)},
        "rule": "one evaluation = one history driven through the real code of 2-3 nodes over one shared storage, with FindClientNode "
                "asked for every client on every node after every event, the C08 predicate evaluated on those answers and the "
                "whole trace compared with the extracted Coq model; distinct = distinct (mode, backend, history); non-trivial = "
                "the lookup answered at least two different nodes during the history, or answered a node in a history in which time passes. "
                "Concurrent phases (gated storage double, one schedule entry = one storage call) count as one evaluation per (phase, schedule); "
                "non-trivial = the executed schedule switches between invocations at least as often as there are invocations.",
        "samples": samples, "steps_compared": steps, "expectations_checked_on_real_code": sum(o["checked"] for o in outs),
        "model_vs_impl_cases": len(terms), "model_vs_impl_mismatches": len(mism), "impl_property_failures": nfail,
        "impl_property_failures_by_key": {k: len(v) for k, v in by_key.items()},
        "code_variant_probed": dict(zip(["unregister_guard", "refresh_renews_index", "heartbeat_refreshes", "pointer_shape_accepted",
                                         "index_test_and_write_is_one_cas", "client_state_service_atomic", "state_tombstone_blocks_rebuild_ms"], variant or [])),
        "state_cas_by_backend": {b: max([o["variant"][5] for c, o in zip(ccases, couts) if c["backend"] == b and is_state_phase(c)] or [-1]) for b in BACKENDS},
        "index_cas_by_backend": {b: max([o["variant"][4] for c, o in zip(ccases, couts) if c["backend"] == b] or [-1]) for b in BACKENDS},
        "max_wallclock_lateness_ms": max([o["max_late_ms"] for o in outs] or [0]),
        "timing": {"ttl_ms": TTL_MS, "unit_ms": UNIT_MS, "margin_ms": MARGIN_MS},
        "input_distribution": dist, "generated_file_changed": gen_changed,
    })
    ctx.assumptions += [
        "connection ids are unique across the cluster (C15) — hypothesis `forall n' x, In (AuthOK n' c x) pre -> n' = n` and single_client",
        "Model/ConnState.v takes each connstate.Store method as one atomic step; Model/ConnStateThreads.v drops that assumption (one step = one storage call) for the time-free fragment and is replayed on the real code through a gated storage double; the two residual writer windows it exposes are recorded as known findings",
        "the storage behaves as one TTL key-value map for string / JSON values (C13); Redis replication lag and clock skew between nodes are not modelled",
        "Info.ExpiresAt and the key's storage deadline coincide (both now+ttl of the same call)",
        "the auth handler is scripted (sets ClientID/Authenticated like ServerAuthHandler, whose KickOldControlConnection is the Kick event)",
    ]
    if broken is not None:
        raise broken


def replay(ctx, path):
    r = json.load(open(path))
    run(ctx, only_cases=[r["replay"]["case"]])

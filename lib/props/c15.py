"""C15 — generated identifiers are unique among live identifiers."""
import itertools
import json
import os

import vlib


def gen_case(rng, slots=4):
    n = rng.choice([2, 2, 3, 3, 4])
    threads = []
    for _ in range(n):
        ops = rng.choice([["G"], ["G", "G"], ["G", "R", "G"], ["G", "R"], ["G", "G", "R", "G"], ["R", "G"]])
        faults = [rng.random() < 0.15 for _ in range(rng.choice([0, 0, 3, 8]))]
        kind = rng.choice(["int", "str"])
        if kind == "int" and rng.random() < 0.3:
            # IDManager.GenerateUniqueID with a scripted existence check (n not taken / x exists elsewhere / e check fails)
            u = "U" + "".join(rng.choice("nxxe") for _ in range(rng.choice([1, 2, 3])))
            ops = list(ops)
            ops[rng.randrange(len(ops))] = u
        threads.append({"kind": kind, "ops": ops, "faults": faults,
                        "true_on_fault": [rng.random() < 0.5 for _ in faults]})
    pre = rng.sample(range(slots), min(slots, rng.choice([0, 0, 1, 2, 3, slots])))
    sched = [rng.randrange(n) for _ in range(rng.choice([0, 3, 8, 20, 60]))]
    return {"mode": "sched", "threads": threads, "sched": sched, "pre": sorted(pre), "slots": slots}


def unique_cases():
    """directed: GenerateUniqueID whose check fails / says exists, then a second caller drawing the same slot"""
    out = []
    for script in ("e", "x", "xe", "xxn", "n"):
        for sched in ([0] * 6 + [1] * 4, [0, 1] * 5, [1, 0, 0, 0, 0, 1, 1]):
            out.append({"mode": "sched", "threads": [{"kind": "int", "ops": ["U" + script], "faults": []},
                                                      {"kind": "int", "ops": ["G", "G"], "faults": []}],
                        "sched": list(sched), "pre": [], "slots": 2})
    # SetNX reporting (true, err): the id must not be handed out
    for tof in ([True], [True, True], [False, True]):
        out.append({"mode": "sched", "threads": [{"kind": "int", "ops": ["G"], "faults": [True] * len(tof), "true_on_fault": tof},
                                                  {"kind": "str", "ops": ["G", "G"], "faults": []}],
                    "sched": [0, 0, 1, 1, 0, 1], "pre": [], "slots": 2})
    return out


def exhaustive_cases(rng):
    """all interleavings of the first 3 storage actions of 2 callers x (pre-taken patterns)"""
    out = []
    for pre in ([], [0], [0, 1], [0, 1, 2]):
        for sched in itertools.product([0, 1], repeat=6):
            out.append({"mode": "sched", "threads": [{"kind": "int", "ops": ["G", "R", "G"], "faults": []},
                                                      {"kind": "str", "ops": ["G", "G"], "faults": []}],
                        "sched": list(sched), "pre": pre, "slots": 3})
    return out


def case_value(c, o):
    ths = []
    for t, to in zip(c["threads"], o["threads"]):
        ths.append([[1 if x == "R" else 0 for x in (to.get("ops") if to.get("ops") is not None else t["ops"])], list(to["cands"]), [bool(f) for f in t["faults"]],
                    [[k, s] for k, s in to["log"]]])
    return [ths, list(o["sched"]), list(c["pre"]), c["slots"], list(o["markers"])]


def hb_period_ms():
    """heartbeat period regenerated into Gen/C15.v (seconds) -> ms; 30 s when absent"""
    import re
    try:
        m = re.search(r"NodeHeartbeatSeconds : nat := (\d+)", open(os.path.join(vlib.COQ, "Gen", "C15.v")).read())
        v = int(m.group(1))
        return 1000 * (v if 0 < v <= 120 else 30)
    except Exception:
        return 30000


def run(ctx, only_cases=None):
    thorough = ctx.tier == "thorough"
    binary = vlib.build_harness("C15")
    gen_changed = vlib.write_if_changed(os.path.join(vlib.COQ, "Gen", "C15.v"), vlib.harness_text(binary, ["gen", vlib.REPO]))
    broken = None
    try:
        pinfo = vlib.coq_properties("C15")
        vlib.proof_coverage(ctx, pinfo, "make -C coq Properties/C15.vo && coqc Properties/C15.v (Print Assumptions audit)", extra_obligations=4)  
    except vlib.Broken as b:
        broken = b
    if only_cases is not None:
        cases = only_cases
    else:
        cases = [gen_case(ctx.rng, ctx.rng.choice([2, 3, 4, 4])) for _ in range(5000 if thorough else 400)]
        cases += exhaustive_cases(ctx.rng) if thorough else exhaustive_cases(ctx.rng)[::4]
        cases += unique_cases()
        cases += [{"mode": "node", "n": n} for n in ([2, 8, 32, 64] * (20 if thorough else 3))]
        # the non-atomic fallback inside ONE generator instance (store without SetNX): all 2-caller schedules of length 4
        cases += [{"mode": "fallback", "n": 2, "sched": list(s)} for s in itertools.product([0, 1], repeat=4)]
        cases += [{"mode": "fallback", "n": 3, "sched": [ctx.rng.randrange(3) for _ in range(8)]} for _ in range(40 if thorough else 8)]
        # ... and with failing storage calls: each of the first Exists / Set calls made to fail, alone and in pairs
        cases += [{"mode": "fallback", "n": 2, "sched": list(s), "fault_exists": fe, "fault_set": fs}
                  for s in ([0, 0, 1, 1], [0, 1, 0, 1], [1, 0, 0, 1]) for fe in ([1], [2], [3], [2, 3], []) for fs in ([], [1], [2]) if fe or fs]
        cases += [{"mode": "fallback", "n": 3, "sched": [ctx.rng.randrange(3) for _ in range(8)],
                   "fault_exists": sorted(ctx.rng.sample(range(1, 9), ctx.rng.choice([1, 2, 3]))), "fault_set": ctx.rng.choice([[], [1], [2]])}
                  for _ in range(60 if thorough else 12)]
        # UUID-based generators under failing entropy reads (never two failures in a row: uuid.New() would panic)
        for _ in range(300 if thorough else 40):
            fails, prev = [], False
            for _i in range(ctx.rng.choice([4, 8, 16])):
                f = (not prev) and ctx.rng.random() < 0.45
                fails.append(f)
                prev = f
            cases.append({"mode": "uuid", "n": ctx.rng.choice([2, 3, 6]), "kind": ctx.rng.randrange(4), "fails": fails})
        cases += [{"mode": "uuid", "n": 2, "kind": k, "fails": [True, False, True, False]} for k in range(4)]
        # the tiered facade over a cache tier WITHOUT set-if-absent: one generator instance per caller, all 2-caller schedules
        cases += [{"mode": "hybridnx", "n": 2, "sched": list(s)} for s in itertools.product([0, 1], repeat=4)]
        cases += [{"mode": "hybridnx", "n": 3, "sched": [ctx.rng.randrange(3) for _ in range(8)]} for _ in range(40 if thorough else 8)]
        cases += [{"mode": "ttl"}]
        # node-id allocator sequences: allocate / lease lapses / release on 2-3 allocator objects over one store
        cases += [{"mode": "nodeseq", "n": 2, "sched": list(s)} for s in itertools.product(range(6), repeat=4)][:: (1 if thorough else 5)]
        cases += [{"mode": "nodeseq", "n": 3, "sched": [ctx.rng.randrange(9) for _ in range(ctx.rng.choice([4, 6, 9]))]} for _ in range(400 if thorough else 60)]
        cases += [{"mode": "nodefault", "n": k} for k in (1, 2, 3, 4)]
        cases += [{"mode": "wrap", "n": 40 if thorough else 12}]
        cases += [{"mode": "stress", "n": 2500 if thorough else 600}]
        cases += [{"mode": "hybrid2", "n": 2, "kind": k} for k in (0, 1)]
        cases += [{"mode": "uniqwrap", "n": k} for k in (0, 1, 3)]
        cases += [{"mode": "mgr2", "n": 2, "kind": k} for k in (0, 1, 2, 3)]
        cases += [{"mode": "noderel", "n": 3, "kind": k} for k in (0, 1)]
        # the boundary "no free id": the range is full (or has 1-2 free slots); allocate / real Release() sequences on 1-3 allocators
        for free in ([], [1000], [1], [500, 1000], [ctx.rng.randrange(1, 1001)]):
            cases += [{"mode": "nodefull", "n": 2, "pre": free, "sched": list(s)} for s in itertools.product(range(4), repeat=4)][:: (1 if thorough else 9)]
            cases += [{"mode": "nodefull", "n": 3, "pre": free, "sched": [ctx.rng.randrange(6) for _ in range(ctx.rng.choice([3, 6, 10]))]} for _ in range(60 if thorough else 8)]
        cases += [{"mode": "birthday", "n": 120000 if thorough else 45000}]
    # the node-id heartbeat case waits one real heartbeat period (the ticker cannot be injected): run it beside the others
    hb_case = {"mode": "nodehb", "n": int(hb_period_ms() + 1500), "slots": 0}
    import concurrent.futures as _cf
    with _cf.ThreadPoolExecutor(max_workers=1) as ex:
        hb_future = ex.submit(vlib.run_harness, binary, [hb_case], (), 300) if only_cases is None else None
        outs = vlib.run_harness(binary, cases, timeout=1500)
        if hb_future is not None:
            cases = cases + [hb_case]
            outs = outs + hb_future.result()
    nfail = 0
    for c, o in zip(cases, outs):
        if not o["prop_ok"]:
            nfail += 1
            if nfail <= 3:
                kind = {"node": "node-id-duplicate", "nodeseq": "node-id-duplicate-after-lease-lapse", "nodefault": "node-id-duplicate-on-shared-cache-fault", "nodefull": "node-range-full-not-clean", "wrap": "handed-out-id-not-the-marked-id", "stress": "concurrent-callers-one-generator", "hybrid2": "two-nodes-shared-cache-duplicate", "uniqwrap": "taken-candidate-handed-out", "mgr2": "two-managers-one-store-duplicate", "noderel": "released-slot-deleted-again", "birthday": "duplicate-live-id-real-collision",
                        "fallback": "fallback-duplicate", "hybridnx": "hybrid-setnx-fallback-duplicate", "nodehb": "node-lease-not-renewed", "uuid": "uuid-duplicate-under-entropy-fault", "ttl": "marker-lifetime"}.get(
                    c["mode"], "leak" if "marker" in o["prop_msg"] else "duplicate-live-id")
                ctx.violation(kind, "real idgen/node allocator: " + o["prop_msg"], {"case": c, "observed": o})
    sc = [(c, o) for c, o in zip(cases, outs) if c["mode"] == "sched"]
    uu = [(c, o) for c, o in zip(cases, outs) if c["mode"] == "uuid"]
    terms = [case_value(c, o) for c, o in sc]
    # uuid cases: the entropy reads actually made (index or failure) and, per returned id, the read it is made of
    terms += [[9, c["n"], [[d] if d else [] for d in (o.get("draws") or [])], [max(x, 0) for x in (o.get("ids") or []) if x >= 0]] for c, o in uu]
    nf = [(c, o) for c, o in zip(cases, outs) if c["mode"] == "nodefull" and o["prop_ok"]][:: (1 if thorough else 2)]
    terms += [[8, [[[1 if x == "R" else 0 for x in t["ops"]], list(t["cands"]), [], [[k, s] for k, s in t["log"]]] for t in o["threads"]],
               list(o["sched"]), list(c["pre"]), list(o["markers"])] for c, o in nf]
    n_uu = len(uu) + len(nf)
    sc = sc + uu + nf
    mism = []
    try:
        res = vlib.model_eval("C15", terms)
        mism = [i for i, ok in enumerate(res) if not ok]
        small = [i for i in range(len(terms)) if len(sc[i][1]["sched"]) < 40][:25] + list(range(len(terms) - n_uu, len(terms) - len(nf)))[:6] + sorted(range(len(terms) - len(nf), len(terms)), key=lambda i: len(sc[i][1]["sched"]))[:2]
        vm_bad = sorted(small[k] for k in vlib.vm_crosscheck("C15", [terms[i] for i in small]))
        if vm_bad != sorted(i for i in small if not res[i]):
            raise vlib.Broken("extracted runner and vm_compute disagree on the C15 model", str(vm_bad))
        ctx.coverage["vm_compute_crosschecked_cases"] = len(small)
    except vlib.Broken as b:
        broken = broken or b
    for i in mism[:3]:
        if not ctx.violations:
            ctx.violation("model-mismatch", "Corr/C15.check: IdGen model and the real StorageIDGenerator disagree on a replayed schedule "
                          "on which the Go-side uniqueness predicate holds", {"case": sc[i][0], "observed": sc[i][1]}, found_input=False)
    nontriv = set()
    stats = {"collisions": 0, "exhausted": 0, "released": 0, "got": 0, "faults_injected": 0}
    for c, o in sc[:len(sc) - n_uu]:
        coll = sum(len(t["cands"]) for t in o["threads"]) - sum(1 for t in o["threads"] for k, _ in t["log"] if k == 0)
        stats["collisions"] += coll
        for t in o["threads"]:
            for k, _ in t["log"]:
                stats[["got", "exhausted", "released"][k]] += 1
        stats["faults_injected"] += sum(sum(t["faults"]) for t in c["threads"])
        if coll > 0 and len(c["sched"]) > 0:
            nontriv.add(json.dumps([c["threads"], c["sched"], c["pre"]], sort_keys=True))
    ctx.coverage.update({
        "evaluations": len(cases), "distinct_nontrivial": len(nontriv),
        "rule": "schedules of 2-4 concurrent callers (Generate/Release scripts, int64 and string generators, injected SetNX failures, "
                "pre-taken ids) replayed deterministically on real StorageIDGenerator instances through a gated store double that folds the id "
                "namespace onto 2-4 slots; model replayed with the candidate slots actually drawn. non-trivial = at least one collision "
                "(failed SetNX) and a non-empty prescribed schedule; distinct by (scripts, schedule, pre). Plus concurrent NodeIDAllocator runs.",
        "samples": [{"case": sc[i][0], "observed": {"threads": sc[i][1]["threads"] if len(json.dumps(sc[i][1]["threads"])) < 1500 else "…", "markers": sc[i][1]["markers"]}} for i in (0, 1) if i < len(sc)],
        "model_vs_impl_cases": len(terms), "model_vs_impl_mismatches": len(mism), "impl_property_failures": nfail,
        "input_distribution": dict(stats, schedules=len(sc) - n_uu, uuid_entropy_fault_cases=len(uu), node_allocator_histories_on_model=len(nf),
                                   uuid_failed_reads=sum(sum(1 for d in (o.get("draws") or []) if not d) for _, o in uu),
                                   fallback_cases=sum(1 for c in cases if c["mode"] == "fallback"),
                                   fallback_cases_with_faults=sum(1 for c in cases if c["mode"] == "fallback" and (c.get("fault_exists") or c.get("fault_set"))),
                                   other_runs=len(cases) - len(sc)),
        "generated_file_changed": gen_changed,
    })
    ctx.assumptions += ["each storage call (SetNX/Delete) is atomic (memory.Storage mutex / Redis command); marker TTL expiry (30 days) is not exercised",
                        "candidate randomness is not modelled: theorems hold for arbitrary candidate streams",
                        "fallback branch for stores without SetNX: refuted for two instances, unreachable with shipped stores (side condition)",
                        "UUID generators: successful 122-bit entropy draws are pairwise distinct (hypothesis of C15_uuid_unique_any_entropy_faults; the birthday run measures it); two failing entropy reads in a row make uuid.New() panic — not generated"]
    if broken is not None:
        raise broken


def replay(ctx, path):
    r = json.load(open(path))
    run(ctx, only_cases=[r["replay"]["case"]])

"""C11 — control commands act with the connection's proven identity only."""
import copy
import json
import os

import vlib

PROP = "C11"
# command bytes (internal/packet/packet.go); the set the server dispatches is re-derived from the real stack by `verif_c11 gen`
DISCONNECT, CONFIG_GET, CODE_GEN, CODE_LIST, CODE_ACT, MAP_LIST, MAP_GET, MAP_DEL = 11, 50, 70, 71, 72, 74, 75, 76
PROXY_RESP, DOM_BASE, DOM_CHECK, DOM_GEN, DOM_CREATE, DOM_DEL, DOM_LIST = 81, 82, 83, 84, 85, 86, 87
SOCKS, TRAFFIC, NOTIFY, DNS_RESOLVE, DNS_QUERY = 90, 110, 102, 120, 121
HANDLED = [DISCONNECT, CONFIG_GET, CODE_GEN, CODE_LIST, CODE_ACT, MAP_LIST, MAP_GET, MAP_DEL, PROXY_RESP, DOM_BASE, DOM_CHECK,
           DOM_GEN, DOM_CREATE, DOM_DEL, DOM_LIST, SOCKS, TRAFFIC, DNS_RESOLVE, DNS_QUERY]
MAP_CMDS = (MAP_GET, MAP_DEL, TRAFFIC, SOCKS)
NOSUCH = 999999
KIND = {"unknown": 0, "fresh": 1, "pending": 2, "auth": 3}

# the repaired handlers: flag name -> (fix file, keys the defect shows up under while the fix is not applied)
DEFECTS = {
    "socks": ("fixes/C11-socks5-unauthenticated-zero-listen.diff", ["cmd90:unauth:reached-client"]),
    "traffic": ("fixes/C11-traffic-report-party-check.diff", ["cmd110:unauth:traffic-counters", "cmd110:nonparty:traffic-counters"]),
    "dns": ("fixes/C11-dns-forward-sender-check.diff", ["cmd120:unauth:reached-client", "cmd120:nonparty:reached-client",
                                                         "cmd121:unauth:reached-client", "cmd121:nonparty:reached-client"]),
    "notify": ("fixes/C11-c2c-notify-unauthenticated.diff", ["cmd102:unauth:notify-sender"]),
    "dnsresp": ("fixes/C11-dns-answer-from-target-only.diff", ["cmd120-resp:any-connection-answers", "cmd121-resp:any-connection-answers"]),
    "dnsdef": ("fixes/C11-dns-default-target-listen-check.diff", ["cmd120:nonparty:reached-default-target", "cmd121:nonparty:reached-default-target"]),
}

# the fixed world of the systematic sweep: clients 1..4 (4 is offline); client 0 = "no client"
WORLD = {
    "nclients": 4, "online": [True, True, True, False],
    "mappings": [{"l": 1, "t": 2, "proto": "socks"}, {"l": 3, "t": 4, "proto": "tcp"}, {"l": 0, "t": 2, "proto": "socks"},
                 {"l": 2, "t": 1, "proto": "tcp"}],
    "codes": [{"t": 2, "act": 0}, {"t": 3, "act": 0}, {"t": 2, "act": 1}],     # the third activation creates mapping #4 (1 -> 2)
    "domains": [{"c": 1}, {"c": 3}],
}
# the two-node world: clients 2 and 4 are connected on another node; bridge manager double, connection state store and
# cross-node pool are wired (harness xnode.go)
WORLD_X = {
    "nclients": 4, "online": [True, True, True, True], "xnode": True, "remote": [False, True, False, True],
    "mappings": [{"l": 1, "t": 2, "proto": "socks"}, {"l": 3, "t": 4, "proto": "tcp"}, {"l": 0, "t": 2, "proto": "socks"},
                 {"l": 2, "t": 1, "proto": "tcp"}, {"l": 1, "t": 3, "proto": "tcp"}],
    "codes": [{"t": 2, "act": 0}, {"t": 3, "act": 0}], "domains": [{"c": 1}, {"c": 3}],
}
XNODE_CMDS = (SOCKS, DNS_QUERY, DNS_RESOLVE, NOTIFY, CONFIG_GET, MAP_DEL, MAP_LIST, TRAFFIC, CODE_ACT, DISCONNECT)
CONNS = [("unknown", 0), ("fresh", 0), ("pending", 1), ("auth", 4), ("auth", 3), ("auth", 2), ("auth", 1)]


def step(conn, who, cmd, **kw):
    """a command packet on a connection; conn="auth": the long-lived connection #who (initially client #who's)"""
    s = {"conn": conn, "who": who, "cmd": cmd, "resp": False, "obj": -2, "tgt": 0, "dir": 0, "sent": 0, "recv": 0,
         "valid": True, "claim": 0, "ans": 0}
    s.update(kw)
    return s


def event(ev, ci=0, as_=0, obj=0):
    """an event between commands.  Registry: connection #ci re-authenticates as client #as_ ("reauth") / leaves the registry
    ("remove").  Store, behind the commands' back: mapping #obj deleted ("delmap"), its listen (ci=0) / target (ci=1) client
    rewritten to client #as_ without touching the per-client indexes ("setparty": MigrateClientMappings), its status set
    active (as_=1) / inactive (as_=0) ("setactive")"""
    return {"ev": ev, "ci": ci, "as": as_, "obj": obj, "conn": "", "who": 0, "cmd": 0, "claim": 0}


def variants(cmd):
    """the body variants swept for one command byte"""
    if cmd in MAP_CMDS:
        return [{"obj": o, "sent": 1000000, "recv": 7} for o in (0, 1, 2, 3, 4, -1, -2)]
    if cmd == CODE_ACT:
        return [{"obj": o} for o in (0, 1, 2, -1, -2)] + [{"obj": 0, "valid": False}]
    if cmd == DOM_DEL:
        return [{"obj": o} for o in (0, 1, -1, -2)]
    if cmd in (DNS_RESOLVE, DNS_QUERY, NOTIFY):
        return [{"tgt": t} for t in (0, 1, 2, 3, 4, -1)]
    if cmd == MAP_LIST:
        return [{"dir": d} for d in (0, 1, 2, 3, 4)]       # "", outbound, inbound, an unknown value, field absent
    if cmd in (CODE_GEN, DOM_CHECK, DOM_GEN, DOM_CREATE):
        return [{"valid": True}, {"valid": False}]
    return [{}]


def systematic_cases(handled, aux_cmds):
    """every handled command x body variant: one world per (command, variant); the steps walk through every
    connection identity class x {honest, forged} packet identity fields, strangers first, parties last"""
    cases = []
    for cmd in sorted(set(handled) | set(aux_cmds)):
        for var in variants(cmd):
            for resp in ((False, True) if cmd in (DISCONNECT, MAP_DEL, TRAFFIC, DNS_RESOLVE, DNS_QUERY, PROXY_RESP, SOCKS, CODE_GEN) else (False,)):
                steps = []
                for conn, who in CONNS:
                    for claim in (0, 2 if who != 2 else 1):
                        if cmd == DISCONNECT and conn == "auth" and claim:
                            continue      # the connection is gone after the first Disconnect
                        steps.append(step(conn, who, cmd, resp=resp, claim=claim, **var))
                c = dict(copy.deepcopy(WORLD), mode="case", aux=cmd in aux_cmds, steps=steps, tag="sweep")
                cases.append(c)
    return cases


def xnode_cases():
    """every command that can act across nodes x body variant x every sender class x {honest, forged}, target / peer on another node"""
    cases = []
    for cmd in XNODE_CMDS:
        for var in variants(cmd):
            steps = []
            for conn, who in CONNS:
                for claim in (0, 2 if who != 2 else 1):
                    if cmd == DISCONNECT and conn == "auth" and claim:
                        continue
                    steps.append(step(conn, who, cmd, claim=claim, **var))
            cases.append(dict(copy.deepcopy(WORLD_X), mode="case", aux=True, steps=steps, tag="xnode"))
    return cases


def expired_cases():
    """objects whose ExpiresAt lies in the past (the cleanup task has not run): every command that names an object, and the list
    commands, x every sender class — an expired mapping / domain is still its owner's"""
    world = copy.deepcopy(WORLD)
    for i in (0, 1, 3):
        world["mappings"][i]["exp"] = True
    for d in world["domains"]:
        d["exp"] = True
    cases = []
    for cmd, vs in ((MAP_GET, [{"obj": o} for o in (0, 1, 3)]), (MAP_DEL, [{"obj": o} for o in (0, 1, 3)]),
                    (TRAFFIC, [{"obj": 0, "sent": 3, "recv": 4}, {"obj": 1, "sent": 3, "recv": 4}]), (SOCKS, [{"obj": 0}, {"obj": 1}]),
                    (DOM_DEL, [{"obj": 0}, {"obj": 1}]), (MAP_LIST, [{"dir": 0}, {"dir": 2}]), (DOM_LIST, [{}]), (CONFIG_GET, [{}]),
                    (DNS_QUERY, [{"tgt": 0}, {"tgt": 2}])):
        for var in vs:
            steps = [step(conn, who, cmd, claim=claim, **var) for conn, who in CONNS for claim in (0, 2 if who != 2 else 1)]
            cases.append(dict(copy.deepcopy(world), mode="case", aux=True, steps=steps, tag="expired"))
    return cases


def altref_cases():
    """every command that names an object by id x the object's other natural handles (full domain, domain in another letter case,
    sub-domain only, id suffix only, id in the other letter case, id with surrounding whitespace) x every sender class: a handle
    that is not the id names nothing, and in any case nothing of the owner's may change for a stranger"""
    cases = []
    for cmd, objs, refs in ((DOM_DEL, (0, 1), ("domain", "DOMAIN", "sub", "suffix", "case", "ws")),
                            (MAP_GET, (0, 1), ("suffix", "case", "ws")), (MAP_DEL, (0, 1), ("suffix", "case", "ws")),
                            (TRAFFIC, (0,), ("suffix", "case", "ws")), (SOCKS, (0,), ("suffix", "case", "ws")),
                            (CODE_ACT, (0, 1), ("suffix", "case", "ws"))):
        for ref in refs:
            steps = [step(conn, who, cmd, obj=o, ref=ref, sent=3, recv=4, claim=claim)
                     for o in objs for conn, who in CONNS for claim in (0, 2 if who != 2 else 1)]
            cases.append(dict(copy.deepcopy(WORLD), mode="case", aux=True, steps=steps, tag="altref"))
    return cases


RACE_CASE = {"mode": "race", "tag": "race", "nclients": 4, "online": [True] * 4, "per_client": 40, "iters": 40, "aux": False,
             "codes": [{"t": 1, "act": 0}, {"t": 2, "act": 0}, {"t": 3, "act": 0}], "domains": [{"c": 1}, {"c": 2}, {"c": 3}, {"c": 4}]}


def unhandled_cases(rng, handled, n):
    pool = [b for b in range(256) if b not in handled and b != NOTIFY]
    steps = []
    for b in rng.sample(pool, n):
        conn, who = rng.choice(CONNS)
        steps.append(step(conn, who, b, obj=rng.choice([0, 1, -1]), tgt=rng.choice([0, 2]), resp=rng.random() < 0.3,
                          claim=rng.choice([0, 1, 2])))
    return [dict(copy.deepcopy(WORLD), mode="case", aux=False, steps=steps[i:i + 24], tag="unhandled") for i in range(0, len(steps), 24)]


def random_cases(rng, n, handled):
    """random small worlds x multi-step histories (generate -> activate -> report -> delete ..., several identities)"""
    cases = []
    for _ in range(n):
        nc = rng.choice([2, 3, 3, 4])
        w = {"nclients": nc, "online": [rng.random() < 0.85 for _ in range(nc)], "mappings": [], "codes": [], "domains": []}
        socks_left = 1     # the default DNS target of a client with several SOCKS mappings depends on storage iteration order
        for _ in range(rng.randrange(0, 5)):
            l = rng.choice([0] + list(range(1, nc + 1)) * 4)
            t = rng.choice([0] + list(range(1, nc + 1)) * 4)
            proto = rng.choice(["tcp", "socks"])
            if proto == "socks":
                if not socks_left:
                    proto = "tcp"
                socks_left = 0
            w["mappings"].append({"l": l, "t": t, "proto": proto})
        for _ in range(rng.randrange(0, 3)):
            w["codes"].append({"t": rng.randrange(1, nc + 1), "act": rng.choice([0, 0, rng.randrange(1, nc + 1)])})
        for _ in range(rng.randrange(0, 3)):
            w["domains"].append({"c": rng.randrange(1, nc + 1)})
        aux = rng.random() < 0.3
        faulty = rng.random() < 0.3
        if rng.random() < 0.3:
            # cluster mode; the clients without a local control connection may be connected on another node
            w["xnode"] = True
            w["remote"] = [(not o) and rng.random() < 0.7 for o in w["online"]]
        nm = len(w["mappings"]) + sum(1 for c in w["codes"] if c["act"])
        ncode, nd = len(w["codes"]), len(w["domains"])
        steps = []
        alive = set(i + 1 for i, o in enumerate(w["online"]) if o)
        bound = dict((i, i) for i in alive)       # long-lived connection -> client it is registered as
        for _ in range(rng.randrange(4, 16)):
            if nm and rng.random() < 0.08:
                # the store changes behind the commands' back
                kind = rng.choice(["delmap", "setactive", "setparty", "setparty"])
                steps.append(event(kind, obj=rng.randrange(nm), ci=rng.randrange(2), as_=rng.randrange(0 if kind == "setactive" else 1, 2 if kind == "setactive" else nc + 1)))
                continue
            if rng.random() < 0.12:
                # the identity of a connection changes between commands (never two connections for one client: C07's business)
                ci = rng.randrange(1, nc + 1)
                free = [c for c in range(1, nc + 1) if c not in bound.values() or bound.get(ci) == c]
                if ci in bound and rng.random() < 0.4:
                    steps.append(event("remove", ci))
                    del bound[ci]
                elif free and ci in alive:
                    c = rng.choice(free)
                    steps.append(event("reauth", ci, c))
                    bound[ci] = c
                continue
            cmd = rng.choice(handled + [SOCKS, TRAFFIC, MAP_DEL, MAP_GET, CODE_ACT, CODE_GEN, DNS_RESOLVE, DNS_QUERY] + ([NOTIFY] * 3 if aux else []))
            r = rng.random()
            if r < 0.12:
                conn, who = rng.choice([("unknown", 0), ("fresh", 0), ("pending", rng.randrange(1, nc + 1))])
            else:
                conn, who = "auth", rng.randrange(1, nc + 1)
            kw = {"claim": rng.choice([0, 0, rng.randrange(1, nc + 1)]), "resp": rng.random() < 0.08,
                  "valid": rng.random() < 0.9, "dir": rng.randrange(3), "sent": rng.choice([0, 1, 4096, 1000000]),
                  "recv": rng.choice([0, 7, 65536]), "tgt": rng.choice([0, -1] + list(range(1, nc + 1)) * 2)}
            if cmd == CODE_ACT:
                kw["obj"] = rng.choice([-1, -2] + list(range(ncode)) * 3) if ncode else rng.choice([-1, -2])
            elif cmd == DOM_DEL:
                kw["obj"] = rng.choice([-1, -2] + list(range(nd)) * 3) if nd else rng.choice([-1, -2])
            else:
                kw["obj"] = rng.choice([-1, -2] + list(range(nm)) * 4) if nm else rng.choice([-1, -2])
            if cmd == DISCONNECT and conn == "auth":
                if who not in alive or rng.random() < 0.6:
                    continue
                alive.discard(who)     # CloseConnection: the stream is gone, the connection cannot be registered again
                bound.pop(who, None)
            if faulty and rng.random() < 0.15:
                kw["fault"] = rng.randrange(1, 10)      # the k-th storage call made while this command is handled fails
            steps.append(step(conn, who, cmd, **kw))
            # object counters as the harness will number them (only used to aim later steps at fresh objects)
            if cmd == CODE_GEN:
                ncode += 1
            elif cmd == CODE_ACT:
                nm += 1
            elif cmd == DOM_CREATE:
                nd += 1
        cases.append(dict(w, mode="case", aux=aux, steps=steps, tag="random"))
    return cases


def history_cases(handled, aux_cmds):
    """ONE session/executor per case: connection #1 sends commands as client 1, then its registry identity changes
    (re-authenticates as client 4 / leaves the registry / leaves and comes back as client 4 / client 3's connection takes
    over identity 1 after connection #1 left), then the whole command alphabet is sent again on the same connection id.
    The predicate is evaluated against the identity the registry holds at each dispatch."""
    warm = [step("auth", 1, DOM_LIST), step("auth", 1, MAP_LIST), step("auth", 1, CONFIG_GET), step("auth", 1, CODE_LIST),
            step("auth", 3, DOM_LIST), step("auth", 2, DOM_LIST)]
    changes = {
        "reauth": ([event("reauth", 1, 4)], 1),
        "remove": ([event("remove", 1)], 1),
        "remove-reauth": ([event("remove", 1), event("reauth", 1, 4)], 1),
        "takeover": ([event("remove", 1), event("remove", 3), event("reauth", 3, 1)], 3),
        "swap": ([event("remove", 1), event("remove", 2), event("reauth", 1, 2), event("reauth", 2, 1)], 1),
    }
    alphabet = sorted(set(handled) | set(aux_cmds))
    cases = []
    for name, (evs, ci) in changes.items():
        probe = []
        for cmd in alphabet:
            if cmd == DISCONNECT:
                continue
            for var in variants(cmd):
                if cmd in MAP_CMDS and var["obj"] not in (0, 3, 4, -1):
                    continue
                if cmd in (DNS_RESOLVE, DNS_QUERY, NOTIFY) and var["tgt"] not in (0, 1, 2):
                    continue
                probe.append(step("auth", ci, cmd, claim=1 if len(probe) % 3 == 0 else 0, **var))
        # destructive commands last; chunks share the warm-up and the identity change
        probe.sort(key=lambda s: s["cmd"] in (MAP_DEL, DOM_DEL, CODE_ACT, TRAFFIC))
        for i in range(0, len(probe), 20):
            steps = copy.deepcopy(warm) + copy.deepcopy(evs) + copy.deepcopy(probe[i:i + 20])
            # the other long-lived connections keep working with their own identity
            steps += [step("auth", 2, DOM_LIST), step("auth", 2, MAP_LIST), step("auth", 3, DOM_DEL, obj=1), step("auth", ci, DISCONNECT),
                      step("auth", ci, DOM_LIST), step("auth", ci, MAP_LIST)]
            cases.append(dict(copy.deepcopy(WORLD), mode="case", aux=True, steps=steps, tag="history:" + name))
    return cases


# ---- overlapping commands (harness/cmd/c11/overlap.go, Model/CmdContext.v) --------------------------------------
OVL_KINDS = ("oneway", "timeout", "domcreate")


def overlap_script(t):
    """model script of a command: 0 = its handler (or the response path) looks at the context, 1 = Execute returns"""
    if t["kind"] == "oneway":
        return [1, 0] + [0] * t["reads"]
    if t["kind"] == "timeout":
        return [0, 1] + [0] * t["reads"] + [0]          # ... + sendResponse(ctx.ConnectionID)
    return [1, 0, 0]                                    # HTTPDomainCreate: CreateMapping(ctx.ClientID), sendResponse(ctx.ConnectionID)


def overlap_schedule(case):
    """harness operations -> model schedule (thread indices, one per atomic step)"""
    sched, released = [], [0] * len(case["threads"])
    for op, i in case["ops"]:
        t = case["threads"][i]
        if op == 0:
            sched += [i] * (2 if t["kind"] == "domcreate" else 3)
        elif t["kind"] == "domcreate":
            sched += [i, i]
        else:
            released[i] += 1
            sched += [i] * (2 if t["kind"] == "timeout" and released[i] == t["reads"] else 1)
    return sched


def overlap_case(threads, order, procs=1, tag="overlap"):
    return {"mode": "overlap", "nclients": 4, "procs": procs, "threads": threads, "ops": order, "tag": tag}


def overlap_cases(rng, n):
    cases = []
    # the witness of the seeded change: a one-way / timed-out / storage-parked command of client 1 is still in its handler
    # while client 2's command is dispatched (and completes)
    for ka in OVL_KINDS:
        for kb in OVL_KINDS:
            ths = [{"conn": 1, "kind": ka, "reads": 2}, {"conn": 2, "kind": kb, "reads": 1}]
            ops = [[0, 0], [0, 1], [1, 1], [1, 0], [1, 0]]
            if ka == "domcreate":
                ops = [[0, 0], [0, 1], [1, 1], [1, 0]]
            cases.append(overlap_case(ths, ops, tag="overlap:pair"))
    for _ in range(n):
        k = rng.choice([2, 3, 3, 4, 5])
        ths = [{"conn": rng.randrange(1, 5), "kind": rng.choice(OVL_KINDS), "reads": rng.choice([1, 1, 2, 3])} for _ in range(k)]
        if len(set(t["conn"] for t in ths)) < 2:
            ths[0]["conn"] = ths[1]["conn"] % 4 + 1
        # a random interleaving: D i first, then the releases of i, everything of different commands shuffled
        pending = [[[0, i]] + [[1, i]] * (1 if t["kind"] == "domcreate" else t["reads"]) for i, t in enumerate(ths)]
        ops = []
        while any(pending):
            i = rng.choice([j for j, p in enumerate(pending) if p])
            ops.append(pending[i].pop(0))
        cases.append(overlap_case(ths, ops, procs=rng.choice([1, 1, 1, 0]), tag="overlap:random"))
    return cases


def overlap_value(case, out):
    ths = [[t["conn"], t["conn"], i, overlap_script(t)] for i, t in enumerate(case["threads"])]
    return [9, ths, overlap_schedule(case), out["obs"]]


# ---- pending tables keyed by a client-chosen id: colliding ids, foreign answers (harness pending.go, Model/Pending.v) ----
def pending_cases():
    """attacker client 1 (mapping to accomplice client 2) and victim client 3 (mapping to client 4); all the orphaned
    requests of one case time out together (5 s)"""
    reqs, ops, tail = [], [], []

    def q(conn, cmd, tgt, rid):
        reqs.append({"conn": conn, "cmd": cmd, "tgt": tgt, "id": rid})
        ops.append([0, len(reqs) - 1])
        return len(reqs) - 1
    for cmd in (DNS_RESOLVE, DNS_QUERY):
        # S1: attacker's request in flight, victim registers the same id; accomplice answers twice; then the genuine answer
        a = q(1, cmd, 2, "s1-%d" % cmd)
        v = q(3, cmd, 4, "s1-%d" % cmd)
        ops.extend([[1, a, 2, 66], [1, a, 2, 67], [1, v, 4, 7], [2, v]])
        tail.append(a)
        # S2: a stranger and an unknown connection answer the victim's request first
        v = q(3, cmd, 4, "s2-%d" % cmd)
        ops.extend([[1, v, 1, 66], [1, v, -1, 67], [1, v, 2, 68], [1, v, 4, 8], [2, v]])
        # S3: the id is re-used after the attacker's request completed; the accomplice answers again
        a = q(1, cmd, 2, "s3-%d" % cmd)
        ops.extend([[1, a, 2, 5], [2, a]])
        v = q(3, cmd, 4, "s3-%d" % cmd)
        ops.extend([[1, v, 2, 66], [1, v, 4, 9], [2, v]])
        # S4: the attacker registers the victim's id AFTER the victim (the victim is orphaned — availability, not identity)
        v = q(3, cmd, 4, "s4-%d" % cmd)
        a = q(1, cmd, 2, "s4-%d" % cmd)
        ops.extend([[1, v, 4, 10], [1, a, 2, 6], [2, a]])
        tail.append(v)
    ops.append([2] + tail)
    return [{"mode": "pending", "tag": "pending", "nclients": 4, "online": [True] * 4, "aux": False,
             "mappings": [{"l": 1, "t": 2, "proto": "socks"}, {"l": 3, "t": 4, "proto": "socks"}], "codes": [], "domains": [],
             "reqs": reqs, "ops": ops}]


def pending_value(case, out):
    ids = {}
    evs = []
    for op in case["ops"]:
        if op[0] == 0:
            i = op[1]
            n = ids.setdefault(case["reqs"][i]["id"], len(ids) + 1)
            if out["forwarded"][i]:
                evs.append([0, n, i, out["forwarded"][i]])
        elif op[0] == 1:
            n = ids.setdefault(case["reqs"][op[1]]["id"], len(ids) + 1)
            evs.append([1, n, op[2] if op[2] > 0 else 99, op[3]])
        else:
            for i in op[1:]:
                if out["forwarded"][i]:
                    evs.append([2, ids[case["reqs"][i]["id"]]])
    return [8, evs, out["got"]]


# ---- one storage call fails while a command is handled (harness faultstore.go, Model/Commands.v exec_faulty) ----
GUARD1 = (MAP_GET, MAP_DEL, TRAFFIC, SOCKS, DOM_DEL)     # one lookup read before the party decision (guard_reads)
FAULT_SCENARIOS = [(MAP_DEL, {"obj": 0}), (MAP_DEL, {"obj": 3}), (MAP_GET, {"obj": 0}), (TRAFFIC, {"obj": 0, "sent": 5, "recv": 5}),
                   (SOCKS, {"obj": 0}), (CODE_ACT, {"obj": 0}), (CODE_ACT, {"obj": 1}), (CODE_GEN, {}), (CODE_LIST, {}), (DOM_CREATE, {}),
                   (DOM_DEL, {"obj": 0}), (DOM_DEL, {"obj": 1}), (DOM_LIST, {}), (MAP_LIST, {}), (CONFIG_GET, {}),
                   (DNS_RESOLVE, {"tgt": 2}), (DNS_QUERY, {"tgt": 0}), (DNS_QUERY, {"tgt": 2}), (DNS_RESOLVE, {"tgt": 0}), (NOTIFY, {"tgt": 2})]
FAULT_SENDERS = [("auth", 3), ("auth", 1), ("auth", 2), ("unknown", 0), ("pending", 1)]


def fault_probe_cases():
    out = []
    for cmd, kw in FAULT_SCENARIOS:
        for conn, who in FAULT_SENDERS:
            out.append(dict(copy.deepcopy(WORLD), mode="case", aux=True, tag="fault-probe", steps=[step(conn, who, cmd, fault=-1, **kw)]))
    return out


def fault_cases(probes, pouts, cap):
    """for every scenario: one case per storage-call position (the k-th call made while the command is handled fails)"""
    out = []
    for c, o in zip(probes, pouts):
        n = min(o["steps"][0]["calls"], cap)
        for k in range(1, n + 1):
            t = copy.deepcopy(c)
            t["steps"][0]["fault"] = k
            t["tag"] = "fault"
            out.append(t)
    return out


PAIR_SKIP = (DNS_RESOLVE, DNS_QUERY)      # a forwarded DNS request has to be answered by the harness loop: not run as a second command


def pair_cases(probes, pouts):
    """concurrent pairs on the SAME handler objects: command A (stranger / party / other party) is parked in its k-th storage call,
    command B of the same type from another client runs from start to end, A resumes.  Every handler of the table that
    touches storage gets every parking position (up to 3) x sender pair x {same object, an object that does not exist}."""
    calls = {}
    for c, o in zip(probes, pouts):
        s = c["steps"][0]
        calls[(s["cmd"], json.dumps({k: s[k] for k in ("obj", "tgt", "dir", "sent", "recv")}, sort_keys=True), s["conn"], s["who"])] = o["steps"][0]["calls"]
    out = []
    for cmd, kw in FAULT_SCENARIOS:
        if cmd in PAIR_SKIP:
            continue
        for wa in (3, 1, 2):
            a = step("auth", wa, cmd, **kw)
            n = calls.get((cmd, json.dumps({k: a[k] for k in ("obj", "tgt", "dir", "sent", "recv")}, sort_keys=True), "auth", wa), 0)
            for k in range(1, min(n, 1 if cmd == TRAFFIC else 3) + 1):   # same CommandId on both connections (harness)
                for wb in (1, 2, 3):
                    if wb == wa:
                        continue
                    variants_b = [kw] + ([dict(kw, obj=-1)] if "obj" in kw else [])
                    for kwb in variants_b:
                        t = copy.deepcopy(a)
                        t["park"], t["pair"] = k, step("auth", wb, cmd, **kwb)
                        out.append(dict(copy.deepcopy(WORLD), mode="case", aux=True, tag="pair", steps=[t]))
                    if cmd == DOM_CREATE:
                        # two racing creates for ONE sub-domain (the model has no sub-domain names: Go-side predicate only)
                        t = copy.deepcopy(a)
                        t["name"] = "race"
                        t["park"], t["pair"] = k, step("auth", wb, cmd, name="race", **kw)
                        out.append(dict(copy.deepcopy(WORLD), mode="case", aux=True, tag="pair", nomodel=True, steps=[t]))
    return out


def fault_in_model(case, out):
    """faulted steps the model speaks about: the fault was not reached, or it hit the lookup read before the party decision;
    a fault after a GRANTED decision cuts the party's own mutation short (Go-side predicate only)"""
    if any(so.get("timed_out") for so in out["steps"]) or case.get("nomodel"):
        return False
    for s, so in zip(case["steps"], out["steps"]):
        k = s.get("fault", 0)
        if k > 0 and so["fault_fired"] and not (s["cmd"] in GUARD1 and k == 1):
            return False
    return True


def authz_change_cases():
    """command; an authorisation-relevant change of the store or the registry; the same command again — by the former party, the
    other party, the new party and a stranger.  Covers stale per-client index entries (party rewritten after indexing), dangling
    ones (record changed, then deleted: the index entry cannot be removed any more), deactivated mappings, logout / login."""
    changes = {
        "delete": [event("delmap", obj=0)],
        "traffic-then-delete": [step("auth", 1, TRAFFIC, obj=0, sent=3, recv=4), event("delmap", obj=0)],
        "deactivate": [event("setactive", obj=0, as_=0)],
        "deactivate-reactivate": [event("setactive", obj=0, as_=0), event("setactive", obj=0, as_=1)],
        "listen-handed-to-3": [event("setparty", obj=0, ci=0, as_=3)],
        "target-handed-to-3": [event("setparty", obj=0, ci=1, as_=3)],
        "listen-handed-to-3-and-back": [event("setparty", obj=0, ci=0, as_=3), event("setparty", obj=0, ci=0, as_=1)],
        "target-logs-out": [event("remove", 2)],
        "target-logs-out-and-in": [event("remove", 2), event("reauth", 2, 2)],
        "listen-relogin-as-4": [event("remove", 1), event("reauth", 1, 4)],
    }
    probes = [(DNS_QUERY, {"tgt": 0}), (DNS_RESOLVE, {"tgt": 0}), (DNS_QUERY, {"tgt": 2}), (DNS_RESOLVE, {"tgt": 3}), (SOCKS, {"obj": 0}),
              (TRAFFIC, {"obj": 0, "sent": 7, "recv": 7}), (MAP_GET, {"obj": 0}), (CONFIG_GET, {}), (NOTIFY, {"tgt": 2})] \
        + [(MAP_LIST, {"dir": d}) for d in (0, 1, 2, 3, 4)]
    senders = [1, 2, 3]
    cases = []
    for name, evs in changes.items():
        for half in (probes[:7], probes[7:]):
            before = [step("auth", w, cmd, **kw) for cmd, kw in half for w in (1, 2)]
            after = [step("auth", w, cmd, claim=1 if (i + w) % 4 == 0 else 0, **kw) for i, (cmd, kw) in enumerate(half) for w in senders]
            world = copy.deepcopy(WORLD)
            world["mappings"][2]["proto"] = "tcp"   # one SOCKS mapping per index: the as-found default target walks a Go map
            world["codes"][2]["act"] = 0            # no second mapping (1 -> 2) that would still justify reaching client 2
            cases.append(dict(world, mode="case", aux=True, tag="authz:" + name,
                              steps=copy.deepcopy(before) + copy.deepcopy(evs) + after + [step("auth", 1, MAP_DEL, obj=0), step("auth", 3, MAP_DEL, obj=0)]))
    return cases


def answer_cases():
    """a forwarded DNS request answered on another client's / an unknown connection (recorded finding)"""
    out = []
    for cmd in (DNS_RESOLVE, DNS_QUERY):
        steps = [step("auth", 1, cmd, tgt=2, ans=0), step("auth", 1, cmd, tgt=2, ans=3), step("auth", 1, cmd, tgt=2, ans=-1),
                 step("auth", 1, cmd, tgt=0, ans=3)]
        out.append(dict(copy.deepcopy(WORLD), mode="case", aux=False, steps=steps, tag="answer"))
    return out


def malformed_cases(rng, handled, n):
    """bodies that are not JSON: Go-side predicate only (not fed to the model)"""
    steps = []
    for _ in range(n):
        conn, who = rng.choice(CONNS)
        steps.append(step(conn, who, rng.choice(handled), obj=-3, valid=False, resp=rng.random() < 0.2, claim=rng.choice([0, 1])))
    return [dict(copy.deepcopy(WORLD), mode="case", aux=False, steps=steps[i:i + 24], tag="malformed") for i in range(0, len(steps), 24)]


DETECT = dict(copy.deepcopy(WORLD), mode="case", aux=True, tag="detect", steps=[
    step("unknown", 0, SOCKS, obj=2),                       # mapping #2 has listen client 0
    step("fresh", 0, TRAFFIC, obj=1, sent=5, recv=5),
    step("auth", 3, DNS_RESOLVE, tgt=2),                    # client 3 has no mapping towards client 2
    step("pending", 1, NOTIFY, tgt=2),
    step("auth", 1, DNS_RESOLVE, tgt=2, ans=3),            # client 3 answers the request that was forwarded to client 2
    event("setparty", obj=0, ci=0, as_=3),                 # mapping #0 handed to client 3: client 1's index entry is stale
    step("auth", 1, DNS_QUERY, tgt=0),                     # default target of the former listen client
])


def detect_flags(binary):
    o = vlib.run_harness(binary, [DETECT])[0]
    if o.get("setup_err"):
        raise vlib.Broken("C11 harness world setup failed", o["setup_err"])
    st = o["steps"]
    return {"socks": not st[0]["deliveries"], "traffic": st[1]["mappings"] == o["init"]["mappings"],
            "dns": not st[2]["deliveries"], "notify": not st[3]["deliveries"], "dnsresp": not st[4]["spoofed"], "dnsdef": not st[6]["deliveries"]}


def case_value(case, out, flags):
    """universal value for Corr/C11.check: [flags, world, steps]"""
    socks = {}
    for i, m in enumerate(case["mappings"]):
        socks[i] = m["proto"] == "socks"
    init = out["init"]
    index = [[c, m[0]] for m in init["mappings"] for c in dict.fromkeys((m[1], m[2])) if c]
    world = [[[m[0], m[1], m[2], socks.get(m[0], False), m[3], m[4], m[5]] for m in init["mappings"]],
             [list(c) for c in init["codes"]], [list(d) for d in init["domains"]], list(init["online"]), [list(b) for b in init["bind"]],
             bool(case.get("xnode")), [i + 1 for i, r in enumerate(case.get("remote") or []) if r and case.get("xnode")], index]
    seen = {"m": len(init["mappings"]), "c": len(init["codes"]), "d": len(init["domains"])}
    steps = []
    for s, o in zip(case["steps"], out["steps"]):
        obs = [o["ok"], o["mappings"], o["codes"], o["domains"], o["online"], o["disc_m"], o["disc_c"], o["disc_d"], o["deliveries"], o["bind"]]
        if s.get("ev"):
            code = {"reauth": 4, "remove": 5, "delmap": 6, "setparty": 7, "setactive": 8}[s["ev"]]
            a, b, c3 = s["ci"], s["as"], 0
            if code == 6:
                a, b = s["obj"], 0
            elif code == 7:
                a, b, c3 = s["obj"], s["ci"], s["as"]
            elif code == 8:
                a, b = s["obj"], s["as"]
            steps.append([code, a, b, c3, None, None, 0, 0, 0, 0, 0, obs])
            continue
        def enc(s, obs, fault):
            kind = "c" if s["cmd"] == CODE_ACT else "d" if s["cmd"] == DOM_DEL else "m"
            if s["obj"] == -2:
                obj = None
            elif s.get("ref") and s["obj"] >= 0:
                obj = [NOSUCH]      # a handle that is not the id names nothing
            elif s["obj"] < 0 or s["obj"] >= seen[kind]:
                obj = [NOSUCH]
            else:
                obj = [s["obj"]]
            tgt = None if s["tgt"] == 0 else [999] if s["tgt"] < 0 or s["tgt"] > case["nclients"] else [s["tgt"]]
            return [KIND[s["conn"]], s["who"], s["cmd"], s["resp"], obj, tgt, s["dir"], s["sent"], s["recv"], s["valid"],
                    s["claim"] if 0 < s["claim"] <= case["nclients"] else 0, obs, fault]
        if s.get("pair"):
            # concurrent pair: [9, stepA, stepB, ..., observed] ; observed carries okB at index 5
            pobs = [o["ok"], o["mappings"], o["codes"], o["domains"], o["online"], o["ok2"], [], [], [], o["bind"]]
            steps.append([9, enc(s, [], 0), enc(s["pair"], [], 0), 0, None, None, 0, 0, 0, 0, 0, pobs])
        else:
            steps.append(enc(s, obs, s["fault"] if s.get("fault", 0) > 0 and o.get("fault_fired") else 0))
        for key, rows in (("m", o["mappings"]), ("c", o["codes"]), ("d", o["domains"])):
            for r in rows:
                seen[key] = max(seen[key], r[0] + 1)
    return [[flags["socks"], flags["traffic"], flags["dns"], flags["notify"], bool(case.get("aux")), flags["dnsdef"]], world, steps]


def project(o):
    return [o["ok"], o["mappings"], o["codes"], o["domains"], o["online"], o["disc_m"], o["disc_c"], o["disc_d"], o["deliveries"], o["bind"]]


def honest_twin(case):
    t = copy.deepcopy(case)
    for s in t["steps"]:
        s["claim"] = 0
    t["tag"] = "twin"
    return t


def twin_wanted(c):
    if any(s.get("fault", 0) > 0 for s in c["steps"]):
        return False      # which call is the k-th depends on map iteration order inside the services: two runs need not fail at the same place
    return (c.get("tag") in ("sweep", "random", "corpus", "xnode", "expired", "altref") or c.get("tag", "").startswith("authz") or c.get("tag", "").startswith("history")) and any(s["claim"] for s in c["steps"])


def load_corpus():
    d = os.path.join(vlib.VERIF, "corpus", PROP)
    out = []
    if os.path.isdir(d):
        for f in sorted(os.listdir(d)):
            if f.endswith(".json"):
                c = json.load(open(os.path.join(d, f)))
                c.setdefault("tag", "corpus")
                out.append(c)
    return out


def shrink_steps(binary, case, idx, key):
    """smallest prefix-free reproduction: drop every step that is not needed for the failing one"""
    cur = dict(case, steps=case["steps"][:idx + 1])
    i = 0
    while i < len(cur["steps"]) - 1:
        t = dict(cur, steps=cur["steps"][:i] + cur["steps"][i + 1:])
        try:
            o = vlib.run_harness(binary, [t])[0]
            last = o["steps"][-1] if o["steps"] else None
            if last and not last["prop_ok"] and last.get("prop_key") == key:
                cur = t
                continue
        except vlib.Broken:
            pass
        i += 1
    return cur


def run(ctx, only_cases=None):
    thorough = ctx.tier == "thorough"
    binary = vlib.build_harness(PROP)
    gen_text = vlib.harness_text(binary, ["gen"])
    gen_changed = vlib.write_if_changed(os.path.join(vlib.COQ, "Gen", "C11.v"), gen_text)
    handled = sorted(set(int(a) for a, r in __import__("re").findall(r"\((\d+), (?:true|false), ([12])\)", gen_text)))
    broken = None
    try:
        pinfo = vlib.coq_properties(PROP)
        vlib.proof_coverage(ctx, pinfo, "make -C coq Properties/C11.vo && coqc Properties/C11.v (Print Assumptions audit)",
                            extra_obligations=4)   # regenerated side conditions of Proofs/SideC11.v
    except vlib.Broken as b:
        broken = b     # keep going: search the implementation for a concrete failing input first

    flags = detect_flags(binary)
    if only_cases is not None:
        cases = only_cases
    else:
        cases = load_corpus()
        cases += systematic_cases(handled, [NOTIFY])
        cases += unhandled_cases(ctx.rng, handled, 72 if thorough else 24)
        cases += history_cases(handled, [NOTIFY])
        cases += xnode_cases()
        cases += authz_change_cases()
        cases += expired_cases()
        cases += altref_cases()
        cases += answer_cases()
        cases += random_cases(ctx.rng, 2500 if thorough else 250, [h for h in HANDLED])
    racecs = [c for c in cases if c.get("mode") == "race"] + ([RACE_CASE] if only_cases is None else [])
    cases = [c for c in cases if c.get("mode") != "race"]
    pend = [c for c in cases if c.get("mode") == "pending"] + (pending_cases() if only_cases is None else [])
    cases = [c for c in cases if c.get("mode") != "pending"]
    if only_cases is None:
        probes = fault_probe_cases()
        pouts = vlib.run_harness(binary, probes, timeout=600)
        cases += fault_cases(probes, pouts, 24 if thorough else 12)
        cases += pair_cases(probes, pouts)
    ovl = [c for c in cases if c.get("mode") == "overlap"] + (overlap_cases(ctx.rng, 120 if thorough else 24) if only_cases is None else [])
    cases = [c for c in cases if c.get("mode") != "overlap"]
    twins = [honest_twin(c) for c in cases if twin_wanted(c)]
    malformed = malformed_cases(ctx.rng, handled, 240 if thorough else 72) if only_cases is None else []
    import time as _t
    phase = {}
    _t0 = _t.time()
    outs = vlib.run_harness(binary, cases + twins + malformed, timeout=1500)
    phase["commands_s"] = round(_t.time() - _t0, 1)
    for c, o in zip(cases + twins + malformed, outs):
        if o.get("setup_err"):
            raise vlib.Broken("C11 harness world setup failed", json.dumps({"case": c, "err": o["setup_err"]})[:3000])
    couts = outs[:len(cases)]
    touts = outs[len(cases):len(cases) + len(twins)]
    _t0 = _t.time()
    pnouts = vlib.run_harness(binary, pend, timeout=900) if pend else []
    phase["pending_s"] = round(_t.time() - _t0, 1)
    _t0 = _t.time()
    for c, o in zip(pend, pnouts):
        if o.get("setup_err"):
            raise vlib.Broken("C11 harness pending-table setup failed", json.dumps({"err": o["setup_err"]})[:3000])
    oouts = vlib.run_harness(binary, ovl, timeout=900) if ovl else []
    phase["overlap_s"] = round(_t.time() - _t0, 1)
    for c, o in zip(ovl, oouts):
        if o.get("setup_err"):
            raise vlib.Broken("C11 harness overlap setup failed", json.dumps({"case": c, "err": o["setup_err"]})[:3000])

    # (iii) the property predicate evaluated by the harness on the real code's outputs
    nfail, reported = 0, set()
    for c, o in zip(cases + twins + malformed, outs):
        for i, so in enumerate(o["steps"]):
            if so.get("timed_out"):
                ctx.violation("cmd%d:timeout" % c["steps"][i]["cmd"], "HandlePacket did not return within 12 s", {"case": c, "step": i})
            if so["prop_ok"]:
                continue
            nfail += 1
            key = so["prop_key"]
            if key in reported:
                continue
            reported.add(key)
            small = c if key in ctx.known else shrink_steps(binary, c, i, key)
            ctx.violation(key, "real command stack: %s (step: %s)" % (so["prop_msg"], json.dumps(c["steps"][i])),
                          {"case": small, "step": len(small["steps"]) - 1 if small is not c else i, "observed": so})
    # pending tables: an answer reaches a requester only from the connection its request was forwarded to
    for c, o in zip(pend, pnouts):
        if not o["prop_ok"]:
            nfail += 1
            if o["prop_key"] not in reported:
                reported.add(o["prop_key"])
                ctx.violation(o["prop_key"], "real DNS pending table: %s" % o["prop_msg"],
                              {"case": c, "forwarded": o["forwarded"], "got": o["got"]})
    # racing read commands of several clients: an answer names only the sender's own objects
    if racecs:
        _t0 = _t.time()
        for c, o in zip(racecs, vlib.run_harness(binary, racecs, timeout=300)):
            if o.get("setup_err"):
                raise vlib.Broken("C11 harness race setup failed", o["setup_err"])
            ctx.coverage["racing_read_answers_checked"] = o["answers"]
            if not o["prop_ok"]:
                nfail += 1
                ctx.violation(o["prop_key"], "real command stack: %s" % o["prop_msg"], {"case": c, "foreign_answers": o["foreign"], "answers": o["answers"]})
        phase["race_s"] = round(_t.time() - _t0, 1)
    # overlapping commands: a still-running handler keeps seeing its own command's context
    for c, o in zip(ovl, oouts):
        if not o["prop_ok"]:
            nfail += 1
            if o["prop_key"] not in reported:
                reported.add(o["prop_key"])
                ctx.violation(o["prop_key"], "real executor: %s (operations D/R: %s)" % (o["prop_msg"], json.dumps(c["ops"])),
                              {"case": c, "observed": o["obs"], "own": o["own"]})
    # (a) packet identity fields must not matter: forged vs honest twin, same observables
    ti = 0
    nclaim = 0
    for c, o in zip(cases, couts):
        if not twin_wanted(c):
            continue
        to = touts[ti]
        ti += 1
        for i, (a, b) in enumerate(zip(o["steps"], to["steps"])):
            nclaim += 1 if c["steps"][i]["claim"] else 0
            if project(a) != project(b):
                ctx.violation("cmd%d:claims-change-outcome" % c["steps"][i]["cmd"],
                              "SenderId/ReceiverId/Token/body client-id fields naming client %d changed the outcome of command %d on a "
                              "connection of identity class %s/%d" % (c["steps"][i]["claim"], c["steps"][i]["cmd"], c["steps"][i]["conn"], c["steps"][i]["who"]),
                              {"case": dict(c, steps=c["steps"][:i + 1]), "step": i, "forged": project(a), "honest": project(b)})
                break
    # a fix that is present must not be listed as known any more (otherwise its revert would be downgraded)
    stale = [k for f, (_, keys) in DEFECTS.items() if flags[f] for k in keys if k in ctx.known]

    # (ii) model vs implementation
    mcases = [(c, o) for c, o in zip(cases, couts) if fault_in_model(c, o)] + list(zip(ovl, oouts)) + list(zip(pend, pnouts))
    terms = ([case_value(c, o, flags) for c, o in zip(cases, couts) if fault_in_model(c, o)] + [overlap_value(c, o) for c, o in zip(ovl, oouts)]
             + [pending_value(c, o) for c, o in zip(pend, pnouts)])
    mism = []
    try:
        res, pred = vlib.model_eval(PROP, terms, predict=True)
        mism = [i for i, ok in enumerate(res) if not ok]
        cand = [i for i in range(len(terms)) if len(mcases[i][0].get("steps", [])) <= 10]
        small = cand[:: max(1, len(cand) // 16)][:16]
        vm_bad = sorted(small[k] for k in vlib.vm_crosscheck(PROP, [terms[i] for i in small]))
        ext_bad = sorted(i for i in small if not res[i])
        if vm_bad != ext_bad:
            raise vlib.Broken("extracted runner and vm_compute disagree on the C11 model", "vm=%s extracted=%s" % (vm_bad, ext_bad))
        ctx.coverage["vm_compute_crosschecked_cases"] = len(small)
    except vlib.Broken as b:
        broken = broken or b
        pred = None
    for i in mism[:3]:
        c, o = mcases[i]
        if o["prop_ok"] and not ctx.violations:
            ctx.violation("model-mismatch", "Corr/C11.check: the Commands model (table variant %s) and the real command stack disagree on a case on "
                          "which the Go-side predicate holds; the theorems of Properties/C11.v no longer speak about this code" % json.dumps(flags),
                          {"case": c, "observed": [project(s) for s in o["steps"]] if "steps" in o else o.get("obs", o.get("got")), "model": pred[i] if pred else None}, found_input=False)
        elif not o["prop_ok"] and not any(k for k in reported if k not in ctx.known):
            # the predicate failed only with known keys, yet the model (which has the matching pinned rows) disagrees
            ctx.violation("model-mismatch", "Corr/C11.check: model (table variant %s) and real command stack disagree" % json.dumps(flags),
                          {"case": c, "observed": [project(s) for s in o["steps"]] if "steps" in o else o.get("obs", o.get("got")), "model": pred[i] if pred else None}, found_input=False)

    # coverage
    distinct, nontrivial = set(), set()
    dist = {"by_tag": {}, "steps_by_conn": {}, "steps_by_cmd": {}, "steps_ok": 0, "steps_refused": 0, "forged_steps": nclaim,
            "steps_with_delivery": 0, "steps_changing_storage": 0, "malformed_steps_go_only": sum(len(c["steps"]) for c in malformed)}
    nsteps = 0
    for c, o in zip(cases + twins, outs[:len(cases) + len(twins)]):
        dist["by_tag"][c.get("tag", "?")] = dist["by_tag"].get(c.get("tag", "?"), 0) + 1
        prev = o["init"]
        for s, so in zip(c["steps"], o["steps"]):
            nsteps += 1
            if s.get("ev"):
                dist["registry_events"] = dist.get("registry_events", 0) + 1
                prev = so
                continue
            if so.get("x", 0) != (s["who"] if s["conn"] == "auth" else 0):
                dist["commands_after_identity_change"] = dist.get("commands_after_identity_change", 0) + 1
            h = json.dumps([s["conn"], s["who"], s["cmd"], s["resp"], s["obj"], s["tgt"], s["dir"], s["valid"], s["claim"], project(prev)[1:5], prev["bind"]])
            distinct.add(h)
            changed = project(so)[1:5] != project(prev)[1:5] or so["bind"] != prev["bind"]
            if so["ok"] or changed or so["deliveries"]:
                nontrivial.add(h)
            dist["steps_by_conn"][s["conn"]] = dist["steps_by_conn"].get(s["conn"], 0) + 1
            dist["steps_by_cmd"][str(s["cmd"])] = dist["steps_by_cmd"].get(str(s["cmd"]), 0) + 1
            dist["steps_ok" if so["ok"] else "steps_refused"] += 1
            dist["steps_with_delivery"] += 1 if so["deliveries"] else 0
            dist["steps_changing_storage"] += 1 if changed else 0
            prev = so
    dist["concurrent_pair_cases"] = sum(1 for c in cases if c.get("tag") == "pair")
    dist["concurrent_pairs_parked"] = sum(1 for c, o in zip(cases, couts) if c.get("tag") == "pair" and o["steps"][0].get("parked"))
    dist["concurrent_pairs_serialized_by_the_handler"] = sum(1 for c, o in zip(cases, couts) if c.get("tag") == "pair" and o["steps"][0].get("serialized"))
    dist["fault_cases"] = sum(1 for c in cases if c.get("tag") == "fault")
    dist["fault_cases_fired"] = sum(1 for c, o in zip(cases, couts) if c.get("tag") == "fault" and o["steps"][0]["fault_fired"])
    dist["fault_cases_in_model_diff"] = sum(1 for c, o in zip(cases, couts) if c.get("tag") == "fault" and fault_in_model(c, o))
    dist["fault_cases_by_nonparty_or_unauth_fired"] = sum(
        1 for c, o in zip(cases, couts) if c.get("tag") == "fault" and o["steps"][0]["fault_fired"] and o["steps"][0]["mappings"] == o["init"]["mappings"])
    dist["pending_cases"] = len(pend)
    dist["pending_requests"] = sum(len(c["reqs"]) for c in pend)
    dist["pending_foreign_answers_sent"] = sum(1 for c, o in zip(pend, pnouts) for op in c["ops"] if op[0] == 1 and op[2] != o["forwarded"][op[1]])
    dist["phase_wall"] = phase
    dist["two_node_cases"] = sum(1 for c in cases if c.get("xnode"))
    dist["steps_relaying_to_another_node"] = sum(1 for c, o in zip(cases, couts) for so in o["steps"] if any(d[1] >= 1000 for d in so["deliveries"]))
    dist["overlap_cases"] = len(ovl)
    dist["overlap_commands_by_kind"] = {k: sum(1 for c in ovl for t in c["threads"] if t["kind"] == k) for k in OVL_KINDS}
    dist["overlap_observations"] = sum(len(x) for o in oouts for x in o["obs"])
    dist["overlap_observations_after_another_dispatch"] = sum(
        1 for c, o in zip(ovl, oouts) for i, t in enumerate(c["threads"])
        for _ in range(sum(1 for k, op in enumerate(c["ops"]) if op == [1, i] and any(p[0] == 0 and p[1] != i for p in c["ops"][c["ops"].index([0, i]):k]))))
    nsteps += dist["overlap_observations"]
    ctx.coverage.update({
        "evaluations": nsteps + dist["malformed_steps_go_only"], "distinct_nontrivial": len(nontrivial),
        "rule": "one evaluation = one command packet handed to the real SessionManager.HandlePacket of the fully wired server fixture; "
                "distinct = distinct (connection class, client, command byte, packet type, object, target, direction, validity, claim, "
                "storage state before); non-trivial = the command succeeded, changed storage or delivered a packet to another client. "
                "Sweep: every dispatched command byte (regenerated from the real stack) x body variants x 7 connection identity "
                "classes x {honest, forged} identity fields; random: seeded worlds x 4-15 step histories; every forged case is re-run "
                "with honest fields and the observables compared.",
        "samples": [{"case": {k: v for k, v in cases[i].items() if k != "steps"}, "first_steps": cases[i]["steps"][:2],
                     "observed": [project(s) for s in couts[i]["steps"][:2]]} for i in (0, len(cases) // 2, len(cases) - 1) if 0 <= i < len(cases)]
                   + [{"case": c, "observed": o["obs"]} for c, o in list(zip(ovl, oouts))[:2]],
        "dispatch_table_handled_bytes": handled, "tree_variant": {k: ("repaired" if v else "as found") for k, v in flags.items()},
        "model_vs_impl_cases": len(terms), "model_vs_impl_steps": sum(len(t[2]) for t in terms), "model_vs_impl_mismatches": len(mism),
        "impl_property_failures": nfail, "input_distribution": dist, "generated_file_changed": gen_changed,
    })
    ctx.assumptions += [
        "world invariant assumed by C11_unauth_refused: client id 0 never has a control connection and no HTTP domain mapping is owned by client 0 "
        "(HTTPDomainMapping.Validate rejects ClientID <= 0; the registry indexes authenticated ids only)",
        "StreamPacket.ClientID is 0 for packets read from the network (adapter.go / websocket module never set it), so createCommandContext takes the id from the connection registry",
        "a connection code is a bearer secret by design (TunnelConnectionCode.CanBeActivatedBy): any authenticated client may activate it; the new mapping's listen side is the activating connection's identity",
        "HTTP domain base-domain list / subdomain check / subdomain generation are treated as public reads (no client-owned state)",
        "answers to forwarded DNS requests / HTTP proxy responses are matched by CommandId only (recorded finding cmd12x-resp:any-connection-answers); the model treats response packets as sinks",
        "overlapping commands: the model covers the CommandContext handed to a handler (Model/CmdContext.v, all interleavings of dispatch / look / Execute-return); "
        "storage races between concurrently running handlers are other properties' business (C14, C19)",
    ]
    if stale:
        ctx.coverage["stale_known_findings"] = stale
        print("note: known_findings.d/C11.txt still lists %s but the tree has the repair; delete these lines so that a revert of the fix is reported" % stale)
    if broken is not None:
        raise broken


def replay(ctx, path):
    r = json.load(open(path))
    run(ctx, only_cases=[r["replay"]["case"]])

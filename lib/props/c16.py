"""C16 — shutdown paths run exactly once and leave nothing running."""
import itertools
import json
import os
import re

import vlib

KNOWN_RACE_KEYS = ("tunnel-close-double-body", "traffic-double-report", "stream-op-during-close-panic",
                   "storage-op-after-close-panic")


# ----------------------------------------------------------------------------------------------
# second harness binary: Tunnel.Close instrumented at every statement boundary (generated from the
# working tree's tunnel.go by `verif_c16 instrument`, substituted through the build overlay only)
# ----------------------------------------------------------------------------------------------

def build_instrumented(binary):
    src = os.path.join(vlib.REPO, "internal", "client", "tunnel", "tunnel.go")
    text = vlib.harness_text(binary, ["instrument", src])
    if text.count('verifC16Point("Close", "cas")') < 1 or text.count('verifC16Point("Close", "load")') < 1:
        raise vlib.Broken("instrumentation of Tunnel.Close found no Load/CompareAndSwap statement",
                          "the latch of Tunnel.Close no longer has the shape the harness parks on")
    d = os.path.join(vlib.BUILD, "c16_instr" + vlib._repo_tag())
    os.makedirs(d, exist_ok=True)
    vlib.write_if_changed(os.path.join(d, "tunnel.go"), text)
    ov = json.load(open(os.path.join(vlib.BUILD, "overlay_c16%s.json" % vlib._repo_tag())))
    ov["Replace"][src] = os.path.join(d, "tunnel.go")
    ovp = os.path.join(vlib.BUILD, "overlay_c16i%s.json" % vlib._repo_tag())
    with open(ovp, "w") as fh:
        json.dump(ov, fh, indent=1)
    out = os.path.join(vlib.BUILD, "bin", "verif_c16i" + vlib._repo_tag())
    rc, so, se = vlib.sh(["go", "build", "-tags", vlib.GUARD, "-overlay", ovp, "-o", out, "./cmd/verif_c16"],
                         cwd=vlib.REPO, env=vlib.GOENV, timeout=900)
    if rc != 0:
        raise vlib.Broken("instrumented harness build for C16", (so + se)[-4000:])
    return out


# ----------------------------------------------------------------------------------------------
# third harness binary: the plain harness built with the Go race detector (needs cgo + a C compiler; skipped with a note
# otherwise).  Runtime oracle only: unsynchronised access between Bridge.Start and Bridge.Close is a Go-memory-model fact
# (a torn read of an interface field yields a typed nil that crashes the later Close) that no model at atomic-step
# granularity carries.
# ----------------------------------------------------------------------------------------------

def race_detector_oracle(ctx, thorough):
    import shutil
    import tempfile
    if not shutil.which("gcc") and not shutil.which("cc"):
        return {"skipped": "no C compiler: go build -race unavailable"}
    ovp = os.path.join(vlib.BUILD, "overlay_c16%s.json" % vlib._repo_tag())
    out = os.path.join(vlib.BUILD, "bin", "verif_c16r" + vlib._repo_tag())
    env = dict(vlib.GOENV)
    env["CGO_ENABLED"] = "1"
    rc, so, se = vlib.sh(["go", "build", "-race", "-tags", vlib.GUARD, "-overlay", ovp, "-o", out, "./cmd/verif_c16"],
                         cwd=vlib.REPO, env=env, timeout=900)
    if rc != 0:
        return {"skipped": "go build -race failed: " + (so + se)[-300:]}
    m = 10 if thorough else 1
    cases = [{"mode": "bridge_startrace", "k": 1, "trials": 250 * m}, {"mode": "bridge_startrace", "k": 2, "trials": 250 * m, "started": True},
             {"mode": "bridge_race", "k": 3, "trials": 30 * m, "started": True, "own": True}]
    d = tempfile.mkdtemp(prefix="c16race_")
    try:
        outs = vlib.run_harness(out, cases, timeout=900, env={"GORACE": "halt_on_error=0 exitcode=0 log_path=%s/r" % d})
        text = ""
        for fn in sorted(os.listdir(d)):
            text += open(os.path.join(d, fn), errors="replace").read()
    finally:
        shutil.rmtree(d, ignore_errors=True)
    reports = [r for r in text.split("==================") if "DATA RACE" in r]
    mine = [r for r in reports if "tunnel.(*Bridge).Start()" in r and "tunnel.(*Bridge).Close()" in r]
    for c, o in zip(cases, outs):
        if not o["prop_ok"]:
            ctx.violation(o["key"], "real code under the race detector, mode %s: %s" % (c["mode"], o["prop_msg"]), {"case": c, "observed": o})
    if mine:
        lines = [l.strip() for l in mine[0].splitlines() if "internal/protocol/session/tunnel" in l or l.startswith(("Read at", "Write at", "Previous"))]
        ctx.violation("bridge-start-close-data-race",
                      "go build -race harness, Bridge.Close racing with the wake-up of Bridge.Start: %d data race report(s) between "
                      "(*Bridge).Start and (*Bridge).Close on the forwarder / connection / stream fields; first: %s"
                      % (len(mine), " | ".join(lines[:8])), {"case": cases[0], "race_reports": len(mine), "first_report": mine[0][:3000]})
    return {"trials": sum(o.get("trials", 0) for o in outs), "race_reports_total": len(reports), "race_reports_bridge_start_vs_close": len(mine)}


# ----------------------------------------------------------------------------------------------
# generators
# ----------------------------------------------------------------------------------------------

def gen_dispose_hist(rng):
    nh = rng.choice([0, 1, 2, 3, 3, 4])
    handlers = [[10 + i, 1 if rng.random() < 0.35 else 0] for i in range(nh)]
    nclosers = rng.choice([1, 2, 2, 3, 4])
    evs, nid = [], 50
    for _ in range(rng.choice([1, 3, 5, 8, 12])):
        x = rng.random()
        if x < 0.35:
            evs.append({"op": "close", "a": rng.randrange(nclosers)})
        elif x < 0.7:
            evs.append({"op": "release"})
        else:
            evs.append({"op": "add", "a": nid, "b": 1 if rng.random() < 0.4 else 0})
            nid += 1
    return {"mode": "dispose_hist", "handlers": handlers, "events": evs}


def exhaustive_dispose(maxlen):
    alpha = [{"op": "close", "a": 0}, {"op": "close", "a": 1}, {"op": "release"}, {"op": "add", "a": 50, "b": 1}]
    out = []
    for n in range(1, maxlen + 1):
        for seq in itertools.product(range(4), repeat=n):
            evs, nid = [], 50
            for k in seq:
                e = dict(alpha[k])
                if e["op"] == "add":
                    e["a"] = nid
                    nid += 1
                evs.append(e)
            out.append({"mode": "dispose_hist", "handlers": [[10, 0], [11, 1]], "events": evs})
    return out


def gen_tunnel_seq(rng):
    started = rng.random() < 0.25
    state = rng.choice([0, 1])
    evs = []
    if not started and state == 0 and rng.random() < 0.3:
        evs.append({"op": "start"})     # Start() on a Connecting tunnel, before any Close
    for _ in range(rng.choice([1, 2, 2, 3, 4])):
        evs.append({"op": "peer"} if rng.random() < 0.2 else {"op": "close", "a": rng.randrange(6)})
    return {"mode": "tunnel_seq", "state": state, "started": started, "events": evs}


def tunnel_sched_cases(rng, thorough):
    out = []
    for k in (2, 3):
        for state in (0, 1):
            for parks in itertools.product((0, 1), repeat=k):
                for order in itertools.permutations(range(k)):
                    for _ in range(3 if thorough else 1):
                        reasons = [rng.choice([0, 2, 3, 5]) for _ in range(k)]
                        out.append({"mode": "tunnel_sched", "state": state, "reasons": reasons, "parks": list(parks), "order": list(order)})
    # the Coq witness of C16_pinned_tunnel_close_refuted: both closers past the load, then one after the other
    out.insert(0, {"mode": "tunnel_sched", "state": 1, "reasons": [0, 0], "parks": [1, 1], "order": [0, 1]})
    return out


def gen_traffic_gate(rng):
    nr = rng.choice([1, 2, 2, 3])
    evs = []
    for _ in range(rng.choice([2, 4, 6, 9, 12])):
        x = rng.random()
        if x < 0.25:
            evs.append({"op": "add", "a": rng.choice([0, 1, 5, 100, 4096])})
        # (no bytesReceived adds here: the model follows ONE counter; the two are coupled only through the
        #  "both deltas zero -> skip" test, which coincides with "sent delta zero" while received stays 0.
        #  Both counters are checked by the Go predicate in bridge_close_gate / bridge_race.)
        elif x < 0.6:
            evs.append({"op": "start", "a": rng.randrange(nr)})
        else:
            evs.append({"op": "step", "a": rng.randrange(nr)})
    return {"mode": "traffic_gate", "events": evs}


TRAFFIC_WITNESS = {"mode": "traffic_gate", "events": [{"op": "add", "a": 100}, {"op": "start", "a": 0}, {"op": "start", "a": 1},
                                                     {"op": "step", "a": 0}, {"op": "step", "a": 0}, {"op": "step", "a": 1}, {"op": "step", "a": 1}]}
TRAFFIC_NEG_WITNESS = {"mode": "traffic_gate", "events": [{"op": "add", "a": 100}, {"op": "start", "a": 0}, {"op": "add", "a": 50},
                                                         {"op": "start", "a": 1}, {"op": "step", "a": 1}, {"op": "step", "a": 1},
                                                         {"op": "step", "a": 0}, {"op": "step", "a": 0}]}


def start_close_cases(rng, thorough):
    """ONE complete Close at every point inside Start: the manager double's Ctx() hook (plain binary) and every statement
    boundary of the instrumented Start (points beyond the last statement = Close after Start returned)"""
    cs = [{"mode": "tunnel_start", "point": -1, "reason": r} for r in (2, 0, 3, 5)]
    for p in range(0, 10):
        for r in ((2, 0, 5) if thorough else (2, rng.choice([0, 3, 4, 5]))):
            cs.append({"mode": "tunnel_start", "point": p, "reason": r})
    return cs


def stall_cases(thorough):
    """Bridge.Close (1-3 concurrent callers) while one forwarding direction is blocked writing to a stalled peer"""
    return [{"mode": "bridge_stall", "side": side, "k": k} for side in (0, 1) for k in ((1, 2, 3) if thorough else (1, 3))]


def queue_cases():
    """B queued on the read / write lock behind the in-flight A while Close runs: every operation kind x (plain / closable) underlying object"""
    return [{"mode": "stream_queue", "k": k, "started": cl} for k in range(5) for cl in (False, True)]


FAULT_SUBS = {0: 3, 1: 2, 2: 4, 3: 4, 4: 2}     # component -> number of failure bits (mapping, stream, session, bridge, tunnel)


def fault_cases(rng, thorough):
    """every failure pattern of the sub-component Close calls of each composite shutdown path, 1 or 3 concurrent callers"""
    cs = []
    for comp, nbits in FAULT_SUBS.items():
        masks = list(range(1 << nbits))
        if comp == 0:
            masks = [m for m in masks if not m & 2]       # bit 1 (the tunnel manager) cannot be made to fail
        if not thorough and len(masks) > 6:
            masks = [0, (1 << nbits) - 1] + rng.sample(masks[1:-1], 4)
        for m in masks:
            for k in ((1, 3) if thorough else (rng.choice([1, 3]),)):
                cs.append({"mode": "fault_close", "side": comp, "reads": m, "k": k})
    return cs


def attach_cases(rng, thorough):
    """histories over {close, attach target, attach source, lifecycle end}; every history is ended by the lifecycle's final Close"""
    import itertools as it
    ops = ["close", "attach_target", "attach_source", "lifecycle"]
    out = []
    for n in range(0, 4):
        for seq in it.product(ops, repeat=n):
            ok, open_t, open_s = True, False, True           # the source side starts attached
            for op in seq:
                if op in ("close", "lifecycle"):
                    open_t = open_s = False
                elif op == "attach_target":
                    ok, open_t = ok and not open_t, True
                else:
                    ok, open_s = ok and not open_s, True
            if ok:
                out.append({"mode": "bridge_attach", "events": [{"op": op} for op in seq]})
    if not thorough:
        few = [c for c in out if len(c["events"]) <= 2 or sum(e["op"] == "lifecycle" for e in c["events"]) == 0]
        out = few + rng.sample([c for c in out if c not in few], 6)
    return out


def gen_resmgr_hist(rng):
    evs, ids = [], [1, 2, 3, 4]
    for _ in range(rng.choice([2, 4, 6, 9])):
        x = rng.random()
        if x < 0.5:
            evs.append({"op": "register", "a": rng.choice(ids), "b": 1 if rng.random() < 0.3 else 0})
        elif x < 0.7:
            evs.append({"op": "unregister", "a": rng.choice(ids)})
        else:
            evs.append({"op": "dispose_all"})
    return {"mode": "res_mgr", "events": evs}


def resmgr_cases(rng, thorough):
    """ResourceManager: sequential Register / Unregister / DisposeAll histories (compared with the model), the timeout path
    of DisposeWithTimeout with a resource (id >= 100) that blocks until the gate opens, DisposeAll while another is parked,
    concurrent DisposeAll"""
    E = lambda *xs: [dict(zip(("op", "a", "b"), x if isinstance(x, tuple) else (x,))) for x in xs]
    cs = [{"mode": "res_mgr", "events": E(("register", 1, 0), ("register", 100, 0), ("timeout", 30), "gate"), "timeout_path": True},
          {"mode": "res_mgr", "events": E(("register", 100, 1), ("timeout", 20), "gate", ("register", 2, 0), ("timeout", 500)), "timeout_path": True},
          {"mode": "res_mgr", "events": E(("register", 1, 1), ("register", 2, 0), ("timeout", 500), ("register", 3, 0), "dispose_all")},
          {"mode": "res_mgr", "events": E(("register", 1, 0), ("register", 2, 1), ("register", 1, 0), ("unregister", 2), ("race", 4))},
          {"mode": "res_mgr", "events": E(("register", 100, 0), "dispose_all", ("register", 5, 0), "dispose_all", "gate", "dispose_all")},
          {"mode": "res_mgr", "events": E(("register", 1, 0), ("register", 2, 0), ("register", 3, 1), ("race", 8), ("register", 4, 0), ("race", 2))}]
    # Register calls made WHILE a DisposeAll runs: from inside a resource's Dispose (ids 200..299 register id+100) and from
    # another goroutine while a gated resource (100..199) holds the loop
    for l0 in ([1, 2], [1, 2, 3], [4]):
        pre = [("register", i, 0) for i in l0]
        cs += [{"mode": "res_mgr", "events": E(*pre, ("register", 100, 0), "dispose_all", ("register", 5, 0), ("register", 6, 0), "gate"), "during": True},
               {"mode": "res_mgr", "events": E(*pre, ("register", 200, 0), "dispose_all"), "during": True},
               {"mode": "res_mgr", "events": E(*pre, ("register", 201, 0), ("register", 7, 0), ("register", 202, 0), "dispose_all"), "during": True},
               {"mode": "res_mgr", "events": E(*pre, ("register", 100, 0), ("timeout", 30), ("register", 8, 0), "gate"), "during": True}]
    cs += [gen_resmgr_hist(rng) for _ in range(400 if thorough else 60)]
    return cs


def round6_cases(thorough):
    """a periodic stats report of the mapping handler parked in its upload while Stop runs the final report (byte conservation
    oracle); a bridge with unreported traffic closed while the statistics backend does not answer (each costs the 5 s guard)"""
    cs = [{"mode": "mapping_stats", "point": a, "reads": b, "side": f} for a, b in ((1000, 0), (1000, 60)) + (((7, 4096), (64, 2)) if thorough else ()) for f in (0, 1)]
    # quick: the lifecycle-shaped case comes from corpus/C16/20_* (each hung-backend case costs the 5 s production guard)
    cs += [{"mode": "bridge_hung_backend", "side": sd} for sd in ((0,) if thorough else ())]
    return cs


def round8_cases(thorough):
    """the mapping handler stopped while 0 / 1 / several tunnels created by its own handleConnection are alive; a tunnel
    registered under the id of a tunnel that is inside its Close (gated) or has finished it"""
    return [{"mode": "mapping_live", "k": k} for k in ((0, 1, 3, 6) if thorough else (0, 1, 3))] + [{"mode": "tunnel_reregister", "side": sd} for sd in (0, 1)]


def round9_cases(thorough):
    """a close notification between RegisterTunnel and Start inside handleConnection (slot released exactly once); the copy
    loop leaving through its context check while the source keeps streaming (counter == delivered)"""
    cs = [{"mode": "mapping_window", "k": k, "reads": m, "side": sd} for k, m in ((1, 1), (3, 2), (3, 7), (2, 0)) for sd in (0, 1)]
    cs += [{"mode": "copy_ctx_exit", "side": 0, "point": p, "reads": r} for p, r in ((1, 100), (100, 9000), (7, 15000))]
    cs += [{"mode": "copy_ctx_exit", "side": 1, "point": 50, "reads": 12000}]
    # round 10: ReadExact / ReadExactZeroCopy pending on a polling reader ((0, nil) when idle, no Close) when Close arrives
    cs += [{"mode": "stream_poll", "k": k} for k in (0, 1)]
    return cs


def throttle_cases(thorough):
    """a bandwidth-limited bridge (100 B/s .. 1 KB/s) closed while a copy direction holds one chunk far larger than the bucket"""
    base = [(100, 4096, 1), (1024, 32768, 2)] + ([(256, 8192, 3), (1000, 16384, 1)] if thorough else [])
    return [{"mode": "bridge_throttle", "side": side, "reads": r, "point": p, "k": k} for side in (0, 1) for r, p, k in base]


def overlap_cases(thorough):
    """closer A parked inside the stream Close of a session connection; k more closers (mask: 1 = SessionManager.Close)"""
    ks = [(1, 0), (1, 1), (2, 0), (2, 1), (3, 0), (3, 5)] + ([(2, 2), (3, 2), (3, 7)] if thorough else [])
    return [{"mode": "session_overlap", "side": side, "k": k, "reads": m} for side in (0, 1) for k, m in ks]


def race_cases(rng, thorough):
    m = 25 if thorough else 1
    cs = []
    # Tunnel.Close: 2000 trials quick / 50000 thorough, barrier-released closers (+ the tunnel's own completion paths)
    cs += [{"mode": "tunnel_race", "reasons": [0] * 8, "trials": 700 * m},
           {"mode": "tunnel_race", "reasons": [3] * 16, "trials": 300 * m},
           {"mode": "tunnel_race", "reasons": [rng.choice([0, 1, 2, 3, 4, 5]) for _ in range(4)], "trials": 400 * m},
           {"mode": "tunnel_race", "reasons": [0] * 4, "trials": 300 * m, "own": True},
           {"mode": "tunnel_race", "reasons": [0] * 6, "trials": 300 * m, "started": True, "own": True}]
    cs += [{"mode": "dispose_race", "handlers": [[0, 0], [1, 1], [2, 0], [3, 1]], "k": k, "trials": 250 * m} for k in (2, 8)]
    cs += [{"mode": "bridge_race", "k": 4, "trials": 60 * m, "started": True, "own": True},
           {"mode": "bridge_race", "k": 8, "trials": 60 * m}]
    cs += [{"mode": "bridge_startrace", "k": 2, "trials": 150 * m}, {"mode": "bridge_startrace", "k": 3, "trials": 150 * m, "started": True}]
    # closers released through a SPIN barrier (a channel broadcast staggers the wake-ups too much to hit a check-then-act latch)
    cs += [{"mode": "spin_close", "side": 0, "k": 4, "trials": 4000 * m}] + [{"mode": "spin_close", "side": sd, "k": 4, "trials": 800 * m} for sd in (1, 2, 3)]
    cs += [{"mode": "stream_race", "k": 4, "trials": 300 * m}]
    cs += [{"mode": "storage_race", "k": 4, "trials": 60 * m}]
    cs += [{"mode": "session_race", "k": 4, "trials": 20 * m}]
    cs += [{"mode": "bridge_close_gate", "k": n} for n in ((100, 7, 4096) if thorough else (100, 7))]
    cs += [{"mode": "stream_gate", "reads": r} for r in (1, 2, 3)]
    return cs


# ----------------------------------------------------------------------------------------------
# model values
# ----------------------------------------------------------------------------------------------

def zenc(z):
    return [z < 0, abs(z)]


def case_value(c, o, tunnel_fixed, traffic_fixed, stream_fixed=True, start_ctx_first=True, start_spawns=3, writer_holds=False, flags=None):
    flags = flags or {"lock_first": True, "mapping_early_return": False, "bridge_fast_path": False, "remove_first": True, "chan_buffered": True, "dispose_copies": True, "throttle_ctx": True, "stats_swap": True, "cleanup_guarded": True, "cp_ctx": True, "cp_tail": True, "cp_defer": False, "cp_threshold": 1048576}
    m = c["mode"]
    if m == "tunnel_start":
        sd = o["steps_done"]
        if sd == -1:       # Close landed inside manager.Ctx(), i.e. in the argument evaluation of the SetCtx statement
            sd = 0 if start_ctx_first else 1
        elif sd == -2:     # Start had returned before the point was reached
            sd = start_spawns + 4
        return [5, start_ctx_first, start_spawns, sd, [o["state"], o["on_closed"], 1 if o["start_ok"] else 0, 1 if o["left"] else 0]]
    if m == "session_overlap":
        return [10, flags["remove_first"], bool(c["side"]), [bool(c["reads"] >> i & 1) for i in range(max(1, c["k"]))], o["stream_closes"]]
    if m == "copy_ctx_exit":
        delivered = o["delivered"] // max(1, c["point"])
        return [17, flags["cp_ctx"], flags["cp_tail"], flags["cp_defer"], flags["cp_threshold"], c["point"], delivered, c["side"] == 0, o["counter"], o["total"]]
    if m == "mapping_stats":
        return [15, flags["stats_swap"], c["point"], c["reads"], bool(c["side"]), zenc(o["up_sent"]), zenc(o["local_sent"])]
    if m == "bridge_hung_backend":
        return [16, flags["cleanup_guarded"], bool(o["returned"])]
    if m == "bridge_throttle":
        return [14, flags["throttle_ctx"], max(1, c.get("k", 1)), bool(o["close_returned"]), bool(o["start_returned"])]
    if m == "res_mgr" and c.get("during"):
        evs = o["events"]
        start = max(i for i, e in enumerate(evs) if e[0] == 2)
        l0 = [e[1] for e in evs[:start] if e[0] == 1]
        after = [0 if e[0] == 0 else [e[1]] for e in evs[start + 1:] if e[0] in (0, 1)]
        nd = sum(1 for e in evs[start + 1:] if e[0] == 0)
        return [13, not flags["dispose_copies"], l0, after, list(o["dispose_log"])[-nd:] if nd else [], [int(n[1:]) for n in o["still_registered"]]]
    if m == "res_mgr":
        if c.get("timeout_path"):
            return [12, flags["chan_buffered"], bool(o["left"])]
        ops = [[{"register": 0, "unregister": 1, "dispose_all": 2}[e["op"]], e.get("a", 0), bool(e.get("b", 0))] for e in c["events"]]
        return [11, ops, list(o["dispose_log"]), [{"ok": 0, "err": 1}.get(r, r) for r in o["results"]]]
    if m == "stream_queue":
        return [7, flags["lock_first"], bool(c.get("started")), o["b_result"] == "err", o["b_calls"] > 0]
    if m == "fault_close":
        # sub-components in the order their shutdown was first invoked, then those never invoked
        names = [n for n in o["order"] if n in o["subs"]] + [n for n in o["subs"] if n not in o["order"]]
        bits = {0: {"stats": 0, "adapter": 2}, 1: {"writer": 0, "reader": 1}, 2: {"unsubscribe": 0, "conn0": 1, "conn1": 2, "bus": 3},
                3: {"source-tc": 0, "target-tc": 1}, 4: {"local": 0, "rwc": 1}}[c["side"]]
        subs = [[o["subs"].index(n), bool(n in bits and c["reads"] >> bits[n] & 1)] for n in names]
        # only the mapping handler returns its adapter's error; the stats report / the other components swallow or collect errors
        for sb, n in zip(subs, names):
            if n == "stats":
                sb[1] = False
        early = flags["mapping_early_return"] if c["side"] == 0 else False
        return [8, early, subs, [o["counts"][o["subs"].index(n)] for n in names]]
    if m == "bridge_attach":
        terms = []
        for side, first in (("source", True), ("target", False)):
            evs = [True] if first else []
            obs = []
            for e in c["events"]:
                if e["op"] in ("close", "lifecycle"):
                    evs.append(False)
                elif e["op"] == "attach_" + side:
                    evs.append(True)
            obs = [n for nm, n in zip(o["names"], o["tc_closes"]) if nm.startswith(side)]
            terms.append([9, flags["bridge_fast_path"], evs, obs])
        return terms
    if m == "bridge_stall":
        # only the target->source direction goes through dynamicSourceWriter; the source->target copy holds no lock
        return [6, bool(writer_holds) and c["side"] == 0, max(1, c.get("k", 1)), bool(o["close_returned"])]
    if m == "dispose_hist":
        res = [None if r is None else [list(r)] for r in o["results"]]
        return [0, [list(h) for h in c["handlers"]], o["closers"], [list(a) for a in o["adds"]], list(o["sched"]),
                list(o["runlog"]), res, list(o["errors"])]
    if m == "tunnel_seq":
        ths, sched = [], []
        for i, e in enumerate(c["events"]):
            ths.append([1, 0] if e["op"] == "start" else [0, 2 if e["op"] == "peer" else e["a"]])
            sched += [i] * 12
        live = c.get("started") or any(e["op"] == "start" for e in c["events"])
        obs = [o["on_closed"], o["unreg"], o["notes"], 9 if live else o["local_closes"], 9 if live else o["rwc_closes"], o["state"]]
        return [1, tunnel_fixed, 1 if c.get("started") else c["state"], ths, sched, obs]
    if m == "tunnel_sched":
        obs = [o["on_closed"], o["unreg"], o["notes"], o["local_closes"], o["rwc_closes"], o["state"]]
        return [2, tunnel_fixed, c["state"], list(c["reasons"]), [bool(p) for p in c["parks"]], list(c["order"]), obs]
    if m == "traffic_gate":
        return [3, bool(o["serial"]), [zenc(a) for a in o["adds"]], o["reporters"], list(o["sched"]), zenc(o["stats_sent"]),
                [zenc(d) for d in o["deltas_sent"]], zenc(o["last_sent"])]
    if m == "stream_gate":
        res = o.get("result", "")
        return [4, c["reads"], stream_fixed, 2 if res.startswith("panic") else (1 if res == "err" else 0), o.get("after") == "err"]
    return None


def run(ctx, only_cases=None):
    thorough = ctx.tier == "thorough"
    binary = vlib.build_harness("C16")
    gen_text = vlib.harness_text(binary, ["gen"])
    gen_changed = vlib.write_if_changed(os.path.join(vlib.COQ, "Gen", "C16.v"), gen_text)
    flag = lambda name: re.search(r"Definition %s : bool := (true|false)\." % name, gen_text).group(1) == "true"
    tunnel_fixed, traffic_fixed = flag("TunnelCloseCasRetried"), flag("TrafficReportSerialised")
    stream_fixed = not flag("StreamCloseNilsReader")
    start_ctx_first, writer_holds = flag("TunnelStartSetCtxBeforeCas"), flag("SourceWriterHoldsLockAcrossWrite")
    flags3 = {"lock_first": flag("StreamLockBeforeClosedCheck"), "mapping_early_return": flag("MappingCleanupEarlyReturn"),
              "bridge_fast_path": flag("BridgeCloseFastPath"), "remove_first": flag("CloseConnectionRemovesFirst"),
              "chan_buffered": flag("DisposeResultChanBuffered"), "dispose_copies": flag("DisposeAllCopiesOrder"),
              "throttle_ctx": flag("ThrottleWaitUsesContext"), "stats_swap": flag("MappingStatsSwaps"),
              "cleanup_guarded": flag("BridgeCleanupReportGuarded"), "cp_ctx": flag("CopyFlushCtx"), "cp_tail": flag("CopyFlushTail"),
              "cp_defer": flag("CopyFlushDefer"),
              "cp_threshold": int(re.search(r"Definition BatchUpdateThreshold : N := (\d+)%N\.", gen_text).group(1))}
    start_spawns = int(re.search(r"Definition TunnelStartSpawns : nat := (\d+)\.", gen_text).group(1))
    broken = None
    try:
        pinfo = vlib.coq_properties("C16")
        vlib.coq_make(["Proofs/SideC16.vo"])
        vlib.proof_coverage(ctx, pinfo, "make -C coq Properties/C16.vo Proofs/SideC16.vo && coqc Properties/C16.v (Print Assumptions audit)",
                            extra_obligations=22)
    except vlib.Broken as b:
        broken = b
    ibin = None
    try:
        ibin = build_instrumented(binary)
    except vlib.Broken as b:
        broken = broken or b

    if only_cases is not None:
        cases = only_cases
    else:
        corpus = []
        cdir = os.path.join(vlib.VERIF, "corpus", "C16")
        for fn in sorted(os.listdir(cdir)) if os.path.isdir(cdir) else []:
            if fn.endswith(".json"):
                corpus.append(json.load(open(os.path.join(cdir, fn))))
        cases = corpus + [TRAFFIC_WITNESS, TRAFFIC_NEG_WITNESS]
        cases += [gen_dispose_hist(ctx.rng) for _ in range(3000 if thorough else 300)]
        cases += exhaustive_dispose(6 if thorough else 4)
        cases += [gen_tunnel_seq(ctx.rng) for _ in range(1500 if thorough else 150)]
        cases += [gen_traffic_gate(ctx.rng) for _ in range(3000 if thorough else 250)]
        cases += tunnel_sched_cases(ctx.rng, thorough)
        cases += start_close_cases(ctx.rng, thorough)
        cases += stall_cases(thorough)
        cases += queue_cases() + fault_cases(ctx.rng, thorough) + attach_cases(ctx.rng, thorough)
        cases += resmgr_cases(ctx.rng, thorough) + overlap_cases(thorough) + throttle_cases(thorough) + round6_cases(thorough) + round8_cases(thorough) + round9_cases(thorough)
        cases += race_cases(ctx.rng, thorough)
    is_instr = lambda c: c["mode"] == "tunnel_sched" or (c["mode"] == "tunnel_start" and c["point"] >= 0)
    plain = [c for c in cases if not is_instr(c)]
    instr = [c for c in cases if is_instr(c)]
    outs = {}
    for c, o in zip(plain, vlib.run_harness(binary, plain, timeout=2400, env={"VERIF_REPO": vlib.REPO})):
        outs[id(c)] = o
    if instr and ibin:
        for c, o in zip(instr, vlib.run_harness(ibin, instr, timeout=1200)):
            outs[id(c)] = o
    done = [(c, outs[id(c)]) for c in cases if id(c) in outs]

    # ---- the property predicate, evaluated by the harness on the real code ----
    nfail, per_key = 0, {}
    for c, o in done:
        if not o["prop_ok"]:
            nfail += 1
            per_key[o["key"]] = per_key.get(o["key"], 0) + 1
            if per_key[o["key"]] <= 1:
                key = o["key"]
                # the two repaired defects are known findings only on a tree that still has the pinned shape
                if (key == "tunnel-close-double-body" and tunnel_fixed) or (key == "traffic-double-report" and traffic_fixed):
                    key += ":on-repaired-tree"
                ctx.violation(key, "real code, mode %s: %s" % (c["mode"], o["prop_msg"]), {"case": c, "observed": o})
    leaks = [(c, o) for c, o in done if o.get("leak")]
    race_info = race_detector_oracle(ctx, thorough) if only_cases is None else {"skipped": "replay"}

    # ---- model vs implementation on the deterministic modes ----
    # stream_gate reads=1 parks inside io.ReadFull, which holds its own copy of the reader: outside the model's granularity
    det = [(c, o) for c, o in done if c["mode"] in ("dispose_hist", "tunnel_seq", "tunnel_sched", "traffic_gate", "stream_gate",
                                                     "tunnel_start", "bridge_stall", "stream_queue", "fault_close", "bridge_attach", "session_overlap", "res_mgr", "bridge_throttle", "mapping_stats", "bridge_hung_backend", "copy_ctx_exit") and ("counter" in o or c["mode"] != "copy_ctx_exit")
           and ("up_sent" in o or c["mode"] != "mapping_stats") and ("returned" in o or c["mode"] != "bridge_hung_backend")
           and o.get("key") != "bridge-throttle-setup" and ("start_returned" in o or c["mode"] != "bridge_throttle")
           and not (c["mode"] == "res_mgr" and not c.get("timeout_path") and not c.get("during") and any(e["op"] not in ("register", "unregister", "dispose_all") or e.get("a", 0) >= 100 for e in c["events"]))
           and ("stream_closes" in o or c["mode"] != "session_overlap") and ("dispose_log" in o or c["mode"] != "res_mgr")
           and o.get("key") not in ("stream-queue-setup", "fault-setup") and ("counts" in o or c["mode"] != "fault_close")
           and ("b_result" in o or c["mode"] != "stream_queue")
           # ReadExact / WriteExact re-test the context inside their loop before every call: on a check-before-lock tree they
           # still make no late call, which the coarser check-first model variant does not express (predicate still applies)
           and not (c["mode"] == "stream_queue" and c["k"] in (1, 4) and not flags3["lock_first"]) and ("names" in o or c["mode"] != "bridge_attach") and "steps_done" in (o if c["mode"] == "tunnel_start" else {"steps_done": 0})
           and o.get("key") != "bridge-stall-setup"
           and not (c["mode"] == "stream_gate" and c["reads"] < 2) and o.get("key") not in ("dispose-hang", "tunnel-hang", "traffic-hang", "stream-gate-hang")]
    terms, det2 = [], []
    for c, o in det:
        t = case_value(c, o, tunnel_fixed, traffic_fixed, stream_fixed, start_ctx_first, start_spawns, writer_holds, flags3)
        for tt in (t if c["mode"] == "bridge_attach" else [t]):
            terms.append(tt)
            det2.append((c, o))
    det = det2
    mism = []
    try:
        res = vlib.model_eval("C16", terms)
        mism = [i for i, ok in enumerate(res) if not ok]
        small = [i for i in range(len(terms)) if len(json.dumps(terms[i])) < 400]
        step = max(1, len(small) // 32)
        small = small[::step][:36]
        vm_bad = sorted(small[k] for k in vlib.vm_crosscheck("C16", [terms[i] for i in small]))
        if vm_bad != sorted(i for i in small if not res[i]):
            raise vlib.Broken("extracted runner and vm_compute disagree on the C16 model", str(vm_bad))
        ctx.coverage["vm_compute_crosschecked_cases"] = len(small)
    except vlib.Broken as b:
        broken = broken or b
    for i in mism[:3]:
        c, o = det[i]
        if o["prop_ok"] or o["key"] in ctx.known:
            ctx.violation("model-mismatch:" + c["mode"],
                          "Corr/C16.check: the Shutdown model (variant tunnel_fixed=%s traffic_fixed=%s stream_fixed=%s start_ctx_first=%s writer_holds_lock=%s %s) "
                          "and the real code disagree on a replayed %s history" % (tunnel_fixed, traffic_fixed, stream_fixed, start_ctx_first, writer_holds, flags3, c["mode"]), {"case": c, "observed": o}, found_input=not o["prop_ok"])

    # ---- coverage ----
    nontriv = set()
    dist = {}
    for c, o in done:
        dist[c["mode"]] = dist.get(c["mode"], 0) + 1
        if c["mode"] == "dispose_hist":
            closes = sum(1 for e in c["events"] if e["op"] == "close")
            if closes >= 2 or (closes >= 1 and any(e["op"] == "add" for e in c["events"])):
                nontriv.add(json.dumps(c, sort_keys=True))
        elif c["mode"] == "tunnel_sched" and sum(c["parks"]) >= 2:
            nontriv.add(json.dumps(c, sort_keys=True))
        elif c["mode"] == "tunnel_seq" and len(c["events"]) >= 2:
            nontriv.add(json.dumps(c, sort_keys=True))
        elif c["mode"] == "traffic_gate":
            starts = {e["a"] for e in c["events"] if e["op"] == "start"}
            if len(starts) >= 2 and any(e["op"] == "add" and e["a"] > 0 for e in c["events"]):
                nontriv.add(json.dumps(c, sort_keys=True))
        elif c["mode"] == "tunnel_start" and o.get("closed_inside"):
            nontriv.add(json.dumps(c, sort_keys=True))
        elif c["mode"] == "bridge_stall" or (c["mode"] == "stream_queue" and o.get("b_parked_on_lock")):
            nontriv.add(json.dumps(c, sort_keys=True))
        elif c["mode"] == "stream_poll" or (c["mode"] == "mapping_window" and c["reads"] != 0) or c["mode"] == "copy_ctx_exit" or (c["mode"] == "mapping_live" and c["k"] > 0) or c["mode"] == "tunnel_reregister" or c["mode"] in ("mapping_stats", "bridge_hung_backend") or c["mode"] == "session_overlap" or (c["mode"] == "res_mgr" and len(c["events"]) >= 3) or (c["mode"] == "bridge_throttle" and o.get("parked_in_throttle")):
            nontriv.add(json.dumps(c, sort_keys=True))
        elif c["mode"] == "fault_close" and c["reads"] != 0:
            nontriv.add(json.dumps(c, sort_keys=True))
        elif c["mode"] == "bridge_attach" and any(e["op"].startswith("attach") for e in c["events"]):
            nontriv.add(json.dumps(c, sort_keys=True))
    trials = sum(o.get("trials", 0) for c, o in done if c["mode"].endswith("race") or c["mode"] == "spin_close")
    samples = []
    for mode in ("dispose_hist", "tunnel_sched", "traffic_gate", "tunnel_start", "bridge_stall", "stream_queue", "fault_close", "bridge_attach", "res_mgr", "session_overlap", "bridge_throttle", "mapping_stats", "bridge_hung_backend", "tunnel_race"):
        for c, o in done:
            if c["mode"] == mode:
                samples.append({"case": c, "observed": {k: v for k, v in o.items() if k not in ("prop_msg",)}})
                break
    ctx.coverage.update({
        "evaluations": len(done), "distinct_nontrivial": len(nontriv),
        "rule": "deterministic histories replayed on the real code through gated doubles and compared with the extracted model: Dispose "
                "(close/release-handler/add events; random + every event sequence up to length %d over {close0, close1, release, add}), "
                "Tunnel.Close sequential histories, Tunnel.Close park schedules on a statement-instrumented copy of the working tree's Close "
                "(every subset of 2-3 closers parked between Load and CAS x every release order x both start states), reportTrafficStats "
                "histories through a cloud-control double that parks every call, ONE complete Close at every point inside Tunnel.Start (the "
                "manager double's Ctx() accessor + every statement boundary of the instrumented Start), Bridge.Close by 1-3 callers while a "
                "forwarding write is blocked on a stalled source / target peer (watchdog 3 s), a stream-processor operation B (5 kinds) parked on "
                "the read / write lock behind an in-flight A while Close runs and returns (goroutine-dump poll), every failure pattern of the "
                "sub-component Close calls of the composite shutdown paths (mapping handler, StreamProcessor, SessionManager, Bridge, Tunnel) "
                "with 1 or 3 concurrent callers, attach-after-close histories of the bridge up to length 3 ended by the lifecycle's Close, ResourceManager histories "
                "(Register / Unregister / DisposeAll, the timeout path of DisposeWithTimeout with a gated slow resource, DisposeAll while "
                "another is parked, concurrent DisposeAll, Register calls made while a DisposeAll runs - re-entrant from a resource's Dispose and "
                "from another goroutine), bandwidth-limited bridges closed while a copy direction waits for tokens, the mapping handler's periodic stats report parked in its "
                "upload while Stop runs the final report (byte conservation), a bridge closed while the statistics backend does not answer, a closer parked inside the stream Close of a session connection while 1-3 more "
                "closers (CloseConnection / SessionManager.Close) run. non-trivial = at least two closers/reporters really "
                "interleave (>=2 closes or close+add; >=2 parked closers; >=2 sequential ops; >=2 started reporters with a positive add; a Close that really landed inside Start; every stalled-peer case; a really parked queued operation; a non-empty failure mask; a history with an attach); "
                "distinct by the full case. Contention loops (K goroutines behind a barrier, exactly-once counters, goroutine-dump diff) are "
                "counted separately in contention_trials." % (6 if thorough else 4),
        "samples": samples,
        "contention_trials": trials,
        "race_detector_oracle": race_info,
        "model_vs_impl_cases": len(terms), "model_vs_impl_mismatches": len(mism), "impl_property_failures": nfail,
        "impl_property_failures_by_key": per_key,
        "goroutine_leak_reports": [o["leak"] for c, o in leaks][:5],
        "input_distribution": dist,
        "tree_variant": {"tunnel_close_cas_retried": tunnel_fixed, "traffic_report_serialised": traffic_fixed,
                         "stream_onclose_keeps_reader": stream_fixed,
                         "start_setctx_before_cas": start_ctx_first, "source_writer_holds_lock_across_write": writer_holds,
                         "stream_lock_before_closed_check": flags3["lock_first"], "mapping_cleanup_early_return": flags3["mapping_early_return"],
                         "bridge_close_fast_path": flags3["bridge_fast_path"],
                         "close_connection_removes_first": flags3["remove_first"], "dispose_result_chan_buffered": flags3["chan_buffered"],
                         "dispose_all_copies_order": flags3["dispose_copies"], "throttle_wait_uses_context": flags3["throttle_ctx"],
                         "mapping_stats_swaps": flags3["stats_swap"], "bridge_cleanup_report_guarded": flags3["cleanup_guarded"]},
        "tunnel_race_double_bodies_seen": sum(o.get("doubles", 0) for c, o in done if c["mode"] == "tunnel_race"),
        "generated_file_changed": gen_changed,
    })
    ctx.assumptions += [
        "partial: 'no goroutine or timer remains' and 'no panic' are runtime facts, checked only by the harness oracle (goroutine-dump diff "
        "filtered to repository frames after unblocking I/O; recover around every operation); timers are not observed",
        "theorems about Tunnel.Close, reportTrafficStats and StreamProcessor describe the repaired code (repository commits 2eb8bee, 8ffd47c, "
        "cedd5da); on a tree where a repair is reverted the harness compares with the pinned model variant and the Go-side predicate "
        "reports the failing schedule as a violation",
        "atomic-step granularity: one sync/atomic operation, one mutex-protected section, one collaborator call; the Go memory model below "
        "that (Go-memory-model data races on plain fields) is not modelled",
        "reportTrafficStats is modelled for one of its two symmetric counters and without cloud-control failures (a failed Get/Update returns "
        "before lastReported is stored, which preserves the invariant); one bridge per mapping",
        "contention loops are probabilistic: a race that does not manifest in a run is carried by the proofs and the deterministic replays",
    ]
    if broken is not None:
        raise broken


def replay(ctx, path):
    r = json.load(open(path))
    run(ctx, only_cases=[r["replay"]["case"]])

"""C02 — a tunnel is a transparent, ordered, loss-free byte pipe between its ends.

Drives the real tunnel.Bridge (CopyWithControl alone; Bridge.Start between two scripted ends under a gated schedule;
the same ungated; SessionManager.startSourceBridge/runBridgeLifecycle) through harness/cmd/c02, evaluates the
property's predicate on what the real code did, and diffs the projected observables with the extracted Coq model
(coq/Model/Pipe.v via coq/Corr/C02.v)."""
import hashlib
import json
import os
import re

import vlib

PROP = "C02"
BUF = 32768
LIMITS = [0, 1024, 2048, 4096, 8192, 16384, 1 << 20]     # all present in Gen/C02.limiter_table (burst = 2*limit proved there)
KNOWN_KEY = "limiter-burst-exceeded"
RACE_KEY = "start-nil-forwarder-race"
STALL_KEY = "stalled-report-blocks-forget"


# ------------------------------------------------------------------------------------------------
# case construction
# ------------------------------------------------------------------------------------------------

_GEN_CACHE = {}


def ent_bytes(e):
    if e.get("d"):
        return bytes.fromhex(e["d"])
    n = e.get("n", 0)
    f = e.get("fill", 0)
    if (n, f) not in _GEN_CACHE:
        _GEN_CACHE[(n, f)] = bytes(((f * 131 + i * 7 + (i >> 8)) & 0xFF) for i in range(n))
    return _GEN_CACHE[(n, f)]


def expand(rs):
    out = []
    for r in rs:
        out += [r] * max(1, r.get("rep", 0))
    return out


def readable(rs):
    out = b""
    for r in expand(rs):
        out += ent_bytes(r)
        if r["e"] >= 2:
            break
    return out


def rand_data(rng, n):
    if n <= 24:
        return {"d": bytes(rng.randrange(256) for _ in range(n)).hex()} if n else {"d": ""}
    return {"n": n, "fill": rng.randrange(1, 200)}


def rand_reads(rng, limit, budget_bytes, maxn=6, big_ok=True):
    """a read script whose total size stays within budget_bytes (so limiter waits stay short)"""
    rs = []
    left = budget_bytes
    burst = 2 * limit
    for _ in range(rng.randrange(0, maxn + 1)):
        k = rng.random()
        if k < 0.12:
            n = 0
        elif k < 0.55:
            n = rng.choice([1, 2, 3, 5, 8, 17, 64])
        elif k < 0.75 and limit:
            n = rng.choice([burst - 1, burst, burst + 1, burst + 7, limit, limit + 1])
        elif k < 0.9 and big_ok:
            n = rng.choice([BUF, BUF - 1, 4096, 1000, 20000])
        else:
            n = rng.randrange(1, 300)
        n = max(0, min(n, BUF, left))
        left -= n
        # 0 nil, 1 temporary timeout (retried), fatal kinds: 2 EOF, 3 plain, 4 PERMANENT timeout, 5 temporary non-timeout,
        # 6 unexpected EOF, 7 net.ErrClosed, 8 net.Error neither timeout nor temporary
        e = rng.choices([0, 1, 2, 3, 4, 5, 6, 7, 8], weights=[70, 12, 6, 4, 3, 2, 1, 1, 1])[0]
        ent = dict(rand_data(rng, n), e=e)
        if n == 0 and e == 0 and rng.random() < 0.5:
            ent["e"] = 1
        rs.append(ent)
        if e >= 2 and rng.random() < 0.8:
            break
    return rs


def rand_writes(rng, n, faulty):
    ws = []
    if not faulty:
        return [{"max": rng.choice([BUF, BUF, 1 << 20]), "err": False} for _ in range(rng.randrange(0, n + 1))]
    for _ in range(rng.randrange(1, n + 2)):
        k = rng.random()
        if k < 0.6:
            ws.append({"max": BUF, "err": False})
        elif k < 0.8:
            ws.append({"max": rng.choice([0, 1, 2, 7, 100]), "err": False})
        elif k < 0.9:
            ws.append({"max": rng.choice([0, 1, 5, BUF]), "err": True, "ek": rng.choice([0, 1, 1, 4, 5])})   # 1 = transient write timeout
        else:
            ws.append({"max": BUF, "err": True, "ek": rng.choice([0, 1, 1, 4])})
    return ws


def byte_budget(limit, quick=True):
    if limit == 0:
        return 70000
    return 2 * limit + int(limit * (0.25 if quick else 0.6))   # burst + a quarter second of tokens


def gen_copy(rng, n):
    out = []
    for _ in range(n):
        limit = rng.choice(LIMITS)
        c = {"mode": "copy", "limit": limit, "cancelled": rng.random() < 0.06,
             "r0": rand_reads(rng, limit, byte_budget(limit)), "w0": rand_writes(rng, 5, rng.random() < 0.35)}
        out.append(c)
    return out


def sched_for(rng, r0, r1):
    n0, n1 = 2 * len(expand(r0)) + 3, 2 * len(expand(r1)) + 3
    k = rng.random()
    body = [0] * rng.randrange(0, n0 + 1) + [1] * rng.randrange(0, n1 + 1)
    if k < 0.6:
        rng.shuffle(body)
    elif k < 0.8:
        body.sort(reverse=rng.random() < 0.5)
    tail = [0, 1] * (n0 + n1)
    if rng.random() < 0.5:
        tail = [1, 0] * (n0 + n1)
    return body + tail


def gen_bridge(rng, n, mode="bridge"):
    out = []
    for _ in range(n):
        limit = rng.choice([0, 0, 0] + LIMITS)
        bud = byte_budget(limit) // 2 if limit else 3000
        faulty = rng.random() < 0.3
        r0 = rand_reads(rng, limit, bud, maxn=5, big_ok=limit == 0 and rng.random() < 0.2)
        r1 = rand_reads(rng, limit, bud, maxn=5, big_ok=False)
        c = {"mode": mode, "limit": limit, "r0": r0, "w0": rand_writes(rng, 4, faulty and rng.random() < 0.7),
             "r1": r1, "w1": rand_writes(rng, 4, faulty and rng.random() < 0.7)}
        if mode == "bridge":
            c["sched"] = sched_for(rng, r0, r1)
            if limit == 0 and rng.random() < 0.25:
                c["sched"].insert(rng.randrange(0, len(c["sched"]) // 2 + 1), 2)   # the PARENT context is cancelled at this point
        else:
            c["end0"] = rng.choice(["hold", "hold", "eof"])
            c["end1"] = rng.choice(["hold", "hold", "eof"])
            c["sched"] = [0] * rng.randrange(3)
        out.append(c)
    return out


def gen_life(rng, n):
    out = []
    for _ in range(n):
        k = rng.randrange(2, 6)
        ids = [rng.randrange(0, 3) for _ in range(k)]
        ops = []
        for _ in range(rng.randrange(3, 2 * k + 4)):
            ops.append([rng.choice([0, 0, 1]), rng.randrange(k)])
        ops += [[1, i] for i in range(k)]          # in the end every bridge has ended: the map must be empty
        out.append({"mode": "life", "limit": rng.choice([0, 4096]), "ids": ids, "ops": ops})
    return out


def gen_stall(rng, n, n_long):
    """the stats backend hangs exactly when the bridge makes its final traffic report (gated cloud-control double)"""
    out = []
    for k in range(n + n_long):
        long = k < n_long
        ender = rng.choice([0, 1]) if long or rng.random() < 0.8 else 2
        def data(must):
            rs = [dict(rand_data(rng, rng.choice([1, 2, 3, 9, 64, 700])), e=0) for _ in range(rng.randrange(1 if must else 0, 4))]
            return rs
        zero = (not long) and rng.random() < 0.12            # nothing moved: no report is due, closure and forgetting still are
        r0 = [] if zero else data(ender == 0)
        r1 = [] if zero else data(ender == 1)
        out.append({"mode": "stall", "stall_on": rng.choice(["update", "get"]), "ender": ender, "long": long, "r0": r0, "r1": r1})
    return out


def gen_adapter(rng, n):
    """ends that are message-oriented transports (the bridge reaches them through streamDataForwarderAdapter), one-sided and
    two-sided traffic while both ends stay open: what one end sends must arrive although the other end is silent"""
    out = []
    combos = [(True, False), (False, True), (True, True), (False, False)]
    for k in range(n):
        w0, w1 = combos[k % 4]
        side = (k // 4) % 3                     # 0: only target->source bytes, 1: only source->target, 2: both
        def msgs():
            out = []
            for _ in range(rng.randrange(1, 4)):
                if out and rng.random() < 0.5:
                    out.append({"d": "", "e": 1})          # a transient timeout BETWEEN two data reads: the stream goes on
                out.append(dict(rand_data(rng, rng.choice([1, 5, 64, 900])), e=rng.choice([0, 0, 1])))   # or together with data
            return out
        c = {"mode": "free", "limit": 0, "wrap0": w0, "wrap1": w1, "deliver_ms": 600, "w0": [], "w1": [],
             "r0": msgs() if side in (1, 2) else [], "r1": msgs() if side in (0, 2) else [], "end0": "hold", "end1": "hold", "sched": []}
        out.append(c)
    return out


def gen_end_failure(rng, n):
    """one end FAILS (non-EOF read error) after some bytes while the opposite direction is idle: server bridge (raw and
    adapter-wrapped ends) and the half-close relay iocopy.Bidirectional"""
    out = []
    for k in range(n):
        data = [dict(rand_data(rng, rng.choice([1, 3, 40, 700])), e=0) for _ in range(rng.randrange(1, 3))]
        which = k % 2
        e = [3, 4, 5, 6, 7, 8, 2][k % 7]         # every non-retryable kind, see rand_reads
        if k % 4 == 3:
            data = []                           # the failure comes before any byte
        if k % 3 == 0:
            c = {"mode": "relay", "relay": "bidir", "fail_end": which, "fail_e": e, "r0": data if which == 0 else [], "r1": data if which == 1 else []}
            if rng.random() < 0.3:                      # the listener had sent something earlier, then went idle
                c["r1" if which == 0 else "r0"] = [dict(rand_data(rng, 7), e=0)]
        else:
            fail = data + ([{"d": "", "e": 1}] if k % 2 else []) + [{"d": "", "e": e}]     # sometimes a retryable timeout first
            if k % 5 in (1, 2):            # the last bytes come TOGETHER with the end of the stream / the failure: Read returns (n > 0, err)
                # (an adapter-wrapped end swallows an error that comes with data and asks again: only kinds that keep failing end it)
                fail = data + [dict(rand_data(rng, rng.choice([1, 7, 300])), e=(3 if e == 5 else e))]
            w = (k // 2) % 4
            c = {"mode": "free", "limit": 0, "wrap0": bool(w & 1), "wrap1": bool(w & 2), "w0": [], "w1": [],
                 "r0": fail if which == 0 else [], "r1": fail if which == 1 else [], "end0": "hold", "end1": "hold", "sched": []}
        out.append(c)
    return out


def gen_parent_cancel(rng, n):
    """the context the bridge was created under is cancelled (shutdown starts) while the tunnel is live; afterwards one end closes
    or fails: closure, Start's return and forgetting must still happen (free mode; reattach histories get a `pcancel` op)"""
    out = []
    for k in range(n):
        c = {"mode": "free", "limit": 0 if k % 4 else 4096, "pcancel": 1 if k % 5 else 2, "late_end": k % 2, "late_e": [0, 3, 4, 6, 7][k % 5],
             "wrap0": False, "wrap1": False, "w0": [], "w1": [], "end0": "hold", "end1": "hold", "sched": [],
             "r0": [dict(rand_data(rng, rng.choice([1, 9, 300])), e=0) for _ in range(rng.randrange(0, 3))],
             "r1": [dict(rand_data(rng, rng.choice([1, 9, 300])), e=0) for _ in range(rng.randrange(0, 3))]}
        out.append(c)
    return out


def gen_cancel_in_wait(rng, n):
    """a direction holds a chunk larger than the burst and is waiting for tokens (several seconds of pacing left) when the other
    end closes: the wait must be aborted — Start returns at once, not after the pacing of the chunk"""
    out = []
    for k in range(n):
        chunk = [dict(rand_data(rng, rng.choice([8192, 12000])), e=0)]
        c = {"mode": "free", "limit": 1024, "return_ms": 1500, "w0": [], "w1": [], "sched": [], "wrap0": False, "wrap1": False,
             "r0": chunk if k % 2 == 0 else [], "r1": chunk if k % 2 else [],
             "end0": "hold", "end1": "hold", "late_end": 1 if k % 2 == 0 else 0}    # the end that does NOT hold the chunk closes
        out.append(c)
    return out


def gen_reqresp(rng, n):
    """relay over transports with / without half-close: one direction ends early (EOF), the other still has N KB to deliver"""
    out = []
    for k in range(n):
        c = {"mode": "relay", "relay": "bidir", "flow": "reqresp", "fail_end": k % 2, "nocap_a": bool(k & 2), "nocap_b": bool(k & 4),
             "resp_kb": rng.choice([1, 31, 68, 130]), "delay_ms": rng.choice([0, 10000, 60000])}   # virtual pause before the 2nd half
        c["r0" if k % 2 == 0 else "r1"] = [dict(rand_data(rng, rng.choice([3, 40, 500])), e=0)]
        out.append(c)
    return out


def gen_backpressure(rng, n):
    """one peer sends while the other does not read (the bridge's write parks in the connection), then the sender goes away"""
    out = []
    for k in range(n):
        d = rand_data(rng, rng.choice([1, 3, 64, 1000, BUF]))
        c = {"mode": "backpressure", "dir": k % 2}
        c["r1" if k % 2 == 0 else "r0"] = [dict(d, e=0)]
        out.append(c)
    return out


def gen_reattach(rng, n):
    """source re-attach histories on a live bridge (SetSourceConnection while bytes flow both ways)"""
    def some(k):
        return bytes(rng.randrange(256) for _ in range(k)).hex()
    out = []
    for _ in range(n):
        h = []
        def sends(lo, hi):
            for _ in range(rng.randrange(lo, hi + 1)):
                h.append({"op": rng.choice(["tsend", "ssend"]), "d": some(rng.choice([1, 2, 5, 40, 900]))})
        sends(1, 3)
        for _ in range(rng.choice([1, 1, 1, 2, 3])):
            h.append({"op": "reattach"})
            if rng.random() < 0.25:
                h.append({"op": "reattach"})                       # re-attached twice before the old connection went away
            h.append({"op": "tsend", "d": some(rng.choice([1, 3, 17]))})
            sends(0, 2)
            if rng.random() < 0.85:
                h.append({"op": "closeold", "e": rng.choice([2, 2, 3])})
                sends(1, 3)
        if not any(o["op"] == "closeold" for o in h[-4:]) and h[-1]["op"] != "closeold":
            pass
        h.append({"op": "closeold", "e": 2})
        sends(0, 2)
        if rng.random() < 0.3:
            h.insert(rng.randrange(1, len(h) + 1), {"op": "pcancel"})     # shutdown starts somewhere in the history
        if rng.random() < 0.4:
            h.append({"op": "closerace"})       # Bridge.Close parked in the old source conn's Close() while the source re-attaches
        else:
            h.append({"op": "end", "who": rng.choice([0, 1])})
        out.append({"mode": "reattach", "hist": h})
    return out


def gen_stall_midstream(rng, n):
    """the stats backend is stuck for the whole life of the tunnel while >= 3 MiB flow in each direction (several 1 MiB counter
    batches): everything must arrive, closure must propagate and the tunnel must be forgotten"""
    out = []
    for k in range(n):
        reps = rng.choice([96, 100])
        out.append({"mode": "stall", "stall_on": "update", "arm_early": True, "ender": k % 2, "long": False, "big": True,
                    "r0": [{"n": BUF, "fill": 3 + k, "e": 0, "rep": reps}], "r1": [{"n": BUF - 1, "fill": 9 + k, "e": 0, "rep": reps}]})
    return out


def gen_stall_routing(rng, n):
    """the routing-table store's Delete at teardown is stalled (nothing fails): the tunnel map must forget the ended tunnel anyway"""
    out = []
    for k in range(n):
        out.append({"mode": "stall", "stall_on": "routing-delete", "ender": k % 3, "long": False,
                    "r0": [dict(rand_data(rng, rng.choice([1, 9, 300])), e=0) for _ in range(rng.randrange(0, 3))],
                    "r1": [dict(rand_data(rng, rng.choice([1, 9, 300])), e=0) for _ in range(rng.randrange(0, 3))]})
    return out


def gen_attachack(rng, n):
    """a connection joins an existing bridge through the real handleExistingBridge while the source end has bytes pending: its
    TunnelOpenAck must be on its wire before any tunnel byte"""
    out = []
    for k in range(n):
        out.append({"mode": "attachack",
                    "r0": [dict(rand_data(rng, rng.choice([1, 30, 900, 20000])), e=0) for _ in range(rng.randrange(1, 4))],
                    "r1": [dict(rand_data(rng, rng.choice([1, 30, 900])), e=0) for _ in range(rng.randrange(0, 3))]})
    return out


def gen_round10(rng, thorough):
    """(a) an end on a real loopback TCP connection whose stream has a transforming (XOR) reader/writer layer;
    (b) both directions busy under a low bandwidth limit: the bridge must stay up (quick: 0.4 s look, then the case ends the bridge;
    thorough: the full ~6 s pacing with complete delivery)"""
    out = []
    for k in range(4 if thorough else 2):
        out.append({"mode": "tcplayer", "limit": 0,
                    "r0": [dict(rand_data(rng, rng.choice([5, 900, 20000])), e=0)], "r1": [dict(rand_data(rng, rng.choice([3, 700])), e=0)]})
    out.append({"mode": "free", "limit": 4096, "stay_ms": 400, "w0": [], "w1": [], "end0": "hold", "end1": "hold", "sched": [],
                "wrap0": False, "wrap1": False, "r0": [{"n": 16384, "fill": 1, "e": 0}], "r1": [{"n": 16384, "fill": 2, "e": 0}]})
    if thorough:
        out.append({"mode": "free", "limit": 4096, "w0": [], "w1": [], "end0": "hold", "end1": "hold", "sched": [], "wrap0": False, "wrap1": False,
                    "r0": [{"n": 16384, "fill": 1, "e": 0}], "r1": [{"n": 16384, "fill": 2, "e": 0}]})
    return out


def stall_deterministic(c):
    """the direction that ends the tunnel has flushed >= 1 byte into its counter before it calls Close, so the final report
    made by Close's clean handler is due and parks in the stalled call"""
    return c["mode"] == "stall" and c.get("stall_on") != "routing-delete" and ((c["ender"] == 0 and len(readable(c["r0"])) > 0) or (c["ender"] == 1 and len(readable(c["r1"])) > 0))


def special_cases(thorough):
    cs = []
    # counter batching across BatchUpdateThreshold (1 MiB): 40 full buffers, then a remainder
    cs.append({"mode": "copy", "limit": 0, "r0": [{"n": BUF, "fill": 5, "e": 0, "rep": 40}, {"n": 777, "fill": 9, "e": 2}], "w0": []})
    # periodic context check: cancelled bridge, no limiter, 10000 temporary timeouts, then data that must NOT be copied
    cs.append({"mode": "copy", "limit": 0, "cancelled": True,
               "r0": [{"d": "0102", "e": 0}, {"d": "", "e": 1, "rep": 10000}, {"d": "0304", "e": 0}], "w0": []})
    if thorough:
        cs.append({"mode": "copy", "limit": 0, "r0": [{"n": BUF - 1, "fill": 7, "e": 1, "rep": 70}], "w0": [{"max": BUF, "err": False}] * 69 + [{"max": 5, "err": False}]})
        cs.append({"mode": "copy", "limit": 0, "cancelled": False,
                   "r0": [{"d": "", "e": 1, "rep": 20001}, {"d": "0a0b0c", "e": 2}], "w0": []})
    return cs


def load_corpus():
    d = os.path.join(vlib.VERIF, "corpus", PROP)
    out = []
    if os.path.isdir(d):
        for f in sorted(os.listdir(d)):
            if f.endswith(".json"):
                j = json.load(open(os.path.join(d, f)))
                out += j if isinstance(j, list) else [j]
    return out


# ------------------------------------------------------------------------------------------------
# model values
# ------------------------------------------------------------------------------------------------

def v_reads(rs):
    return [[ent_bytes(r), min(r["e"], 2)] for r in expand(rs)]


def v_writes(ws):
    return [[max(0, w["max"]), bool(w["err"])] for w in ws]


def case_value(c, o, sliced, bounded=False):
    lim = [2 * c["limit"]] if c.get("limit", 0) > 0 else None
    hb = bytes.fromhex
    if c["mode"] == "copy":
        obs = [hb(o["out0"]), o["total"], o["cnt0"], o["nrd"], o["nwr"]]
        return [0, sliced, lim, bool(c.get("cancelled")), v_reads(c["r0"]), v_writes(c["w0"]), [], [], [], obs]
    if c["mode"] == "bridge":
        closer = o["closer"] if o["closer"] in (0, 1) else 2
        obs = [hb(o["out0"]), hb(o["out1"]), o["cnt0"], o["cnt1"], closer]
        # a schedule that ends early is completed by the harness round-robin over the unfinished directions; steps of a
        # finished direction are no-ops in the model, so the same completion is a long enough 0,1,0,1,... tail
        tail = [0, 1] * (2 * (len(expand(c["r0"])) + len(expand(c["r1"]))) + 8)
        return [1, sliced, lim, False, v_reads(c["r0"]), v_writes(c["w0"]), v_reads(c["r1"]), v_writes(c["w1"]),
                list(c["sched"]) + tail, obs]
    if c["mode"] == "reattach":
        rs, sched = [], []
        for op in c["hist"][: o.get("ops_done", len(c["hist"]))]:      # the tunnel may end early once its parent context is cancelled
            if op["op"] == "tsend" and op.get("d"):
                rs.append([hb(op["d"]), 0])
                sched += [0, 0]
            elif op["op"] in ("reattach", "closerace"):
                sched.append(1)
        return [4, True, None, False, rs, [], [], [], sched, [hb(e) for e in o.get("ends") or []]]
    if c["mode"] == "stall":
        obs = [bool(o["src_closed"]), bool(o["tgt_closed"]), [bool(o["forgot_parked"])] if c.get("long") else None]
        return [3, True, [5] if bounded else None, False, [], [], [], [], [], obs]
    obs = [[bool(s["ok"]), s["count"]] for s in o.get("life") or []]
    return [2, sliced, None, False, list(c["ids"]), [list(op) for op in c["ops"]], [], [], [], obs]


def max_chunk(c):
    return max([len(ent_bytes(r)) for r in c.get("r0", []) + c.get("r1", [])] + [0])


def classify(c, o, sliced):
    """key of a Go-side predicate failure"""
    key = o.get("prop_key") or "predicate"
    if key == "incomplete" and not sliced and c.get("limit", 0) > 0 and max_chunk(c) > 2 * c["limit"]:
        return KNOWN_KEY
    if key == "reattach":
        return "reattach-bytes-to-stale-end" if "did not reach the attached source end" in (o.get("prop_msg") or "") else "reattach-tunnel-broken"
    if key == "stuck" and "waiting for limiter tokens" in (o.get("prop_msg") or ""):
        return "token-wait-not-aborted-by-closure"
    if key == "ack-order":
        return "tunnel-payload-before-open-ack"
    if key == "registry-routing":
        return "tunnel-map-waits-for-routing-store"
    if key == "stalled-stats":
        return "copy-loop-waits-for-stats-backend"
    if key == "deadline":
        return "deadline-set-on-live-direction"
    if key == "closed-early":
        return "relay-closed-under-live-direction"
    if key == "stalled":
        return "direction-waits-for-opposite-end"
    if key == "stuck" and c["mode"] == "relay":
        return "relay-closure-not-propagated"
    if key == "registry-parked":
        return STALL_KEY
    if key == "stuck" and c["mode"] == "stall":
        return "closure-waits-for-stats-report"
    return {"prefix": "delivered-not-a-prefix", "counter": "byte-counter-inexact", "incomplete": "incomplete-without-early-close",
            "not-closed": "end-not-closed", "stuck": "closure-not-observed", "registry": "tunnel-map-not-forgotten"}.get(key, key)


def shrink(binary, case, want_key, sliced):
    def fails(c):
        try:
            o = vlib.run_harness(binary, [c], timeout=120)[0]
        except vlib.Broken:
            return False
        return (not o["prop_ok"]) and classify(c, o, sliced) == want_key
    cur = json.loads(json.dumps(case))
    import time
    deadline = time.time() + 25          # a failing case may cost a whole watchdog period per attempt
    for _ in range(30):
        if time.time() > deadline:
            break
        changed = False
        for fld in ("r0", "r1", "w0", "w1", "ops"):
            lst = cur.get(fld) or []
            for i in range(len(lst)):
                if time.time() > deadline:
                    break
                t = dict(cur, **{fld: lst[:i] + lst[i + 1:]})
                if fails(t):
                    cur, changed = t, True
                    break
        if cur.get("sched") and len(cur["sched"]) > 2:
            t = dict(cur, sched=cur["sched"][: len(cur["sched"]) // 2])
            if fails(t):
                cur, changed = t, True
        if not changed:
            break
    return cur


# ------------------------------------------------------------------------------------------------

def run(ctx, only_cases=None):
    thorough = ctx.tier == "thorough"
    rng = ctx.rng
    binary = vlib.build_harness(PROP)
    gen_text = vlib.harness_text(binary, ["gen", vlib.REPO])     # also reads the lock paths from the syntax tree of this tree
    gen_changed = vlib.write_if_changed(os.path.join(vlib.COQ, "Gen", "%s.v" % PROP), gen_text)
    sliced = bool(re.search(r"probe_limiter_sliced\s*:\s*bool\s*:=\s*true", gen_text))
    broken = None
    try:
        pinfo = vlib.coq_properties(PROP)
        vlib.proof_coverage(ctx, pinfo, "make -C coq Properties/C02.vo && coqc Properties/C02.v (Print Assumptions audit)",
                            extra_obligations=6)   # the regenerated side conditions of Proofs/SideC02.v
    except vlib.Broken as b:
        broken = b

    if only_cases is not None:
        cases = only_cases
    else:
        cases = load_corpus() + special_cases(thorough)
        cases += gen_copy(rng, 1500 if thorough else 140)
        cases += gen_bridge(rng, 1500 if thorough else 130, "bridge")
        cases += gen_bridge(rng, 300 if thorough else 30, "free")
        cases += gen_life(rng, 200 if thorough else 25)
        cases += gen_stall(rng, 60 if thorough else 12, 6 if thorough else 2)
        cases += gen_backpressure(rng, 20 if thorough else 4)
        cases += gen_reattach(rng, 300 if thorough else 30)
        cases += gen_adapter(rng, 48 if thorough else 12)
        cases += gen_end_failure(rng, 112 if thorough else 28)
        cases += gen_reqresp(rng, 32 if thorough else 8)
        cases += gen_parent_cancel(rng, 40 if thorough else 10)
        cases += gen_cancel_in_wait(rng, 8 if thorough else 2)
        cases += gen_stall_midstream(rng, 4 if thorough else 1)
        cases += gen_stall_routing(rng, 12 if thorough else 3)
        cases += gen_attachack(rng, 16 if thorough else 4)
        cases += gen_round10(rng, thorough)
        if thorough:   # real loopback TCP, real 6.5 s pause of the remaining direction after the first one half-closed
            cases.append({"mode": "relay", "relay": "bidir", "flow": "reqresp", "fail_end": 0, "tcp": True, "delay_ms": 6500})
    # the start race can kill the harness process (nil dereference inside a goroutine of Bridge.Start): own process
    race_cases = [c for c in cases if c["mode"] == "startrace"]
    cases = [c for c in cases if c["mode"] != "startrace"]
    if only_cases is None:
        race_cases.append({"mode": "startrace", "budget_ms": 40000 if thorough else 4000})
    race_trials = 0
    for rc in race_cases:
        try:
            ro = vlib.run_harness(binary, [rc], timeout=600)[0]
            race_trials += ro.get("nrd", 0)
            if not ro["prop_ok"]:
                ctx.violation(classify(rc, ro, True), "real tunnel.Bridge (startrace mode): %s" % ro.get("prop_msg"), {"case": rc, "observed": ro})
        except vlib.Broken as b:
            d = b.detail or ""
            if "nil pointer dereference" in d and "CopyWithControl" in d and "Bridge).Start" in d:
                ctx.violation(RACE_KEY, "real tunnel.Bridge.Start: with the source end already at EOF, direction 0 closed the bridge before direction 1 "
                              "had read b.targetForwarder; CopyWithControl then called Read on a nil io.Reader and the process died "
                              "(panic: nil pointer dereference in a goroutine of Bridge.Start)", {"case": rc, "stderr_tail": d[-1500:]})
            else:
                broken = broken or b
    ctx.coverage["start_race_trials"] = race_trials
    outs = vlib.run_harness(binary, cases, timeout=1500) if cases else []

    # (iii) the property's own predicate, evaluated by the harness on the real code's behaviour
    nfail, reported = 0, {}
    for c, o in zip(cases, outs):
        if o["prop_ok"]:
            continue
        nfail += 1
        key = classify(c, o, sliced)
        if key in reported:
            continue
        reported[key] = True
        small, so = c, o
        if key not in ctx.known and only_cases is None and c["mode"] in ("copy", "bridge", "free", "life"):
            small = shrink(binary, c, key, sliced)
            so = vlib.run_harness(binary, [small], timeout=120)[0]
        ctx.violation(key, "real tunnel.Bridge (%s mode): %s" % (c["mode"], so.get("prop_msg") or o.get("prop_msg")),
                      {"case": small, "observed": {k: (v if not isinstance(v, str) or len(v) < 200 else v[:200] + "...") for k, v in so.items()}})

    # (ii) model vs implementation on the projected observables
    # (cases that push more than 150 KB are checked by the Go-side predicate only: the extracted list functions are not tail recursive)
    longs = [o["forgot_parked"] for c, o in zip(cases, outs) if c["mode"] == "stall" and c.get("long") and stall_deterministic(c) and o.get("parked")]
    bounded = bool(longs) and all(longs)       # does Close return while the stats call is parked (cleanup with a bounded wait)?
    idx = [i for i, c in enumerate(cases) if not outs[i].get("shutdown_ended") and (c["mode"] in ("copy", "bridge", "life", "reattach") or (stall_deterministic(c) and outs[i].get("parked"))) and not outs[i].get("stuck")
           and len(readable(c.get("r0", []))) + len(readable(c.get("r1", []))) <= 150000]
    terms = [case_value(cases[i], outs[i], sliced, bounded) for i in idx]
    mism = []
    try:
        res = vlib.model_eval(PROP, terms)
        mism = [idx[k] for k, ok in enumerate(res) if not ok]
        def script_bytes(c):
            return sum(len(ent_bytes(r)) * max(1, r.get("rep", 0)) + max(1, r.get("rep", 0)) for r in c.get("r0", []) + c.get("r1", []))
        small = [k for k, i in enumerate(idx) if script_bytes(cases[i]) < 200 and len(json.dumps(cases[i])) < 900]
        small = small[:: max(1, len(small) // 30)][:30]
        vm_bad = sorted(small[k] for k in vlib.vm_crosscheck(PROP, [terms[k] for k in small]))
        ext_bad = sorted(k for k in small if not res[k])
        if vm_bad != ext_bad:
            raise vlib.Broken("extracted runner and vm_compute disagree on the C02 model", "vm=%s extracted=%s" % (vm_bad, ext_bad))
        ctx.coverage["vm_compute_crosschecked_cases"] = len(small)
    except vlib.Broken as b:
        broken = broken or b
    for i in mism[:3]:
        if outs[i]["prop_ok"] and not ctx.violations:
            pred = None
            try:
                pred = vlib.model_eval(PROP, [case_value(cases[i], outs[i], sliced, bounded)], predict=True)[1][0]
            except Exception:
                pass
            ctx.violation("model-mismatch", "Corr/C02.check: the Pipe model (variant %s) and the real tunnel.Bridge disagree on a %s case "
                          "on which the Go-side predicate holds; the theorems of Properties/C02.v no longer speak about this code"
                          % ("Sliced" if sliced else "Pinned", cases[i]["mode"]),
                          {"case": cases[i], "observed": {k: v for k, v in outs[i].items() if not isinstance(v, str) or len(v) < 300},
                           "model_predicts": (pred or "")[:600]}, found_input=False)

    # coverage
    distinct, nontrivial = set(), set()
    dist = {"copy": 0, "bridge_gated": 0, "bridge_free": 0, "lifecycle": 0, "with_limiter": 0, "read_over_burst": 0,
            "write_faults": 0, "read_timeouts": 0, "read_errors": 0, "cancelled": 0, "both_directions_carry_data": 0,
            "bytes_through_real_code": 0, "closer_direction_0": 0, "closer_direction_1": 0, "duplicate_tunnel_ids": 0,
            "stats_backend_stalled": 0, "final_report_parked": 0, "forget_required_while_parked": 0,
            "write_parked_at_teardown": 0, "source_reattach_histories": 0, "reattaches": 0,
            "adapter_wrapped_end": 0, "one_sided_traffic_both_ends_open": 0, "end_fails_non_eof": 0, "half_close_relay": 0,
            "parent_context_cancelled": 0, "write_error_transient_timeout": 0, "bytes_with_error_on_adapter_end": 0, "close_during_token_wait": 0, "stats_backend_stuck_midstream_3MiB": 0, "routing_store_delete_stalled": 0, "join_with_pending_source_bytes": 0, "adapter_timeout_between_data": 0, "relay_pause_longer_than_any_deadline": 0, "permanent_timeout_failure": 0, "close_races_reattach": 0, "relay_end_without_half_close": 0, "early_eof_other_direction_live": 0}
    for c, o in zip(cases, outs):
        h = hashlib.sha256(json.dumps(c, sort_keys=True).encode()).hexdigest()
        distinct.add(h)
        m = c["mode"]
        dist["adapter_wrapped_end"] += bool(c.get("wrap0") or c.get("wrap1"))
        dist["one_sided_traffic_both_ends_open"] += m == "free" and bool(c.get("deliver_ms")) and (not c.get("r0") or not c.get("r1"))
        dist["end_fails_non_eof"] += (m == "relay" and c.get("fail_e", 0) >= 3) or (m in ("free", "bridge", "copy") and any(r["e"] >= 3 for r in c.get("r0", []) + c.get("r1", [])))
        dist["write_error_transient_timeout"] += any(w.get("err") and w.get("ek") == 1 for w in c.get("w0", []) + c.get("w1", []))
        dist["bytes_with_error_on_adapter_end"] += (bool(c.get("wrap0")) and any(r["e"] >= 2 and ent_bytes(r) for r in c.get("r0", []))) or \
            (bool(c.get("wrap1")) and any(r["e"] >= 2 and ent_bytes(r) for r in c.get("r1", [])))
        dist["close_during_token_wait"] += bool(c.get("return_ms"))
        dist["stats_backend_stuck_midstream_3MiB"] += bool(c.get("arm_early"))
        dist["routing_store_delete_stalled"] += c.get("stall_on") == "routing-delete"
        dist["adapter_timeout_between_data"] += bool(c.get("wrap0") or c.get("wrap1")) and any(r["e"] == 1 for r in c.get("r0", []) + c.get("r1", []))
        dist["parent_context_cancelled"] += bool(c.get("pcancel")) or (m == "bridge" and 2 in c.get("sched", [])) or any(op["op"] == "pcancel" for op in c.get("hist", []))
        dist["relay_pause_longer_than_any_deadline"] += m == "relay" and c.get("delay_ms", 0) >= 6000
        dist["permanent_timeout_failure"] += (m == "relay" and c.get("fail_e") == 4) or any(r["e"] == 4 for r in c.get("r0", []) + c.get("r1", []))
        dist["close_races_reattach"] += m == "reattach" and any(op["op"] == "closerace" for op in c.get("hist", []))
        if m == "relay":
            dist["half_close_relay"] += 1
            dist["relay_end_without_half_close"] += bool(c.get("nocap_a") or c.get("nocap_b"))
            dist["early_eof_other_direction_live"] += c.get("flow") == "reqresp"
            dist["bytes_through_real_code"] += o.get("len0", 0) + o.get("len1", 0)
            if o.get("returned"):
                nontrivial.add(h)
            continue
        if m == "tcplayer":
            dist["tcp_end_with_transforming_stream_layer"] = dist.get("tcp_end_with_transforming_stream_layer", 0) + 1
            dist["bytes_through_real_code"] += o.get("len0", 0) + o.get("len1", 0)
            if o.get("start_returned") and o.get("len0", 0) > 0:
                nontrivial.add(h)
            continue
        if m == "attachack":
            dist["join_with_pending_source_bytes"] += 1
            dist["bytes_through_real_code"] += o.get("len0", 0) + o.get("len1", 0)
            if o.get("start_returned") and o.get("len0", 0) > 0:
                nontrivial.add(h)
            continue
        if m in ("backpressure", "reattach"):
            dist["write_parked_at_teardown"] += m == "backpressure"
            dist["source_reattach_histories"] += m == "reattach"
            dist["reattaches"] += sum(1 for op in c.get("hist", []) if op["op"] == "reattach")
            dist["bytes_through_real_code"] += o.get("len0", 0) + sum(len(e) // 2 for e in o.get("ends") or [])
            if o.get("start_returned"):
                nontrivial.add(h)
            continue
        if m == "stall":
            dist["stats_backend_stalled"] += 1
            dist["final_report_parked"] += bool(o.get("parked"))
            dist["forget_required_while_parked"] += bool(c.get("long"))
            dist["bytes_through_real_code"] += o.get("len0", 0) + o.get("len1", 0)
            if o.get("parked") and o.get("src_closed") and o.get("tgt_closed"):
                nontrivial.add(h)
            continue
        dist[{"copy": "copy", "bridge": "bridge_gated", "free": "bridge_free", "life": "lifecycle"}[m]] += 1
        rs = c.get("r0", []) + c.get("r1", [])
        dist["with_limiter"] += c.get("limit", 0) > 0 and m != "life"
        dist["read_over_burst"] += c.get("limit", 0) > 0 and max_chunk(c) > 2 * c["limit"]
        dist["write_faults"] += any(w["err"] or w["max"] < BUF for w in c.get("w0", []) + c.get("w1", []))
        dist["read_timeouts"] += any(r["e"] == 1 for r in rs)
        dist["read_errors"] += any(r["e"] >= 2 for r in rs)
        dist["cancelled"] += bool(c.get("cancelled"))
        dist["bytes_through_real_code"] += o.get("len0", 0) + o.get("len1", 0)
        if m in ("bridge", "free") and o["len0"] and o["len1"]:
            dist["both_directions_carry_data"] += 1
        if m == "bridge":
            dist["closer_direction_%d" % o["closer"]] = dist.get("closer_direction_%d" % o["closer"], 0) + 1
        if m == "life" and len(set(c["ids"])) < len(c["ids"]):
            dist["duplicate_tunnel_ids"] += 1
        if (m == "copy" and o["len0"] > 0 and o["nrd"] >= 2) or (m in ("bridge", "free") and o["len0"] + o["len1"] > 0) \
                or (m == "life" and any(s["ok"] for s in o.get("life") or [])):
            nontrivial.add(h)
    pick = [0, len(cases) // 3, 2 * len(cases) // 3, len(cases) - 1] if cases else []

    def brief(c):
        return json.loads(json.dumps(c)) if len(json.dumps(c)) < 1500 else {"mode": c["mode"], "limit": c.get("limit"), "note": "large case elided",
                                                                             "reads0": len(c.get("r0", [])), "reads1": len(c.get("r1", []))}
    ctx.coverage.update({
        "evaluations": len(cases), "distinct_nontrivial": len(nontrivial),
        "rule": "cases generated from VERIF_SEED by one PRNG (corpus and fixed boundary cases first): read scripts (chunk sizes around 1, "
                "burst-1/burst/burst+1, the 32 KiB buffer; empty reads, temporary timeouts, EOF/error with and without data), write oracles "
                "(short writes, errors), limits {0,1K,2K,4K,8K,16K,1M} B/s, schedules of the two directions (random, bursty, one-sided) for the "
                "gated bridge, ungated runs, start/end operation lists with duplicate tunnel ids for the lifecycle. distinct = distinct case JSON; "
                "non-trivial = bytes were delivered through the real code (copy: after >= 2 reads) or a bridge was registered (lifecycle). "
                "stall cases: real startSourceBridge/runBridgeLifecycle with a cloud-control double whose GetPortMapping / UpdatePortMappingStats "
                "parks once armed; bytes move, one end closes (or Bridge.Close is called), both ends must observe closure within 4 s WHILE the final "
                "traffic report is parked, the tunnel map must forget the tunnel while parked (long cases, 7.5 s) and after release; non-trivial = "
                "the report was parked and both ends were closed meanwhile. backpressure cases: a write of the bridge is parked inside the connection "
                "(peer not reading) when the sending peer goes away; teardown (both ends closed, tunnel forgotten) is required before the write is "
                "drained. reattach cases: histories of tsend/ssend/SetSourceConnection(new)/old connection ends/end on a live bridge; every end must "
                "have received exactly the bytes sent while it was attached; non-trivial = the tunnel ended and was forgotten. adapter cases: ends that are "
                "message transports (reached through streamDataForwarderAdapter; ReadAvailable idles out after 1.5 s like the real one after 5 s), one-sided "
                "traffic while both ends stay open must arrive within 0.6 s. end-failure cases: a non-EOF read error on one end after some bytes while the "
                "opposite direction is idle — server bridge (raw and adapter ends; the bridge must end without help) and the half-close relay "
                "iocopy.Bidirectional (the listening peer must see a half-close/closure, then the relay must return). failure kinds: net.Error with every "
                "(Timeout, Temporary) pair, io.EOF, io.ErrUnexpectedEOF, net.ErrClosed, plain errors, before any byte and after some, both ends; a failed "
                "connection keeps failing. closerace: Bridge.Close parked inside the old source connection's Close() while SetSourceConnection runs. "
                "reqresp relay cases: ends with / without CloseWrite, the requester EOFs early, the responder then sends 1..130 KB: nothing may be closed "
                "before both directions ended and every byte must arrive; the fakes honour read deadlines against a virtual clock that is advanced 10-60 s "
                "before the second half of the answer, and any deadline the relay sets on a live connection is a failure (thorough: the same over loopback "
                "TCP with a real 6.5 s pause). parent cancel: the context the bridge was created under is cancelled before / between / after the end "
                "events (free mode, gated schedules entry 2, reattach histories); closure, Start's return and forgetting are still required.",
        "samples": [{"case": brief(cases[i]), "observed": {k: v for k, v in outs[i].items() if k in ("prop_ok", "len0", "len1", "cnt0", "cnt1", "closer", "order", "life", "nrd", "nwr", "total")}} for i in pick],
        "model_vs_impl_cases": len(terms), "model_vs_impl_mismatches": len(mism), "impl_property_failures": nfail,
        "input_distribution": dist, "generated_file_changed": gen_changed,
        "tree_limiter_variant": "sliced (repaired)" if sliced else "pinned (one WaitN per read: known defect)",
        "tree_cleanup_variant": "bounded wait for the final report" if bounded else "unbounded wait for the final report (Close parks with the stats backend)",
        "max_harness_case_ms": max([o.get("wall_ms", 0) for o in outs] + [0]),
    })
    ctx.assumptions += [
        "x/time/rate: WaitN(ctx,n) fails iff n > burst or ctx is cancelled, otherwise it only delays (written into Model/Pipe.v waitn_ok; exercised with the real limiter on every run)",
        "io.Writer contract: 0 <= n <= len(p); a closed end fails every later Read/Write (the scripted ends behave like net.Conn)",
        "schedule granularity: one Read (+ limiter wait), one Write, one closeBridge(); the harness replays schedules with gated ends but cannot "
        "park a goroutine between the end of its loop and its deferred closeBridge (merged in Corr/C02.mstep; the theorems cover the finer steps)",
        "'the other end observes closure within bounded time' is a wall-clock fact: checked by the harness watchdog only (PARTIAL, see C02_full_statement)",
        "stats backend (CloudControl.GetPortMapping / UpdatePortMappingStats) may answer arbitrarily late or never: a thread of its own in Model/PipeClose.v; "
        "whether the final report reaches cloud control at all (clean handler vs. the loops' counter flush) is outside C02 and only reported",
        "source re-attach: target->source side modelled (Model/Pipe.v qstep); the source->target loop's switch to the new connection (only after "
        "the old connection's Read returns) is checked by the harness predicate only",
        "not modelled: cross-node forwarding (runBidirectionalForward uses io.Copy), traffic meter / quota throttling (never configured by startSourceBridge)",
    ]
    if broken is not None:
        raise broken


def replay(ctx, path):
    r = json.load(open(path))
    case = r["replay"].get("case")
    if case is None:
        raise vlib.Broken("replay file has no case", path)
    run(ctx, only_cases=[case])

"""C07 — the server's view of control connections is consistent, one per client."""
import json
import os
from concurrent.futures import ThreadPoolExecutor

import vlib

# operation codes (harness/cmd/c07/main.go, Model/Registry.v `op`, Corr/C07.v dec_op)
ACCEPT, HANDSHAKE, HEARTBEAT, CLOSE, REMOVE, UNREG, KICK, SWEEP, TICK, REGRAW, AUTHRAW, TOTUNNEL, BREAK, REREG, REREGNEW, REGCLAIM, ADACCEPT, ADEND = range(18)
OPNAMES = ["Accept", "Handshake", "Heartbeat", "CloseConnection", "RemoveControlConnection", "Unregister", "KickOld",
           "Sweep", "Tick", "RegisterRaw", "UpdateAuthRaw", "ToTunnel", "BreakWrites", "ReRegister", "ReRegisterNewStream",
           "RegisterUnauthenticatedClaim", "AdapterAccept", "AdapterReadLoopEnds"]
KNOWN_KEY = "reauth-stale-index"
REREG_KEY = "register-replace-closes-shared-stream"
RACE_KEY = "concurrent-logins-both-survive"
WITNESS_AUTHRAW_TWICE = [[ACCEPT, 1], [ACCEPT, 2], [REGRAW, 1, 0], [REGRAW, 2, 0], [AUTHRAW, 1, 7], [AUTHRAW, 2, 7]]
# Register of a ConnID that already has an (authenticated) record; the replacement wraps the same stream
WITNESS_REREG = [[ACCEPT, 1], [HANDSHAKE, 1, 0, 7, 1], [REREG, 1, 9], [CLOSE, 1]]
WITNESS_REREG_UNAUTH = [[ACCEPT, 1], [HANDSHAKE, 1, 0, 7, 1], [REREG, 1, 0], [CLOSE, 1]]
WITNESS_REREG_NEW = [[ACCEPT, 1], [HANDSHAKE, 1, 0, 7, 1], [REREGNEW, 1, 0], [CLOSE, 1]]
WITNESS_REREG_NEW_AUTH = [[ACCEPT, 1], [ACCEPT, 2], [HANDSHAKE, 1, 0, 7, 1], [REREGNEW, 1, 9], [HANDSHAKE, 2, 0, 9, 1], [CLOSE, 1]]

# cloud-control fault at teardown; persistent transport whose read loop ends (real adapter); unauthenticated record claiming a client id
CFG_CLOUD_FAIL = {"maxConn": 0, "maxCtl": 0, "tmo": 2, "cc": 1, "discFail": 2, "ensureFail": 1, "discFalse": 0}
WITNESS_CLOUD_FAIL = [[ACCEPT, 1], [HANDSHAKE, 1, 0, 7, 1], [HEARTBEAT, 1], [CLOSE, 1]]
WITNESS_CLOUD_FAIL_SWEEP = [[ACCEPT, 1], [HANDSHAKE, 1, 0, 7, 1], [TICK, 3], [SWEEP]]
WITNESS_PERSISTENT = [[ADACCEPT, 1, 1], [HANDSHAKE, 1, 0, 7, 1], [ADEND, 1, 0]]
WITNESS_ADAPTER_ERR = [[ADACCEPT, 1, 0], [ADACCEPT, 2, 1], [HANDSHAKE, 1, 0, 7, 1], [HANDSHAKE, 2, 0, 7, 1], [ADEND, 2, 1], [ADEND, 1, 1]]
# the protocol adapter (listener) is closed while it still has live connections and the SessionManager keeps running
WITNESS_ADAPTER_CLOSED = [[ADACCEPT, 1, 0], [ADACCEPT, 2, 1], [HANDSHAKE, 1, 0, 7, 1], [HANDSHAKE, 2, 0, 8, 1], [ADEND, 1, 2], [HEARTBEAT, 2], [ADEND, 2, 2]]
# registry-level kick with and without a kick callback: the kicked connection's transport must be closed either way
WITNESS_KICK_NIL_CALLBACK = [[ACCEPT, 1], [ACCEPT, 2], [HANDSHAKE, 1, 0, 7, 1], [HANDSHAKE, 2, 0, 8, 1], [KICK, 7, 9, 1], [KICK, 8, 9, 0], [CLOSE, 1]]
# first-time registrations: the request carries client_id 0 and the auth handler allocates the ids; the second must not evict the first
WITNESS_ANON_REGISTRATION = [[ACCEPT, 1], [ACCEPT, 2], [HANDSHAKE, 1, 0, 7, 2], [HANDSHAKE, 2, 0, 8, 2], [HEARTBEAT, 1], [CLOSE, 2], [CLOSE, 1]]
WITNESS_CLAIM = [[ACCEPT, 1], [ACCEPT, 2], [HANDSHAKE, 1, 0, 7, 1], [REGCLAIM, 2, 7], [CLOSE, 2]]
EX_ALPHABET_AD = [[ADACCEPT, 1, 1], [ADACCEPT, 2, 0], [HANDSHAKE, 1, 0, 1, 1], [HANDSHAKE, 2, 0, 1, 1], [HANDSHAKE, 2, 0, 2, 1], [ADEND, 1, 0],
                  [ADEND, 2, 2], [CLOSE, 1], [REMOVE, 2], [REGCLAIM, 1, 2], [REGCLAIM, 2, 1], [HEARTBEAT, 1], [SWEEP], [TICK, 3], [KICK, 1, 2]]

def with_inj(op, at, j):
    """operation `op` during whose interleaving point `at` operation `j` runs to completion"""
    return (list(op) + [0] * 5)[:5] + [at + 1] + (list(j) + [0] * 5)[:5]


# two overlapping logins of ONE client: the first is parked before / after its response write while the second completes
WITNESS_OVERLAP = [[[ACCEPT, 1], [ACCEPT, 2], with_inj([HANDSHAKE, 1, 0, 7, 1], at, [HANDSHAKE, 2, 0, 7, 1]), [HEARTBEAT, 2], [CLOSE, 1]] for at in (0, 1)] + \
                  [[[ACCEPT, 1], [ACCEPT, 2], [ACCEPT, 3], [HANDSHAKE, 3, 0, 7, 1], with_inj([HANDSHAKE, 2, 0, 7, 1], at, [HANDSHAKE, 1, 0, 7, 1]), [SWEEP]] for at in (0, 1)]
# the base record of a connection is removed (CloseConnection by the stale sweep / a kick-then-close / the adapter) while a late
# handshake of the same connection is between "base record fetched" and "control record registered" (interleaving point 9);
# the final teardown of the connection must still remove the re-created control record
WITNESS_LATE_REGISTER = [[[ACCEPT, 1], with_inj([HANDSHAKE, 1, 0, 7, 1], 9, [CLOSE, 1]), [HEARTBEAT, 1], [CLOSE, 1]],
                         [[ACCEPT, 1], [ACCEPT, 2], [HANDSHAKE, 2, 0, 7, 1], with_inj([HANDSHAKE, 1, 0, 7, 1], 9, [CLOSE, 1]), [SWEEP], [CLOSE, 1]],
                         [[ACCEPT, 1], [ACCEPT, 2], with_inj([HANDSHAKE, 1, 1, 7, 1], 9, [CLOSE, 2]), [HANDSHAKE, 1, 0, 7, 1], [CLOSE, 1]]]
# a second record authenticated as the same client but not indexed (tunnel-type login) goes stale while the indexed one stays fresh
WITNESS_SIBLING_SWEEP = [[ACCEPT, 1], [ACCEPT, 2], [ACCEPT, 3], [HANDSHAKE, 1, 0, 7, 1], [HANDSHAKE, 2, 0, 7, 0], [TICK, 3], [HEARTBEAT, 1], [SWEEP],
                         [HANDSHAKE, 3, 0, 7, 1]]
WITNESS_SIBLING_SWEEP2 = [[ACCEPT, 1], [ACCEPT, 2], [HANDSHAKE, 2, 0, 7, 0], [HANDSHAKE, 1, 0, 7, 1], [TICK, 2], [HEARTBEAT, 1], [TICK, 1], [SWEEP], [HEARTBEAT, 1]]
EX_ALPHABET_SIB = [[HANDSHAKE, 1, 0, 1, 2], [HANDSHAKE, 2, 0, 1, 0], [HANDSHAKE, 3, 0, 1, 2], [REREG, 2, 1], [TICK, 3], [HEARTBEAT, 1], [HEARTBEAT, 2],
                   [SWEEP], [CLOSE, 1], [REMOVE, 2]]
# adapter-driven accepts that are refused: connection limit reached, connection id already in use
CFG_MAXCONN1 = {"maxConn": 1, "maxCtl": 0, "tmo": 2}
WITNESS_REFUSED_LIMIT = [[ADACCEPT, 1, 0], [ADACCEPT, 2, 0], [ADACCEPT, 3, 1], [ADEND, 1, 0], [ADACCEPT, 2, 0]]
WITNESS_REFUSED_DUP = [[ACCEPT, 1], [ADACCEPT, 1, 0], [ADACCEPT, 2, 0], [ADACCEPT, 2, 0], [ADEND, 2, 1]]

# lock contention: (config, prefix, A, B) — A and B are started while the harness holds the registry mutex
LOCK_CASES = [
    ({"maxConn": 0, "maxCtl": 0, "tmo": 2}, [[ACCEPT, 1], [REGRAW, 1, 0]], [AUTHRAW, 1, 5], [REMOVE, 1]),
    ({"maxConn": 0, "maxCtl": 0, "tmo": 2}, [[ACCEPT, 1], [REGRAW, 1, 0]], [AUTHRAW, 1, 5], [UNREG, 1]),
    ({"maxConn": 0, "maxCtl": 0, "tmo": 2}, [[ACCEPT, 1], [HANDSHAKE, 1, 0, 5, 1]], [AUTHRAW, 1, 6], [KICK, 5, 9]),
    ({"maxConn": 0, "maxCtl": 0, "tmo": 2}, [[ACCEPT, 1], [ACCEPT, 2], [HANDSHAKE, 1, 0, 5, 1], [REGRAW, 2, 0]], [AUTHRAW, 2, 5], [KICK, 5, 2]),
    ({"maxConn": 0, "maxCtl": 0, "tmo": 2}, [[ACCEPT, 1], [REGRAW, 1, 0]], [AUTHRAW, 1, 5], [AUTHRAW, 1, 6]),
    ({"maxConn": 0, "maxCtl": 0, "tmo": 2}, [[ACCEPT, 1], [HANDSHAKE, 1, 0, 5, 1]], [REMOVE, 1], [KICK, 5, 9]),
    ({"maxConn": 0, "maxCtl": 2, "tmo": 2}, [[ACCEPT, 1], [ACCEPT, 2], [ACCEPT, 3], [REGRAW, 1, 0], [REGRAW, 2, 0]], [REGRAW, 3, 5], [AUTHRAW, 1, 6]),
    ({"maxConn": 0, "maxCtl": 0, "tmo": 2}, [[ACCEPT, 1], [HANDSHAKE, 1, 0, 5, 1]], [UNREG, 1], [REMOVE, 1]),
]
# re-registration under contention (only on a tree where Register does not close the stream the replacement shares)
LOCK_CASES_REREG = [
    ({"maxConn": 0, "maxCtl": 0, "tmo": 2}, [[ACCEPT, 1], [REGRAW, 1, 0]], [AUTHRAW, 1, 5], [REREG, 1, 6]),
    ({"maxConn": 0, "maxCtl": 0, "tmo": 2}, [[ACCEPT, 1], [HANDSHAKE, 1, 0, 5, 1]], [REREG, 1, 0], [AUTHRAW, 1, 6]),
    ({"maxConn": 0, "maxCtl": 0, "tmo": 2}, [[ACCEPT, 1], [HANDSHAKE, 1, 0, 5, 1]], [REREG, 1, 6], [UNREG, 1]),
]
# (pairs in which one operation closes the transport the other one's caller-side guard looks at are not used: the harness
#  evaluates "transport open" before the call is queued)

# the 3-op witness of DESIGN.md Appendix A, via the registry API and via real handshakes
WITNESS_RAW = [[ACCEPT, 1], [REGRAW, 1, 0], [AUTHRAW, 1, 100], [AUTHRAW, 1, 200], [REMOVE, 1]]
WITNESS_HS = [[ACCEPT, 1], [HANDSHAKE, 1, 0, 100, 1], [HANDSHAKE, 1, 0, 200, 1], [CLOSE, 1]]
WITNESS_TUN = [[ACCEPT, 1], [HANDSHAKE, 1, 0, 100, 1], [HANDSHAKE, 1, 0, 200, 0], [CLOSE, 1]]
WITNESS_WFAIL = [[ACCEPT, 1], [HANDSHAKE, 1, 0, 100, 1], [BREAK, 1], [HANDSHAKE, 1, 0, 200, 1], [CLOSE, 1]]
CFG0 = {"maxConn": 0, "maxCtl": 0, "tmo": 2}
# interleavings: CloseConnection completes between the handshake response write and UpdateAuth; a re-login of the same
# client on another connection inside CloseConnection; a close inside a kick
WITNESS_LATE_CLOSE = [[ACCEPT, 1], [HANDSHAKE, 1, 0, 7, 1, 2, CLOSE, 1, 0, 0, 0]]
WITNESS_CLOSE_RELOGIN = [[ACCEPT, 1], [ACCEPT, 2], [HANDSHAKE, 1, 0, 7, 1], [CLOSE, 1, 0, 0, 0, 2, HANDSHAKE, 2, 0, 7, 1]]
WITNESS_KICK_CLOSE = [[ACCEPT, 1], [ACCEPT, 2], [HANDSHAKE, 1, 0, 7, 1], [KICK, 7, 2, 0, 0, 2, CLOSE, 1, 0, 0, 0]]

EX_PREFIX = [[ACCEPT, 1], [ACCEPT, 2], [ACCEPT, 3]]
EX_ALPHABET = [[HANDSHAKE, 1, 0, 1, 1], [HANDSHAKE, 1, 0, 2, 1], [HANDSHAKE, 2, 0, 1, 1], [HANDSHAKE, 2, 0, 2, 1],
               [HANDSHAKE, 1, 0, 2, 0], [HANDSHAKE, 3, 1, 1, 1], [AUTHRAW, 1, 2], [REMOVE, 1], [CLOSE, 1], [CLOSE, 2],
               [KICK, 1, 2], [UNREG, 1], [SWEEP], [TICK, 3], [HEARTBEAT, 1], [BREAK, 1]]
EX_ALPHABET_LIMIT = [[HANDSHAKE, 1, 0, 1, 1], [HANDSHAKE, 2, 0, 1, 1], [HANDSHAKE, 2, 0, 2, 1], [HANDSHAKE, 3, 0, 2, 1],
                     [HANDSHAKE, 3, 1, 1, 1], [REGRAW, 3, 1], [REGRAW, 2, 0], [CLOSE, 1], [REMOVE, 2], [KICK, 1, 3],
                     [SWEEP], [TICK, 3], [HEARTBEAT, 2],
                     # at the cap (MaxControlConnections = 2): re-registration of the oldest / of a non-oldest record, authenticated or not
                     [REREG, 1, 0], [REREG, 1, 2], [REREG, 2, 1], [REGCLAIM, 2, 2]]
CFG_CAP2 = {"maxConn": 0, "maxCtl": 2, "tmo": 2}
WITNESS_CAP_REREG_OLDEST = [[ACCEPT, 1], [ACCEPT, 2], [HANDSHAKE, 1, 0, 5, 1], [HANDSHAKE, 2, 0, 6, 1], [REREG, 1, 7], [HEARTBEAT, 2]]
WITNESS_CAP_REREG_NEWEST = [[ACCEPT, 1], [ACCEPT, 2], [HANDSHAKE, 1, 0, 5, 1], [HANDSHAKE, 2, 0, 6, 1], [REREG, 2, 7], [HEARTBEAT, 1]]
WITNESS_CAP_REREG_UNAUTH = [[ACCEPT, 1], [ACCEPT, 2], [HANDSHAKE, 1, 0, 5, 1], [HANDSHAKE, 2, 0, 6, 1], [REREG, 1, 0], [REGCLAIM, 2, 5]]
WITNESS_CAP_REREG_NEWSTREAM = [[ACCEPT, 1], [ACCEPT, 2], [HANDSHAKE, 1, 0, 5, 1], [HANDSHAKE, 2, 0, 6, 1], [REREGNEW, 2, 7], [CLOSE, 2]]
# re-registration of an existing ConnID: replacement unauthenticated / pre-authenticated, same stream / fresh stream object
EX_ALPHABET_REREG = [[HANDSHAKE, 1, 0, 1, 1], [HANDSHAKE, 2, 0, 1, 1], [HANDSHAKE, 2, 0, 2, 1], [REREG, 1, 0], [REREG, 1, 2], [REREG, 2, 1],
                     [REREGNEW, 1, 0], [REREGNEW, 1, 2], [REGRAW, 3, 0], [CLOSE, 1], [REMOVE, 1], [KICK, 2, 3], [KICK, 1, 9, 1], [AUTHRAW, 1, 1], [UNREG, 1]]


EX_INJECT = [[CLOSE, 1, 0, 0, 0], [CLOSE, 2, 0, 0, 0], [KICK, 1, 3, 0, 0], [SWEEP, 0, 0, 0, 0],
             [HANDSHAKE, 2, 0, 1, 1], [HANDSHAKE, 3, 0, 2, 1]]
HOSTS = {HANDSHAKE: 2, CLOSE: 2, KICK: 4}      # interleaving points (before/after each unlocked I/O call)


def rand_inj(rng, op, conns, clients):
    c = op[1] if op[0] != KICK else rng.choice(conns)
    x = op[3] if op[0] == HANDSHAKE else (op[1] if op[0] == KICK else rng.choice(clients))
    others = [d for d in conns if d != c] or conns
    j = rng.choice([[CLOSE, c], [CLOSE, c], [CLOSE, rng.choice(others)], [KICK, x, rng.choice(conns)], [KICK, rng.choice(clients), c],
                    [SWEEP], [HANDSHAKE, rng.choice(others), 0, x, 1], [HANDSHAKE, rng.choice(others), 0, rng.choice(clients), 1],
                    [REMOVE, c]])
    at = rng.randrange(HOSTS[op[0]])
    if op[0] == HANDSHAKE and rng.random() < 0.25:
        at = 9          # RemoteAddr(): between the base-record fetch and the registration of the control record
    return with_inj(op, at, j)


def gen_interleaved(rng, n, maxdepth):
    out = []
    for c in gen_structured(rng, n, maxdepth):
        conns = sorted({o[1] for o in c["ops"] if o[0] in (ACCEPT, HANDSHAKE, CLOSE)} | {1, 2})
        clients = sorted({o[3] for o in c["ops"] if o[0] == HANDSHAKE} | {1})
        ops, k = [], 0
        for o in c["ops"]:
            # the hooked PackageStreamer transports of the interleaving cases are not driven by the adapter
            if o[0] == KICK:
                o = o[:3]      # a nil-callback kick writes no kick command: different I/O points, never an interleaving host
            if o[0] == ADACCEPT:
                o = [ACCEPT, o[1]]
            elif o[0] == ADEND:
                o = [CLOSE, o[1]]
            if o[0] in HOSTS and rng.random() < 0.5:
                ops.append(rand_inj(rng, o, conns, clients))
                k += 1
            else:
                ops.append(o)
        if k:
            out.append({"cfg": c["cfg"], "ops": ops, "stream": "interleaved"})
    return out


def rand_op(rng, conns, clients):
    c = rng.choice(conns)
    x = rng.choice(clients)
    r = rng.random()
    if r < 0.13:
        return [ACCEPT, c]
    if r < 0.43:
        k = rng.choice([0, 0, 0, 0, 0, 0, 0, 1, 1, 2])
        # connection type: 0 tunnel, 1 control, 2 control with client_id 0 in the request (anonymous registration: the auth handler allocates x)
        return [HANDSHAKE, c, k, x, 0 if rng.random() < 0.15 else rng.choice([1, 1, 2])]
    if r < 0.50:
        return [HEARTBEAT, c]
    if r < 0.58:
        return [CLOSE, c]
    if r < 0.63:
        return [REMOVE, c]
    if r < 0.67:
        return [UNREG, c]
    if r < 0.73:
        # a quarter of the kicks go through the registry API with a nil callback (third argument 1)
        return [KICK, x, rng.choice(conns), 1] if rng.random() < 0.25 else [KICK, x, rng.choice(conns)]
    if r < 0.79:
        return [SWEEP]
    if r < 0.87:
        return [TICK, rng.choice([1, 1, 2, 3, 4])]
    if r < 0.91:
        return [REGRAW, c, rng.choice([0, x])]
    if r < 0.935:
        return [AUTHRAW, c, x]
    if r < 0.955:
        return rng.choice([[REREG, c, 0], [REREG, c, x], [REREG, c, x], [REREGNEW, c, 0], [REREGNEW, c, x], [REGCLAIM, c, x], [REGCLAIM, c, x]])
    if r < 0.972:
        return rng.choice([[ADACCEPT, c, 0], [ADACCEPT, c, 1], [ADEND, c, 0], [ADEND, c, 1], [ADEND, c, 2], [ADEND, c, 2]])
    if r < 0.98:
        return [TOTUNNEL, c, rng.choice([0, 1, 1, 2])]
    return [BREAK, c]


def gen_structured(rng, n, maxdepth):
    out = []
    for _ in range(n):
        nconn = rng.choice([2, 3, 3, 3, 4])
        conns = list(range(1, nconn + 1))
        clients = rng.choice([[1, 2], [1, 2], [1, 2, 3], [100, 200], [7]])
        cfg = {"maxConn": rng.choice([0, 0, 0, 0, 2, 3]), "maxCtl": rng.choice([0, 0, 0, 1, 2, 2]), "tmo": rng.choice([1, 2, 2, 3]),
               # cloud-control double with a fault pattern (each method: never / first call / always fails; "not matched" answers)
               "cc": rng.choice([0, 1, 1]), "discFail": rng.choice([0, 0, 1, 2, 2]), "ensureFail": rng.choice([0, 1, 2]),
               "discFalse": rng.choice([0, 0, 1])}
        depth = rng.randrange(1, maxdepth + 1)
        ops = []
        # mostly-valid: connections are usually accepted before being used (a quarter of them through the real adapter)
        for c in conns:
            if rng.random() < 0.8 and len(ops) < depth:
                ops.append([ACCEPT, c] if rng.random() < 0.75 else [ADACCEPT, c, rng.choice([0, 1])])
        script = rng.random() < 0.35     # login / idle / sweep scripts: everybody logs in, time passes, some heartbeat, sweep
        if script:
            for c in conns:
                if len(ops) < depth and rng.random() < 0.8:
                    ops.append([HANDSHAKE, c, 0, rng.choice(clients), 1])
        if cfg["maxCtl"] and rng.random() < 0.3:
            # fill the control-connection cap, then re-register the oldest / a non-oldest / a random record
            for c in conns[:cfg["maxCtl"]]:
                ops.append([HANDSHAKE, c, 0, rng.choice(clients), 1])
            ops.append(rng.choice([[REREG, conns[0], rng.choice([0] + clients)], [REREG, conns[min(cfg["maxCtl"], len(conns)) - 1], rng.choice([0] + clients)],
                                   [REGCLAIM, rng.choice(conns), rng.choice(clients)], [REREGNEW, rng.choice(conns), rng.choice([0] + clients)]]))
        while len(ops) < depth:
            o = rand_op(rng, conns, clients)
            if script and rng.random() < 0.5:
                o = rng.choice([[TICK, rng.choice([1, 2, cfg["tmo"], cfg["tmo"] + 1])], [HEARTBEAT, rng.choice(conns)], [SWEEP],
                                [HANDSHAKE, rng.choice(conns), 0, rng.choice(clients), 1]])
            ops.append(o)
            if o[0] == TICK and len(ops) < depth and rng.random() < 0.5:
                ops.append([SWEEP])
        out.append({"cfg": cfg, "ops": ops, "stream": "structured"})
    return out


def gen_malformed(rng, n, maxdepth):
    """separate stream: operations on never-accepted / unknown connections, client id 0, repeated accepts, arbitrary order"""
    out = []
    for _ in range(n):
        conns = [1, 2, 9]
        clients = [0, 1, 2]
        cfg = {"maxConn": rng.choice([0, 1, 2]), "maxCtl": rng.choice([0, 1]), "tmo": rng.choice([0, 1, 2])}
        ops = []
        for _ in range(rng.randrange(1, maxdepth + 1)):
            code = rng.randrange(13)
            o = [code, rng.choice(conns), rng.choice([0, 1, 2, 3]), rng.choice(clients), rng.choice([0, 1])]
            if code == KICK:
                o = [code, rng.choice(clients), rng.choice(conns)]
            elif code in (REGRAW, AUTHRAW):
                o = [code, rng.choice(conns), rng.choice(clients)]
            elif code == TICK:
                o = [code, rng.choice([0, 1, 5])]
            elif code == TOTUNNEL:
                o = [code, rng.choice(conns), rng.choice([0, 1])]
            ops.append(o)
        out.append({"cfg": cfg, "ops": ops, "stream": "malformed"})
    return out


def flat(st):
    f = [st["err"], 0 if st.get("adapter_end") else st["n"], st.get("fired", 0), len(st["sess"])] + st["sess"] + [len(st["reg"])]
    for e in st["reg"]:
        f += e
    f.append(len(st["idx"]))
    for e in st["idx"]:
        f += e
    f += [len(st["closed"])] + st["closed"] + [len(st["tun"])]
    for e in st["tun"]:
        f += e
    f.append(len(st["tmap"]))
    for e in st["tmap"]:
        f += e
    f += st["cnt"] + [len(st["la"])] + st["la"]
    calls = [] if st.get("fired_or_injected") else (st.get("calls") or [])
    f.append(len(calls))
    for e in calls:
        f += e
    return f


def pad(o):
    return (list(o) + [0] * 11)[:11]


def case_value(variant, cfg, ops, steps, mode=0):
    """variant: 0 Pinned, 1 Current, 2 Head (Corr/C07.dec_variant); mode 1 = lock-contention case (final state only).
    The adapter-driven operations are given to the model as what they must amount to: AdapterAccept = Accept,
    the end of a live adapter read loop = CloseConnection (anything else: no-op)."""
    mops, msteps = [], []
    for o, st in zip(ops, steps):
        st = dict(st)
        if len(o) > 5 and o[5]:
            st["fired_or_injected"] = True
        if o[0] == ADACCEPT:
            o = [ACCEPT, o[1]]
        elif o[0] == ADEND:
            live = st["n"] == 1
            st["adapter_end"] = True
            o = [CLOSE, o[1]] if live else [TICK, 0]
        mops.append(o)
        msteps.append(st)
    mops += ops[len(steps):]
    return [variant, [cfg["maxConn"], cfg["maxCtl"], cfg["tmo"], cfg.get("cc", 0)], [pad(o) for o in mops], [flat(s) for s in msteps], mode]


def model_cut(ops):
    """operations with a fresh stream object for an existing ConnID are outside the Coq model (one transport per connection id)"""
    for i, o in enumerate(ops):
        if o[0] == REREGNEW or (len(o) > 6 and o[5] and o[6] == REREGNEW):
            return i
    return len(ops)


def describe(ops):
    def one(o):
        return "%s(%s)" % (OPNAMES[o[0]] if o[0] < 18 else "?", ",".join(map(str, o[1:5])))
    return "; ".join(one(o) if len(o) <= 5 or not o[5] else "%s{at I/O point %d: %s}" % (one(o), o[5] - 1, one(o[6:])) for o in ops)


def shrink(binary, case, kind):
    """greedy: drop operations while a violation of the same kind remains"""
    def fails(c):
        try:
            o = vlib.run_harness(binary, [c])[0]
        except vlib.Broken:
            return False
        return any(v["kind"] == kind for v in o["viol"])
    cur = {"cfg": case["cfg"], "ops": list(case["ops"])}
    changed = True
    while changed:
        changed = False
        for i in range(len(cur["ops"])):
            t = {"cfg": cur["cfg"], "ops": cur["ops"][:i] + cur["ops"][i + 1:]}
            if t["ops"] and fails(t):
                cur, changed = t, True
                break
            o = cur["ops"][i]
            if len(o) > 5 and o[5]:
                t = {"cfg": cur["cfg"], "ops": cur["ops"][:i] + [o[:5]] + cur["ops"][i + 1:]}
                if fails(t):
                    cur, changed = t, True
                    break
    return cur


def load_corpus():
    d = os.path.join(vlib.VERIF, "corpus", "C07")
    out = []
    if os.path.isdir(d):
        for f in sorted(os.listdir(d)):
            if f.endswith(".json"):
                c = json.load(open(os.path.join(d, f)))
                c["stream"] = "corpus"
                out.append(c)
    return out


def exhaustive(binary, cfg, prefix, alphabet, depth, stride, offset, inject=()):
    """all words of length 1..depth over the alphabet after the prefix; one harness process per first letter"""
    inject = [list(j) for j in inject]
    if inject:
        # interleaved runs: every word, and every word with one injectable operation at every interleaving point of one host
        jobs = [{"mode": "ex", "cfg": cfg, "prefix": prefix, "alphabet": alphabet, "depth": 1, "stride": stride, "offset": offset,
                 "inject": inject}]
        if depth > 1:
            for i, a in enumerate(alphabet):
                jobs.append({"mode": "ex", "cfg": cfg, "prefix": prefix + [a], "alphabet": alphabet, "depth": depth - 1,
                             "stride": stride, "offset": offset + i, "inject": inject, "injfrom": len(prefix)})
    else:
        jobs = [{"mode": "ex", "cfg": cfg, "prefix": prefix, "alphabet": alphabet, "depth": 1, "stride": 1, "offset": 0}]
        if depth > 1:
            for i, a in enumerate(alphabet):
                jobs.append({"mode": "ex", "cfg": cfg, "prefix": prefix + [a], "alphabet": alphabet, "depth": depth - 1,
                             "stride": stride, "offset": offset + i})
    with ThreadPoolExecutor(max_workers=8) as ex:
        res = list(ex.map(lambda j: vlib.run_harness(binary, [j], timeout=1500)[0], jobs))
    return res


def run(ctx, only_cases=None):
    thorough = ctx.tier == "thorough"
    binary = vlib.build_harness("C07")
    gen_changed = vlib.write_if_changed(os.path.join(vlib.COQ, "Gen", "C07.v"), vlib.harness_text(binary, ["gen"]))
    broken = None
    try:
        pinfo = vlib.coq_properties("C07")
        vlib.coq_make(["Proofs/SideC07.vo"])
        vlib.proof_coverage(ctx, pinfo, "make -C coq Properties/C07.vo Proofs/SideC07.vo && coqc Properties/C07.v (Print Assumptions audit)",
                            extra_obligations=7)  # the 7 regenerated side conditions of Proofs/SideC07.v
    except vlib.Broken as b:
        broken = b   # keep going: search the implementation for a concrete failing history first

    rng = ctx.rng
    probes = [{"cfg": CFG0, "ops": w, "stream": "witness"} for w in (WITNESS_RAW, WITNESS_HS, WITNESS_TUN, WITNESS_WFAIL,
                                                                         WITNESS_LATE_CLOSE, WITNESS_CLOSE_RELOGIN, WITNESS_KICK_CLOSE,
                                                                         WITNESS_REREG_UNAUTH, WITNESS_REREG_NEW, WITNESS_REREG_NEW_AUTH)]
    probes.insert(1, {"cfg": CFG0, "ops": WITNESS_REREG, "stream": "witness"})
    probes.insert(2, {"cfg": CFG0, "ops": WITNESS_AUTHRAW_TWICE, "stream": "witness"})
    probes += [{"cfg": CFG_CLOUD_FAIL, "ops": WITNESS_CLOUD_FAIL, "stream": "witness"}, {"cfg": CFG_CLOUD_FAIL, "ops": WITNESS_CLOUD_FAIL_SWEEP, "stream": "witness"},
               {"cfg": CFG0, "ops": WITNESS_PERSISTENT, "stream": "witness"}, {"cfg": CFG_CLOUD_FAIL, "ops": WITNESS_ADAPTER_ERR, "stream": "witness"},
               {"cfg": CFG0, "ops": WITNESS_ADAPTER_CLOSED, "stream": "witness"},
               {"cfg": CFG0, "ops": WITNESS_KICK_NIL_CALLBACK, "stream": "witness"},
               {"cfg": CFG0, "ops": WITNESS_ANON_REGISTRATION, "stream": "witness"},
               {"cfg": CFG0, "ops": WITNESS_CLAIM, "stream": "witness"}]
    probes += [{"cfg": CFG0, "ops": w, "stream": "witness"} for w in WITNESS_LATE_REGISTER]
    probes += [{"cfg": CFG0, "ops": w, "stream": "witness"} for w in WITNESS_OVERLAP + [WITNESS_SIBLING_SWEEP, WITNESS_SIBLING_SWEEP2, WITNESS_REFUSED_DUP]]
    probes += [{"cfg": CFG_MAXCONN1, "ops": WITNESS_REFUSED_LIMIT, "stream": "witness"}]
    probes += [{"cfg": CFG_CAP2, "ops": w, "stream": "witness"} for w in (WITNESS_CAP_REREG_OLDEST, WITNESS_CAP_REREG_NEWEST,
                                                                            WITNESS_CAP_REREG_UNAUTH, WITNESS_CAP_REREG_NEWSTREAM)]
    if only_cases is not None:
        cases = probes[:3] + only_cases
    else:
        cases = probes + load_corpus()
        cases += gen_structured(rng, 12000 if thorough else 3000, 12)
        cases += gen_malformed(rng, 2000 if thorough else 500, 10)
        cases += gen_interleaved(rng, 8000 if thorough else 2500, 10)
    outs = vlib.run_harness(binary, [{"cfg": c["cfg"], "ops": c["ops"]} for c in cases], timeout=900)

    # which tree is this?  The first probe is the registry-API witness of the recorded defect.
    # The second probe is the registry-API witness of the second one (Register of an existing ConnID closes the shared stream).
    tree_pinned = any(v["kind"] == "idx-cid-mismatch" for v in outs[0]["viol"])
    tree_head = (not tree_pinned) and outs[1].get("attr_key") == REREG_KEY
    # third probe: UpdateAuth for a client that already has a control connection evicts it (repaired) or not (tree as it is)
    tree_head2 = (not tree_pinned) and (not tree_head) and any(e[0] == 1 for e in outs[2]["steps"][-1]["reg"])
    variant = 0 if tree_pinned else (2 if tree_head else (3 if tree_head2 else 1))
    tree_known = {KNOWN_KEY, REREG_KEY, RACE_KEY} if tree_pinned else ({REREG_KEY, RACE_KEY} if tree_head else ({RACE_KEY} if tree_head2 else set()))
    ctx.coverage["tree_variant"] = {0: "pinned (neither C07 fix applied)",
                                    2: "head (5522a98 applied; fixes/C07-register-replace-shared-stream.diff not applied)",
                                    3: "head2 (5522a98, c61cb06 applied; fixes/C07-updateauth-evicts-atomically.diff not applied)",
                                    1: "current (all C07 fixes applied)"}[variant]

    # (iii) the property predicate evaluated on the real code's own answers, after every operation
    nfail = nknown = 0
    reported = set()
    cut = {}   # case index -> number of steps compared with the model
    for i, (c, o) in enumerate(zip(cases, outs)):
        if not o["viol"]:
            continue
        first = o["viol"][0]
        if o["attributable"] and o.get("attr_key") in tree_known:
            nknown += 1
            cut[i] = first["step"] + 1
            kk = o["attr_key"]
            if kk not in reported:
                reported.add(kk)
                ctx.violation(kk, "real registry: %s after [%s]" % (first["msg"], describe(c["ops"][:first["step"] + 1])),
                              {"case": {"cfg": c["cfg"], "ops": c["ops"]}, "violations": o["viol"][:6]})
            continue
        nfail += 1
        cut[i] = first["step"]      # states before the first violation are still compared
        key = "inv:" + first["kind"]
        if key not in reported and len(reported) < 4:
            reported.add(key)
            small = shrink(binary, c, first["kind"])
            so = vlib.run_harness(binary, [small])[0]
            ctx.violation(key, "real SessionManager/ClientRegistry: %s after [%s]" % (
                ([v for v in so["viol"] if v["kind"] == first["kind"]] or o["viol"])[0]["msg"], describe(small["ops"])),
                {"case": small, "violations": (so["viol"] or o["viol"])[:6], "observed_last": (so["steps"] or [None])[-1]})

    # exhaustive small-scope enumeration (predicate on every sequence; a stride of them also goes to the model)
    ex_total = ex_steps = ex_fired = 0
    ex_emitted = []
    if only_cases is None:
        plans = [(CFG0, EX_PREFIX, EX_ALPHABET, 5 if thorough else 4, 37 if thorough else 23, ()),
                 ({"maxConn": 0, "maxCtl": 2, "tmo": 2}, EX_PREFIX, EX_ALPHABET_LIMIT, 5 if thorough else 3, 29 if thorough else 5, ()),
                 # interleavings: every I/O point of every handshake / close / kick of the word x every injectable operation
                 (CFG0, EX_PREFIX, EX_ALPHABET_REREG, 5 if thorough else 3, 41 if thorough else 3, ()),
                 # real adapter (persistent / ordinary transports, EOF / error), cloud control failing on every call, unauthenticated claims
                 (CFG_CLOUD_FAIL, [], EX_ALPHABET_AD, 4 if thorough else 3, 13 if thorough else 3, ()),
                 # adapter accepts at the connection limit (refused connections must leave nothing behind)
                 (CFG_MAXCONN1, [], EX_ALPHABET_AD, 4 if thorough else 3, 17 if thorough else 5, ()),
                 # a non-indexed authenticated sibling of the client's control connection, ticks, heartbeats, sweeps, next login
                 (CFG0, EX_PREFIX, EX_ALPHABET_SIB, 6 if thorough else 5, 53 if thorough else 31, ()),
                 (CFG0, EX_PREFIX, EX_ALPHABET, 4 if thorough else 2, 61 if thorough else 7, EX_INJECT),
                 ({"maxConn": 0, "maxCtl": 2, "tmo": 2}, EX_PREFIX, EX_ALPHABET_LIMIT, 3 if thorough else 2, 31 if thorough else 7, EX_INJECT)]
        for cfg, prefix, alpha, depth, stride, inject in plans:
            for r in exhaustive(binary, cfg, prefix, alpha, depth, stride, rng.randrange(stride), inject):
                ex_fired += r.get("fired", 0)
                ex_total += r["total"]
                ex_steps += r["steps_total"]
                examples = list(r["viol"])
                for kk, cnt in (r.get("nknown_by") or {}).items():
                    exs = [e for e in r["known_examples"] if any(v.get("known_key") == kk for v in e["viol"])]
                    if kk in tree_known:
                        nknown += cnt
                        if kk not in reported and exs:
                            reported.add(kk)
                            k0 = exs[0]
                            ctx.violation(kk, "real registry (exhaustive enumeration): %s after [%s]" % (
                                k0["viol"][0]["msg"], describe(k0["ops"][:k0["viol"][0]["step"] + 1])),
                                {"case": {"cfg": cfg, "ops": k0["ops"]}, "violations": k0["viol"][:6]})
                    else:
                        # the shape of a repaired defect on a tree whose registry-API probe is clean is a genuine violation
                        examples += exs
                        nfail += cnt
                nfail += r["nviol"]
                for b in examples[:1]:
                    key = "inv:" + b["viol"][0]["kind"]
                    if key not in reported and len(reported) < 4:
                        reported.add(key)
                        small = shrink(binary, {"cfg": cfg, "ops": b["ops"]}, b["viol"][0]["kind"])
                        so = vlib.run_harness(binary, [small])[0]
                        ctx.violation(key, "real SessionManager/ClientRegistry (exhaustive enumeration): %s after [%s]" % (
                            ([v for v in so["viol"] if v["kind"] == b["viol"][0]["kind"]] or b["viol"])[0]["msg"], describe(small["ops"])),
                            {"case": small, "violations": (so["viol"] or b["viol"])[:6]})
                for e in r["emitted"]:
                    ex_emitted.append({"cfg": cfg, "ops": e["ops"], "steps": e["steps"], "viol": e["viol"],
                                       "attributable": e["attributable"] and e.get("attr_key") in tree_known})

    # lock contention on the registry mutex: two registry calls queued on it, both start orders, N repetitions
    lock_runs = 0
    lock_terms = []          # (case index, [term for A;B, term for B;A]) per distinct final state
    lock_cases = []
    if only_cases is None:
        lock_cases = LOCK_CASES + (LOCK_CASES_REREG if variant == 1 else [])
        louts = vlib.run_harness(binary, [{"mode": "lock", "cfg": cfg, "prefix": pre, "a": a, "b": b, "reps": 150 if thorough else 15}
                                          for cfg, pre, a, b in lock_cases], timeout=900)
        for li, ((cfg, pre, a, b), lo) in enumerate(zip(lock_cases, louts)):
            lock_runs += lo["runs"]
            if lo["nviol"]:
                nfail += lo["nviol"]
                v0 = lo["viol"][0]
                key = "inv:" + v0["viol"][0]["kind"]
                if key not in reported and len(reported) < 4:
                    reported.add(key)
                    ctx.violation(key, "real ClientRegistry under lock contention (%d of %d runs): %s after [%s] then, both queued on the registry "
                                  "mutex, %s || %s" % (lo["nviol"], lo["runs"], v0["viol"][0]["msg"], describe(pre), describe([a]), describe([b])),
                                  {"lock_case": {"cfg": cfg, "prefix": pre, "a": a, "b": b}, "violations": v0["viol"][:6], "ops_started_in_order": v0["ops"]})
            else:
                for fin in lo["finals"]:
                    lock_terms.append((li, [case_value(variant, cfg, pre + [a, b], [fin], 1), case_value(variant, cfg, pre + [b, a], [fin], 1)]))

    # free-running contention loop (supplement): two logins of ONE client on two connections, no gating.  On a tree whose
    # UpdateAuth does not evict the previous holder in its own critical section both can survive (lock-section race of
    # GetByClientID / Remove / UpdateAuth in handleHandshake; Properties/C07.v C07_one_live_head_lock_section_race_refuted).
    race = {"runs": 0, "two_live": 0, "other_bad": 0}
    if only_cases is None:
        race = vlib.run_harness(binary, [{"mode": "race", "cfg": CFG0, "reps": 60000 if thorough else 8000}], timeout=900)[0]
        if race["two_live"] or race["other_bad"]:
            if RACE_KEY in tree_known and not race["other_bad"]:
                nknown += race["two_live"]
                ctx.violation(RACE_KEY, "real SessionManager: %d of %d free-running pairs of concurrent logins of one client left BOTH connections "
                              "registered, authenticated and open" % (race["two_live"], race["runs"]), {"race": race})
            else:
                nfail += race["two_live"] + race["other_bad"]
                ctx.violation("inv:" + RACE_KEY, "real SessionManager: %d of %d free-running pairs of concurrent logins of one client (Accept 1, Accept 2, "
                              "Handshake(1 as 7) || Handshake(2 as 7)) left two live authenticated control connections (and %d other bad outcomes)"
                              % (race["two_live"], race["runs"], race["other_bad"]), {"race_case": {"mode": "race", "cfg": CFG0, "reps": 15000}, "result": race})

    # (ii) model vs implementation, state after every operation
    terms, owners = [], []
    for i, (c, o) in enumerate(zip(cases, outs)):
        k = min(cut.get(i, len(c["ops"])), model_cut(c["ops"]))
        terms.append(case_value(variant, c["cfg"], c["ops"][:k] if k < len(c["ops"]) else c["ops"], o["steps"][:k]))
        owners.append(("case", i))
    for j, e in enumerate(ex_emitted):
        k = len(e["ops"])
        if e["viol"]:
            k = e["viol"][0]["step"] + (1 if e["attributable"] else 0)
        k = min(k, model_cut(e["ops"]))
        terms.append(case_value(variant, e["cfg"], e["ops"][:k], e["steps"][:k]))
        owners.append(("ex", j))
    mism = []
    try:
        if lock_terms:
            lres = vlib.model_eval("C07", [t for _, pair in lock_terms for t in pair])
            for n, (li, pair) in enumerate(lock_terms):
                if not (lres[2 * n] or lres[2 * n + 1]) and not ctx.violations:
                    cfg, pre, a, b = lock_cases[li]
                    ctx.violation("inv:lock-not-serializable", "real ClientRegistry under lock contention: after [%s] the concurrent pair %s || %s ended "
                                  "in a state that neither sequential order produces in the model (each registry method is one critical section)"
                                  % (describe(pre), describe([a]), describe([b])),
                                  {"lock_case": {"cfg": cfg, "prefix": pre, "a": a, "b": b}, "final": pair[0][3]})
        res = vlib.model_eval("C07", terms)
        mism = [i for i, ok in enumerate(res) if not ok]
        small = [i for i in range(len(terms)) if len(terms[i][2]) <= 8][:: max(1, len(terms) // 30)][:30]
        vm_bad = sorted(small[k] for k in vlib.vm_crosscheck("C07", [terms[i] for i in small]))
        ext_bad = sorted(i for i in small if not res[i])
        if vm_bad != ext_bad:
            raise vlib.Broken("extracted runner and vm_compute disagree on the C07 model", "vm=%s extracted=%s" % (vm_bad, ext_bad))
        ctx.coverage["vm_compute_crosschecked_cases"] = len(small)
    except vlib.Broken as b:
        broken = broken or b
    if mism and not ctx.violations:
        i = mism[0]
        kind, j = owners[i]
        src = cases[j] if kind == "case" else ex_emitted[j]
        obs = outs[j]["steps"] if kind == "case" else ex_emitted[j]["steps"]
        try:
            _, pred = vlib.model_eval("C07", [terms[i]], predict=True)
        except vlib.Broken:
            pred = [None]
        ctx.violation("model-mismatch", "Corr/C07.check: Model/Registry.v (%s variant) and the real SessionManager/ClientRegistry disagree on the "
                      "state after some operation of [%s] although the Go-side invariant holds there; the theorems of Properties/C07.v no "
                      "longer speak about this code" % ({0: "Pinned", 1: "Current", 2: "Head", 3: "Head2"}[variant], describe(src["ops"])),
                      {"case": {"cfg": src["cfg"], "ops": src["ops"]}, "observed": [flat(s) for s in obs], "model": pred[0]}, found_input=False)

    # coverage
    distinct, nontrivial = set(), set()
    hist = {n: 0 for n in OPNAMES}
    lens = {}
    feats = {"eviction_by_new_login": 0, "limit_eviction_or_sweep": 0, "reauth_other_id": 0, "failed_ops": 0}
    for c, o in list(zip(cases, outs)) + [(e, {"steps": e["steps"]}) for e in ex_emitted]:
        h = json.dumps([c["cfg"], c["ops"]], sort_keys=True)
        distinct.add(h)
        for op in c["ops"]:
            if op[0] < 18:
                hist[OPNAMES[op[0]]] += 1
        lens[len(c["ops"])] = lens.get(len(c["ops"]), 0) + 1
        st = o["steps"]
        if any(s["idx"] for s in st) and any(s["closed"] for s in st):
            nontrivial.add(h)
        feats["failed_ops"] += sum(s["err"] for s in st)
        feats["limit_eviction_or_sweep"] += 1 if any(s["n"] for s in st) else 0
        seen = {}
        for s in st:
            for cc, cid, au, _ in s["reg"]:
                if au and cc in seen and seen[cc] != cid:
                    feats["reauth_other_id"] += 1
                if au:
                    seen[cc] = cid
    ctx.coverage.update({
        "evaluations": len(cases) + ex_total, "distinct_nontrivial": len(nontrivial),
        "exhaustive": False,
        "rule": "operation sequences over the real SessionManager/ClientRegistry/TunnelRegistry: witnesses + corpus first, then random "
                "structured (depth<=12, 2-4 connections, 1-3 clients, connection limits on/off) and malformed streams from VERIF_SEED, "
                "plus exhaustive enumeration of all words up to the tier's depth over two fixed alphabets after Accept(1..3) "
                "(Go-side invariant on every word and every step; every stride-th word also diffed against the model). distinct = "
                "distinct (config, operation list) among the sequences sent to the model; non-trivial = at some step a client id "
                "resolves to a connection AND some transport has been closed.",
        "samples": [{"cfg": cases[i]["cfg"], "ops": describe(cases[i]["ops"]), "final_state": outs[i]["steps"][-1] if outs[i]["steps"] else None}
                    for i in (1, len(cases) // 2, len(cases) - 1) if i < len(cases)],
        "interleaved_random_cases_fired": sum(1 for o in outs if any(st.get("fired") for st in o["steps"])),
        "interleaved_exhaustive_runs_fired": ex_fired,
        "concurrent_login_race_runs": race["runs"], "concurrent_login_race_two_live": race["two_live"],
        "lock_contention_runs": lock_runs, "lock_contention_scenarios": len(lock_cases),
        "exhaustive_words": ex_total, "exhaustive_steps": ex_steps, "exhaustive_words_sent_to_model": len(ex_emitted),
        "model_vs_impl_cases": len(terms), "model_vs_impl_mismatches": len(mism),
        "impl_invariant_failures": nfail, "impl_known_defect_sequences": nknown,
        "input_distribution": {"streams": {s: sum(1 for c in cases if c.get("stream") == s) for s in ("witness", "corpus", "structured", "malformed", "interleaved")},
                               "op_histogram": hist, "length_histogram": {str(k): v for k, v in sorted(lens.items())}, "features": feats},
        "generated_file_changed": gen_changed,
    })
    ctx.assumptions += [
        "interleavings: handleHandshake and CloseConnection are cut into their lock sections (Model/RegistryMicro.v); the harness runs another "
        "operation to completion before/after every WritePacket/Close that is not made under the registry mutex; Kick and Sweep are single "
        "steps in the section-level theorem (their I/O points are covered by the harness and step_inj); finer preemption inside one lock section is impossible",
        "section-level theorem: a packet is dispatched only on a transport the server has not closed; packets of one connection are handled by one goroutine",
        "data races on the unlocked ControlConnection fields (ClientID/Authenticated written by the auth handler) are not modelled",
        "the auth handler authenticates only positive client ids (ServerAuthHandler: generated id or req.ClientID>0); the harness uses a scripted AuthHandler",
        "raw Register/UpdateAuth are applied only to open transports and Register only to a session connection without a control record (the server's call sites)",
        "clock: logical hours; the harness shifts LastActiveAt of registered connections back on Tick and stamps CreatedAt in creation order; HeartbeatTimeout = tmo h + 30 min",
        "connection ids are accepted once (StreamManager never forgets an id) but a ConnID may be REGISTERED again while it has a record; a fresh "
        "stream object for an existing ConnID is reachable only through the raw registry API and is checked on the real code only (the model has one transport per connection id)",
        "lock contention: the harness evaluates its caller-side guards (transport open) before a call is queued, so pairs in which one call closes the "
        "transport the other one's guard looks at are not used; each ClientRegistry method is one critical section (side condition from go/ast)",
        "cloud control is a recording double (only DisconnectClientIfMatch / EnsureClientOnline are reachable from the driven operations) with a per-history fault pattern; "
        "adapter-driven connections block in Read until the harness ends them (EOF / error); packets for them are still injected through HandlePacket",
        "client ids are non-negative",
    ]
    if broken is not None:
        raise broken


def replay(ctx, path):
    r = json.load(open(path))
    c = r["replay"].get("case")
    if not c:
        raise vlib.Broken("replay file has no case", path)
    run(ctx, only_cases=[{"cfg": c["cfg"], "ops": c["ops"], "stream": "replay"}])

"""C14 — the tiered store never serves stale data or loses concurrent list updates."""
import glob
import itertools
import json
import os

import vlib

OPC = {"set": 0, "get": 1, "del": 2, "exists": 3, "append": 4, "remove": 5, "incr": 6, "setnx": 7, "dropc": 8, "dropall": 9, "setexp": 10, "setlist": 0, "getlist": 1}   # SetList(key, values) is modelled as Set(key, list): same steps under the key lock
UNMODELLED = ("incrby", "sethash", "gethash", "delhash")
MUTATING = ("set", "setlist", "del", "setnx", "append", "remove", "incr", "incrby", "sethash", "delhash", "setexp")

# key pool: real prefixes of every class plus near-misses; classified by the REAL getCategory at run time
POOL = ["tunnox:user:%d", "tunnox:persist:mapping:%d", "tunnox:stats:persistent:%d", "tunnox:client:%d",
        "tunnox:conn_state:%d", "tunnox:index:conncode:target:%d", "tunnox:id:%d", "tunnox:http_domain:next_id", "tunnox:node:%d",
        "tunnox:client_mappings:%d", "tunnox:port_mapping:%d", "tunnox:http_domain:client:%d", "webhook:%d", "tunnox:mappings:list",
        "tunnox:session:%d", "tunnox:runtime:%d", "tunnox:temp:%d", "plain:%d", "tunnox:client_conn%d", "tunnox:runtime:conncode:%d"]


def keyname(rng, pat):
    return pat % rng.randrange(1, 4) if "%d" in pat else pat


class Gen:
    def __init__(self, rng, cats, fixed):
        self.rng, self.cats, self.fixed = rng, cats, fixed   # cats: key -> (category, cache_for_key_shared)
        self.uid = 100

    def fresh(self):
        self.uid += 1
        return self.uid

    def cache_tier(self, key, shared):
        return 1 if (self.cats[key][0] in (2, 3) and shared) else 0

    def two_tier(self, key, pers):
        return pers and self.cats[key][0] in (1, 3)

    def init_for(self, ki, key, kind, shared, pers):
        rng = self.rng
        ct = self.cache_tier(key, shared)
        two = self.two_tier(key, pers)
        mode = rng.choice(["none", "both", "cold"] if two else ["none", "both"])
        if mode == "none":
            return []
        if kind == "c":
            return [{"tier": ct, "k": ki, "i": rng.randrange(0, 5)}]
        val = {"l": [rng.randrange(1, 4) for _ in range(rng.randrange(0, 3))]} if kind == "l" else {"v": self.fresh()}
        if kind == "l":
            val["l"] = sorted(set(val["l"]))
        out = []
        if mode == "both":
            out.append(dict(tier=ct, k=ki, **val))
        if two:
            out.append(dict(tier=2, k=ki, **val))
        return out

    def case(self):
        rng = self.rng
        shared, pers = rng.random() < 0.65, rng.random() < 0.75
        nk = rng.choice([1, 1, 2, 3])
        pats = rng.sample(POOL, nk)
        keys, kinds, init = [], [], []
        for ki, p in enumerate(pats):
            key = keyname(rng, p)
            if key in keys:
                key += "x"
                if key not in self.cats:
                    key = key[:-1] + "9"
            kind = rng.choice(["s", "s", "l", "l", "c", "x"])
            if key not in self.cats:
                continue
            if kind == "c" and (self.two_tier(key, pers)):
                kind = "s"
            keys.append(key)
            kinds.append(kind)
            init += self.init_for(len(keys) - 1, key, kind, shared, pers)
        if not keys:
            return self.case()
        nthr = rng.choice([1, 2, 2, 3, 3, 4])
        threads = []
        appended = {k: set() for k in range(len(keys))}
        for _ in range(nthr):
            ops = []
            for _ in range(rng.choice([1, 1, 2, 3])):
                k = rng.randrange(len(keys))
                kind = kinds[k]
                two = self.two_tier(keys[k], pers)
                if kind == "s":
                    choices = ["set", "get", "del", "exists", "get", "set", "setexp"]
                    if not two or self.fixed:
                        choices.append("setnx")
                    o = rng.choice(choices)
                    ops.append({"op": o, "k": k, "v": self.fresh()})
                elif kind == "l":
                    o = rng.choice(["append", "append", "remove", "get", "getlist", "setexp", "setlist"])
                    if o == "setlist" and any(x["op"] == "setlist" and x["k"] == k for t in threads for x in t["ops"]) or o == "setlist" and any(x["op"] == "setlist" and x["k"] == k for x in ops):
                        o = "append"
                    if o == "append":
                        e = self.fresh()
                        appended[k].add(e)
                        ops.append({"op": o, "k": k, "v": e})
                    elif o == "setlist":
                        ops.append({"op": o, "k": k, "v": 0, "l": [self.fresh(), self.fresh()]})
                    elif o == "remove":
                        cand = sorted(appended[k]) + [1, 2, 3]
                        ops.append({"op": o, "k": k, "v": rng.choice(cand)})
                    else:
                        ops.append({"op": o, "k": k, "v": 0})
                elif kind == "c":
                    ops.append({"op": rng.choice(["incr", "incr", "incr", "get"]), "k": k, "v": 0})
                else:
                    o = rng.choice(["set", "get", "del", "exists", "append", "remove", "setnx"])
                    if o in ("append", "remove"):
                        ops.append({"op": o, "k": k, "v": rng.randrange(1, 4)})
                    elif o == "set" and rng.random() < 0.5:
                        ops.append({"op": o, "k": k, "v": 0, "l": [rng.randrange(1, 4)]})
                    else:
                        ops.append({"op": o, "k": k, "v": self.fresh()})
            faults = []
            if rng.random() < 0.2:
                faults = [rng.random() < 0.2 for _ in range(8)]
            threads.append({"ops": ops, "faults": faults})
        # the reader: runs after everything (write-backs included) has quiesced
        rd = []
        for k, kind in enumerate(kinds):
            if kind in ("s", "c"):
                rd.append({"op": "get", "k": k, "v": 0})
                rd.append({"op": rng.choice(["get", "exists"]), "k": k, "v": 0})
        threads.append({"ops": rd, "faults": []})
        max_wb = sum(len(t["ops"]) for t in threads) + 1   # one slot per operation: any of them might spawn an asynchronous tier call
        n = len(threads)
        total = sum(len(t["ops"]) for t in threads[:-1])
        idx = list(range(n - 1)) + list(range(n, n + max_wb))
        sched = [rng.choice(idx) for _ in range(rng.choice([0, total, 2 * total, 4 * total]))]
        return {"mode": "sched", "shared": shared, "pers": pers, "keys": keys, "kinds": kinds, "init": init, "threads": threads,
                "sched": sched, "max_wb": max_wb, "reader": True}


def witness_cases(fixed):
    """deterministic schedules of the recorded findings (and of the repaired behaviours)"""
    W = []
    u, sp, lk = "tunnox:user:1", "tunnox:port_mapping:1", "tunnox:client_mappings:1"
    rd = {"ops": [{"op": "get", "k": 0, "v": 0}, {"op": "exists", "k": 0, "v": 0}], "faults": []}
    for key, shared in ((u, False), (sp, True), (sp, False)):
        base = {"mode": "sched", "shared": shared, "pers": True, "keys": [key], "kinds": ["s"], "init": [{"tier": 2, "k": 0, "v": 1}], "max_wb": 3, "reader": True}
        # Get misses the cache and reads v1; Delete completes on both tiers; the write-back lands last
        W.append(dict(base, threads=[{"ops": [{"op": "get", "k": 0, "v": 0}], "faults": []}, {"ops": [{"op": "del", "k": 0, "v": 0}], "faults": []}, rd],
                      sched=[0, 0, 1, 1, 3]))
        # same with an overwrite
        W.append(dict(base, threads=[{"ops": [{"op": "get", "k": 0, "v": 0}], "faults": []}, {"ops": [{"op": "set", "k": 0, "v": 2}], "faults": []}, rd],
                      sched=[0, 0, 1, 1, 3]))
        # ONE caller, sequentially: Get (miss), Delete, slow write-back
        W.append(dict(base, threads=[{"ops": [{"op": "get", "k": 0, "v": 0}, {"op": "del", "k": 0, "v": 0}], "faults": []}, rd], sched=[0, 0, 0, 0, 2]))
        # cache write of a successful Set fails: the old cache entry keeps being served
        W.append(dict(base, init=[{"tier": 2, "k": 0, "v": 1}, {"tier": 1 if (shared and key == sp) else 0, "k": 0, "v": 1}],
                      threads=[{"ops": [{"op": "set", "k": 0, "v": 2}], "faults": [False, True]}, rd], sched=[0, 0]))
    for key, shared, pers in ((lk, True, True), ("tunnox:index:conncode:target:1", True, False), ("tunnox:temp:1", False, False)):
        ct = 1 if shared else 0
        init = [{"tier": ct, "k": 0, "l": [1]}] + ([{"tier": 2, "k": 0, "l": [1]}] if pers else [])
        base = {"mode": "sched", "shared": shared, "pers": pers, "keys": [key], "kinds": ["l"], "init": init, "max_wb": 3, "reader": True}
        rdl = {"ops": [{"op": "get", "k": 0, "v": 0}], "faults": []}
        # Append(b) parked between its read and its Set; Append(c) completes; release
        W.append(dict(base, threads=[{"ops": [{"op": "append", "k": 0, "v": 2}], "faults": []}, {"ops": [{"op": "append", "k": 0, "v": 3}], "faults": []}, rdl],
                      sched=[0, 1, 1, 1, 0, 0]))
        W.append(dict(base, threads=[{"ops": [{"op": "append", "k": 0, "v": 2}], "faults": []}, {"ops": [{"op": "remove", "k": 0, "v": 1}], "faults": []}, rdl],
                      sched=[0, 1, 1, 1, 0, 0]))
    # list: sequential appends, late write-back of the first read (cold cache)
    W.append({"mode": "sched", "shared": True, "pers": True, "keys": [lk], "kinds": ["l"], "init": [{"tier": 2, "k": 0, "l": [1]}], "max_wb": 3, "reader": True,
              "threads": [{"ops": [{"op": "append", "k": 0, "v": 2}, {"op": "append", "k": 0, "v": 3}], "faults": []}, {"ops": [{"op": "get", "k": 0, "v": 0}], "faults": []}],
              "sched": [0, 0, 0, 0, 2, 0, 0, 0]})
    # counters: two interleaved Incr on the cluster-wide id counter; SetNX on a shared+persistent key, then Get
    for key, shared, pers in (("tunnox:http_domain:next_id", True, False), ("tunnox:id:1", True, True), ("tunnox:temp:2", False, False)):
        W.append({"mode": "sched", "shared": shared, "pers": pers, "keys": [key], "kinds": ["c"], "init": [], "max_wb": 0, "reader": True,
                  "threads": [{"ops": [{"op": "incr", "k": 0, "v": 0}, {"op": "incr", "k": 0, "v": 0}], "faults": []}, {"ops": [{"op": "incr", "k": 0, "v": 0}], "faults": []},
                              {"ops": [{"op": "get", "k": 0, "v": 0}], "faults": []}], "sched": [0, 1, 0, 1, 0, 0]})
    for shared in (True, False):
        W.append({"mode": "sched", "shared": shared, "pers": True, "keys": [sp], "kinds": ["s"], "init": [], "max_wb": 2, "reader": True,
                  "threads": [{"ops": [{"op": "setnx", "k": 0, "v": 5}, {"op": "get", "k": 0, "v": 0}, {"op": "setnx", "k": 0, "v": 6}], "faults": []}, rd], "sched": []})
    # operations outside the model: only their routing is judged
    for key in ("tunnox:conn_state:1", "tunnox:client_mappings:2", "tunnox:http_domain:next_id", "tunnox:user:2", "tunnox:session:1"):
        W.append({"mode": "sched", "shared": True, "pers": True, "keys": [key], "kinds": ["x"], "init": [], "max_wb": 1, "reader": False,
                  "threads": [{"ops": [{"op": "sethash", "k": 0, "v": 1}, {"op": "gethash", "k": 0, "v": 0}, {"op": "delhash", "k": 0, "v": 0},
                                       {"op": "set", "k": 0, "v": 7}, {"op": "setexp", "k": 0, "v": 0}, {"op": "incrby", "k": 0, "v": 3}], "faults": []}], "sched": []})
    return W


NODE_KEYS = ["tunnox:user:1", "tunnox:persist:mapping:2", "tunnox:port_mapping:1", "tunnox:client_mappings:2", "webhook:1",
             "tunnox:conn_state:1", "tunnox:id:2", "tunnox:session:1", "plain:1"]


def nodes_witnesses():
    """the cross-node histories named in the follow-up: A sets v1, B sets v2, A sets v1 again, a cold node reads; A sets, B deletes, A sets again"""
    W = []
    for key, shared in (("tunnox:user:1", False), ("tunnox:user:1", True), ("tunnox:port_mapping:1", False), ("tunnox:port_mapping:1", True)):
        st = lambda n, op, v=0: {"node": n, "op": {"op": op, "k": 0, "v": v}}
        probes = [st(-1, "get"), st(-1, "exists"), st(0, "get"), st(1, "get"), st(2, "get")]
        W.append({"mode": "nodes", "shared": shared, "pers": True, "nodes": 3, "keys": [key], "kinds": ["s"], "init": [],
                  "steps": [st(0, "set", 1), st(-1, "get"), st(1, "set", 2), st(-1, "get"), st(0, "set", 1)] + probes})
        W.append({"mode": "nodes", "shared": shared, "pers": True, "nodes": 3, "keys": [key], "kinds": ["s"], "init": [],
                  "steps": [st(0, "set", 1), st(1, "del"), st(-1, "get"), st(0, "set", 1)] + probes})
        W.append({"mode": "nodes", "shared": shared, "pers": True, "nodes": 3, "keys": [key], "kinds": ["s"], "init": [{"tier": 2, "k": 0, "v": 1}],
                  "steps": [st(0, "get"), st(1, "set", 2), st(0, "set", 1)] + probes})
    return W


def nodes_prefix_cases(tables):
    """for EVERY prefix of the regenerated prefix tables (keys under a shared prefix that also lies under a documented runtime prefix
    are in there by construction): written on node A, read / exists / deleted / list-appended on node B and on a cold node, over a shared
    cache, with and without the persistent tier.  Judged by the class the tables intend (most specific prefix wins)."""
    out = []
    st = lambda n, op, k=0, v=0: {"node": n, "op": {"op": op, "k": k, "v": v}}
    for tbl in ("shared", "shared_persistent", "persistent", "runtime"):
        for p in tables[tbl]:
            for sfx in ("1", "") if not p.endswith(":") else ("1", "x:y"):
                keys = [p + sfx, p + sfx + "L"]
                for pers in (True, False):
                    steps = [st(0, "set", 0, 1), st(1, "get"), st(1, "exists"), st(-1, "get"), st(1, "del"), st(0, "get"), st(0, "exists"), st(-1, "exists"),
                             st(1, "set", 0, 2), st(0, "get"), st(-1, "get"),
                             st(0, "append", 1, 1), st(1, "append", 1, 2), st(-1, "get", 1), st(1, "get", 1), st(0, "get", 1),
                             st(0, "remove", 1, 2), st(1, "get", 1), st(-1, "get", 1)]
                    out.append({"mode": "nodes", "shared": True, "pers": pers, "nodes": 2, "keys": keys, "kinds": ["s", "l"], "init": [],
                                "steps": steps, "prefix": p, "table": tbl})
    return out


def nodes_drop_cases(tables):
    """"cache entry lost" (TTL expiry / eviction / cache restart) after every kind of write, for every prefix of the regenerated tables:
    the write on node A, the loss of the cache copy, then reads from A, from B and from a cold node; then a second write from B, a loss
    everywhere, reads again.  For two-tier classes the loss must be invisible (the persistent tier holds the value)."""
    out = []
    st = lambda n, op, k=0, v=0: {"node": n, "op": {"op": op, "k": k, "v": v}}
    reads = lambda k: [st(0, "get", k), st(0, "exists", k), st(1, "get", k), st(-1, "get", k)]
    for tbl in ("shared_persistent", "persistent", "shared", "runtime"):
        for p in tables[tbl]:
            key = p + ("1" if p.endswith(":") else "")
            for shared, pers in ((True, True), (False, True), (True, False)):
                for w1, w2 in (("set", "set"), ("setnx", "set"), ("set", "setnx"), ("append", "append"), ("append", "remove"), ("incr", "incr"), ("set", "del")):
                    steps = [st(0, w1, 0, 1), st(0, "dropc")] + reads(0)
                    if w2 == "setnx":      # SetNX only wins on an absent key
                        steps += [st(1, "del"), st(1, "dropall")]
                    steps += [st(1, w2, 0, 2), st(1, "dropall")] + reads(0)
                    out.append({"mode": "nodes", "shared": shared, "pers": pers, "nodes": 2, "keys": [key], "kinds": ["x"], "init": [],
                                "steps": steps, "prefix": p, "table": tbl, "writes": [w1, w2]})
    return out


def long_list_cases():
    """one list grown past 256 / 512 / 1024 members by AppendToList (and shrunk again by RemoveFromList), read back with Get after every
    step around each boundary — a cheap sequential history per key class"""
    out = []
    st = lambda n, op, v=0, l=None: {"node": n, "op": dict({"op": op, "k": 0, "v": v}, **({"l": l} if l is not None else {}))}
    for key, shared in (("tunnox:user:longlist", False), ("tunnox:client_mappings:longlist", True), ("tunnox:client_mappings:longlist", False), ("tunnox:temp:longlist", False)):
        for b in (256, 512, 1024):
            steps = [st(0, "set", 0, list(range(1, b - 2))), st(0, "get")]
            for e in range(b - 2, b + 4):
                steps += [st(0, "append", e), st(0, "get")]
            steps += [st(-1, "get"), st(0, "remove", b + 3), st(0, "get"), st(0, "remove", 5), st(0, "get"), st(0, "append", 5000 + b), st(0, "get"), st(-1, "get")]
            out.append({"mode": "nodes", "shared": shared, "pers": True, "nodes": 2, "keys": [key], "kinds": ["x"], "init": [], "steps": steps, "boundary": b})
    return out


def dup_list_cases():
    """lists with REPEATED members (AppendToList never de-duplicates: adjacent and non-adjacent duplicates, via two Appends and via SetList),
    then RemoveFromList and Get: every occurrence must be gone (the model's and the specification's remove is remove-ALL: filter)"""
    out = []
    st = lambda n, op, v=0, l=None: {"node": n, "op": dict({"op": op, "k": 0, "v": v}, **({"l": l} if l is not None else {}))}
    for key, shared, pers in (("tunnox:user:dup", False, True), ("tunnox:client_mappings:dup", True, True), ("tunnox:client_mappings:dup", False, True),
                              ("tunnox:conn_state:dup", True, False), ("tunnox:temp:dup", False, False)):
        seqs = [
            [st(0, "append", 7), st(0, "append", 7), st(0, "get"), st(0, "remove", 7), st(0, "get"), st(-1, "get")],                        # adjacent, via Append twice
            [st(0, "append", 7), st(0, "append", 8), st(0, "append", 7), st(0, "remove", 7), st(0, "get"), st(-1, "get"), st(0, "remove", 8), st(0, "get")],
            [st(0, "set", 0, [1, 2, 1, 3, 1]), st(0, "remove", 1), st(0, "get"), st(-1, "get"), st(0, "append", 1), st(0, "get")],          # via SetList-like Set, non-adjacent
            [st(0, "set", 0, [4, 4, 4]), st(1, "remove", 4), st(1, "get"), st(-1, "get"), st(1, "exists")],                                 # all members equal
            [st(0, "set", 0, [5, 6, 6, 5]), st(0, "remove", 6), st(0, "get"), st(0, "remove", 5), st(0, "get"), st(-1, "get")],
        ]
        for steps in seqs:
            out.append({"mode": "nodes", "shared": shared, "pers": pers, "nodes": 2, "keys": [key], "kinds": ["x"], "init": [], "steps": steps, "dups": True})
    return out


def nodes_case(rng, cats, fixed):
    shared, pers = rng.random() < 0.5, rng.random() < 0.85
    nn = rng.choice([2, 3])
    keys = rng.sample(NODE_KEYS, rng.choice([1, 1, 2]))
    init = []
    for ki, key in enumerate(keys):
        cat = cats[key][0]
        two = pers and cat in (1, 3)
        sh = shared and cat in (2, 3)
        m = rng.randrange(4)
        v = rng.randrange(1, 4)
        if m == 0 or not (two or sh):
            continue
        if two:
            init.append({"tier": 2, "k": ki, "v": v})
        if sh and (m >= 2 or not two):
            init.append({"tier": 1, "k": ki, "v": v})
        if not sh and two and m == 3:
            init.append({"tier": 10 + rng.randrange(nn), "k": ki, "v": v})
    steps = []
    for _ in range(rng.choice([3, 5, 8, 12])):
        k = rng.randrange(len(keys))
        node = rng.randrange(nn)
        opn = rng.choice(["set", "set", "set", "del", "get", "exists"] + (["setnx"] if fixed else []))
        # small value space on purpose: re-writing a value a node has already seen is the interesting case
        steps.append({"node": node, "op": {"op": opn, "k": k, "v": rng.randrange(1, 4)}})
        if opn in ("set", "del", "setnx") and rng.random() < 0.3:
            steps.append({"node": node, "op": {"op": rng.choice(["dropc", "dropall"]), "k": k, "v": 0}})
        if opn in ("set", "del", "setnx"):
            if rng.random() < 0.8:
                steps.append({"node": -1, "op": {"op": rng.choice(["get", "get", "exists"]), "k": k, "v": 0}})
            if rng.random() < 0.4:
                steps += [{"node": j, "op": {"op": "get", "k": k, "v": 0}} for j in range(nn)]
    return {"mode": "nodes", "shared": shared, "pers": pers, "nodes": nn, "keys": keys, "kinds": ["s"] * len(keys), "init": init, "steps": steps}


def alias_cases(rng, cats, n_random):
    """cache tiers hand lists through BY REFERENCE (the real memory.Storage behaviour); a single tier-call failure at every
    position of a get / remove / append / get script, alone and with an interleaved reader"""
    out = []
    keys = ["tunnox:user:1", "tunnox:client_mappings:1", "tunnox:conn_state:1", "tunnox:temp:1"]
    for key, shared, pers, warm in itertools.product(keys, (True, False), (True, False), (True, False)):
        cat = cats[key][0]
        two = pers and cat in (1, 3)
        if not warm and not two:
            continue
        ct = 1 if (cat in (2, 3) and shared) else 0
        init = ([{"tier": ct, "k": 0, "l": [1, 2, 3]}] if warm else []) + ([{"tier": 2, "k": 0, "l": [1, 2, 3]}] if two else [])
        for script in ([("get", 0), ("remove", 1), ("append", 4), ("get", 0)], [("get", 0), ("append", 4), ("remove", 2), ("get", 0)]):
            ops = [{"op": o, "k": 0, "v": v} for o, v in script]
            for pos in range(-1, 9):
                faults = [i == pos for i in range(9)]
                out.append({"mode": "sched", "raw": True, "shared": shared, "pers": pers, "keys": [key], "kinds": ["l"], "init": init,
                            "threads": [{"ops": ops, "faults": faults}, {"ops": [{"op": "get", "k": 0, "v": 0}], "faults": []}],
                            "sched": [], "max_wb": 6, "reader": True})
        # a reader between the remover's read and its writes
        for sched in ([0, 1, 1, 0, 0], [0, 0, 1, 1, 0], [1, 0, 1, 0, 0], [0, 1, 0, 1, 0]):
            out.append({"mode": "sched", "raw": True, "shared": shared, "pers": pers, "keys": [key], "kinds": ["l"], "init": init,
                        "threads": [{"ops": [{"op": "remove", "k": 0, "v": 1}], "faults": []},
                                    {"ops": [{"op": "get", "k": 0, "v": 0}, {"op": "get", "k": 0, "v": 0}], "faults": []},
                                    {"ops": [{"op": "get", "k": 0, "v": 0}], "faults": []}],
                        "sched": sched, "max_wb": 6, "reader": True})
    g = Gen(rng, cats, True)
    for _ in range(n_random):
        c = g.case()
        c["raw"] = True
        out.append(c)
    return out


def exhaustive_cases(cats, locked=False):
    """all interleavings of two callers (one operation each) on one key x every placement of the first write-back,
    for every key class and tier configuration"""
    out = []
    # tier calls per operation: the repaired Get is cache, re-check, persistent, fill; a repaired list call adds the fill
    g, l = (4, 5) if locked else (2, 4)
    pairs = [("get", "del", g, 2, "s"), ("get", "set", g, 2, "s"), ("append", "append", l, l, "l"), ("append", "remove", l, l, "l"),
             ("set", "set", 2, 2, "s"), ("set", "del", 2, 2, "s"), ("exists", "del", 2, 2, "s"),
             # SetExpiration is a read-modify-write on the cache tier: it races every mutation of the key
             # SetList is the third list writer: against cache-miss readers and list read-modify-writers
             ("get", "setlist", g, 2, "s"), ("append", "setlist", l, 2, "l"), ("remove", "setlist", l, 2, "l"), ("setexp", "setlist", 2, 2, "s"),
             # GetList is the list reader (it decodes JSON text): against every list writer and Delete; run with a JSON-text persistent tier
             ("getlist", "append", g + 1, l, "l"), ("getlist", "remove", g + 1, l, "l"), ("getlist", "setlist", g + 1, 2, "l"), ("getlist", "del", g + 1, 2, "sl"),
             ("setexp", "set", 2, 2, "s"), ("setexp", "del", 2, 2, "s"), ("setexp", "append", 2, l, "l"), ("setexp", "remove", 2, l, "l")]
    keys = ["tunnox:user:1", "tunnox:conn_state:1", "tunnox:client_mappings:1", "tunnox:temp:1"]
    for (a, b, sa, sb, kind), key, shared, pers, cold in itertools.product(pairs, keys, (True, False), (True, False), (True, False)):
        cat = cats[key][0]
        two = pers and cat in (1, 3)
        if cold and not two:
            continue
        ct = 1 if (cat in (2, 3) and shared) else 0
        val = {"l": [1]} if kind in ("l", "sl") else {"v": 1}
        jsonp = a == "getlist"
        if kind == "sl":
            kind = "s"      # a list VALUE judged by the freshness predicate (a deleted list must not come back)
        init = ([] if cold else [dict(tier=ct, k=0, **val)]) + ([dict(tier=2, k=0, **val)] if two else [])
        rd = {"ops": [{"op": "get", "k": 0, "v": 0}], "faults": []}
        opb = {"op": b, "k": 0, "v": 1 if b == "remove" else 3}
        if b == "setlist":
            opb = {"op": b, "k": 0, "v": 0, "l": [7, 8]}
        thr = [{"ops": [{"op": a, "k": 0, "v": 2}], "faults": []}, {"ops": [opb], "faults": []}, rd]
        for pos in itertools.combinations(range(sa + sb), sa):
            inter = [1] * (sa + sb)
            for p in pos:
                inter[p] = 0
            places = range(sa + sb + 1) if (two and cold) else [sa + sb]
            for w in places:
                sched = inter[:w] + [3] + inter[w:]
                out.append({"mode": "sched", "shared": shared, "pers": pers, "keys": [key], "kinds": [kind], "init": init, "threads": thr,
                            "sched": sched, "max_wb": 3, "reader": True, "jsonp": jsonp})
    return out


def enc_val(o):
    if "l" in o and o["l"] is not None:
        return [1, list(o["l"])]
    if "i" in o and o["i"] is not None:
        return [2, o["i"]]
    return [0, o.get("v", 0)]


def enc_obs_val(e):
    if e[0] == 1:
        return [1, list(e[1])]
    if e[0] in (0, 2):
        return [e[0], e[1]]
    return [0, 999999999]  # unknown type: can never match a model value


def enc_res(r):
    if r[0] == 3:
        return [3, enc_obs_val(r[1])]
    if r[0] == 4:
        return [4, bool(r[1])]
    if r[0] == 5:
        return [5, r[1]]
    return [r[0]]


def modelled(c):
    if c["mode"] == "nodes":
        return True
    if c["mode"] == "sched" and c.get("locks") == "wb" and any(o["op"] in ("append", "remove") for t in c["threads"] for o in t["ops"]):
        return False  # write-back fix without the list fix: a list call re-takes the lock it just released, which the harness cannot observe
    return c["mode"] == "sched" and not c.get("raw") and not c.get("plain") and all(o["op"] in OPC for t in c["threads"] for o in t["ops"])


def case_value(c, o, fixed):
    if c["mode"] == "cat":
        return [1, [], [k.encode() for k in c["keys"]], [], [], [], 0, [[cat, bool(sh)] for cat, sh in zip(o["cats"], o["cache_shared"])]]
    if c["mode"] == "nodes":
        cfgv = [bool(c["shared"]), bool(c["pers"]), bool(fixed["incr"]), bool(fixed["setnx"]), bool(fixed["wb"]), bool(fixed["list"]), bool(fixed["cwf"]), bool(fixed["cre"]), bool(fixed["explock"])]
        init = [[i["tier"], i["k"], enc_val(i)] for i in c["init"]]
        steps = []
        for st in c["steps"]:
            op = st["op"]
            code = OPC[op["op"]]
            steps.append([st["node"] if st["node"] >= 0 else c["nodes"], [code, op["k"], enc_val(op) if code in (0, 7) else op.get("v", 0)]])
        tier = lambda t: [[e[0], enc_obs_val(e[1])] for e in t]
        return [2, cfgv, [k.encode() for k in c["keys"]], init, steps, [], c["nodes"],
                [[enc_res(r) for r in o["results"]], [tier(t) for t in o["locals"]], tier(o["shared"]), tier(o["pers"])]]
    cfgv = [bool(c["shared"]), bool(c["pers"]), bool(fixed["incr"]), bool(fixed["setnx"]), bool(fixed["wb"]), bool(fixed["list"]), bool(fixed["cwf"]), bool(fixed["cre"]), bool(fixed["explock"])]
    init = [[i["tier"], i["k"], enc_val(i)] for i in c["init"]]
    ths = []
    for t, lg in zip(c["threads"], o["logs"]):
        ops = []
        for op in t["ops"]:
            code = OPC[op["op"]]
            arg = enc_val(op) if code in (0, 7) else op.get("v", 0)
            ops.append([code, op["k"], arg])
        ths.append([ops, [bool(f) for f in t["faults"]], [enc_res(r["res"]) for r in lg]])
    fin = [[[e[0], enc_obs_val(e[1])] for e in tier] for tier in o["final"]]
    return [0, cfgv, [k.encode() for k in c["keys"]], init, ths, list(o["sched"]), c["max_wb"], [fin, o["spawned"]]]


def late_writebacks(c, o):
    """keys (indices) with a write-back that was not isolated: some mutation of the key was active between the persistent read
    that fed the write-back and its landing"""
    n = len(c["threads"])
    late = set()
    wbs = [a for a in o["acc"] if a["who"] >= n]
    for wb in wbs:
        j = wb["who"] - n
        if j >= len(o["wb_read"]):
            continue
        s0 = o["wb_read"][j]
        # the write-back is only safe if no mutation of the key is active anywhere between the read and the landing
        for lg in o["logs"]:
            for r in lg:
                if r["k"] == wb["ki"] and r["op"] in MUTATING and r["first"] >= 0 and r["last"] > s0 and r["first"] < wb["step"]:
                    late.add(wb["ki"])
    return late


def failed_cache_write(c, o, k):
    """a cache.Set / cache.Delete of a mutation of key k failed although that mutation reported success"""
    n = len(c["threads"])
    for who, lg in enumerate(o["logs"]):
        for r in lg:
            if r["k"] != k or r["op"] not in MUTATING or r["first"] < 0 or r["res"][0] not in (0, 4, 5):
                continue
            if any(a["fault"] and a["who"] == who and a["ki"] == k and a["tier"] != 2 and a["m"] in ("Set", "Delete")
                   and r["first"] <= a["step"] <= r["last"] for a in o["acc"]):
                return True
    return False


def failed_cache_read(c, o, k):
    n = len(c["threads"])
    return any(a["fault"] and a["who"] < n and a["ki"] == k and a["tier"] != 2 and a["m"] in ("Get", "Exists") for a in o["acc"])


def overlapping_list_ops(o, k):
    spans = [(r["first"], r["last"]) for lg in o["logs"] for r in lg if r["k"] == k and r["op"] in ("append", "remove") and r["first"] >= 0]
    return any(a != b and a[0] <= b[1] and b[0] <= a[1] for a, b in itertools.combinations(spans, 2)) or \
        any(spans.count(s) > 1 for s in spans)


def classify(c, o, v, fixed):
    """map one failing predicate to the key that identifies its cause (known-finding keys are listed in known_findings.d/C14.txt)"""
    kind, k = v["kind"], v["k"]
    if kind.startswith("routing:"):
        opn = kind.split(":")[1]
        if opn in ("incr", "incrby") and not fixed["incr"]:
            return "incr-local-nonatomic"
        if opn == "setnx" and not fixed["setnx"]:
            return "setnx-bypasses-key-tier"
        if opn in ("sethash", "gethash", "delhash", "setexp") and not fixed["incr"]:
            return "hash-expiration-always-local"
        return kind
    if kind in ("incr-duplicate", "incr-lost"):
        return "incr-local-nonatomic" if not fixed["incr"] else kind
    late = late_writebacks(c, o)
    if kind == "stale-read":
        if not fixed["setnx"] and any(r["op"] == "setnx" and r["k"] == k for lg in o["logs"] for r in lg):
            return "setnx-bypasses-key-tier"
        if k in late:
            return "stale-writeback-after-" + {"Delete": "delete", "Set": "set", "SetNX": "set"}.get(v.get("sup", ""), "other")
        if failed_cache_write(c, o, k):
            return "stale-cache-after-failed-cache-write"
        if failed_cache_read(c, o, k):
            return "cache-read-failure-treated-as-miss"
        return "stale-read"
    if kind.startswith("list-lost"):
        if overlapping_list_ops(o, k):
            return "list-lost-update-overlapping-calls"
        if k in late:
            return "list-lost-update-stale-writeback"
        if failed_cache_write(c, o, k):
            return "stale-cache-after-failed-cache-write"
        if failed_cache_read(c, o, k):
            return "cache-read-failure-treated-as-miss"
        return kind
    return kind


def classify_nodes(c, o, v):
    """a stale read from a node whose PRIVATE local cache still holds what that node saw earlier is inherent to node-local caching
    (bounded only by the cache TTL); everything else — cold-cache nodes, shared-cache classes, the writer itself — must be fresh"""
    cat = o["intended"][v["k"]]          # the class the prefix tables intend, not what getCategory answered
    local_cache = cat == 1 or (cat == 3 and not c["shared"])
    if v["kind"] in ("cross-node-stale-read", "lost-after-cache-drop") and v["reader"] >= 0 and v["reader"] != v["writer"] and local_cache:
        return "cross-node-stale-local-cache"
    if v["kind"] == "lost-after-cache-drop" and v.get("last_op") == "incr":
        return "two-tier-counter-lost-with-cache-entry"
    return v["kind"]


def run(ctx, only_cases=None):
    thorough = ctx.tier == "thorough"
    binary = vlib.build_harness("C14")
    gen_changed = vlib.write_if_changed(os.path.join(vlib.COQ, "Gen", "C14.v"), vlib.harness_text(binary, ["gen"]))
    broken = None
    try:
        pinfo = vlib.coq_properties("C14")
        vlib.proof_coverage(ctx, pinfo, "make -C coq Properties/C14.vo && coqc Properties/C14.v (Print Assumptions audit)", extra_obligations=11)
    except vlib.Broken as b:
        broken = b
    rng = ctx.rng
    # classify the key pool with the REAL getCategory / getCacheForKey
    pool = sorted({p % i if "%d" in p else p for p in POOL for i in range(1, 4)} | {(p % i if "%d" in p else p) + s for p in POOL for i in (1, 2, 3) for s in ("x", "9")})
    pool_out = vlib.run_harness(binary, [{"mode": "cat", "keys": pool}])[0]
    cats = {k: (cat, sh) for k, cat, sh in zip(pool, pool_out["cats"], pool_out["cache_shared"])}
    # which tree is this?  (pinned code or fixes/C14-incr.diff applied) — behavioural probe
    probe = [{"mode": "sched", "shared": True, "pers": True, "keys": ["tunnox:http_domain:next_id"], "kinds": ["x"], "init": [], "max_wb": 0,
              "threads": [{"ops": [{"op": "incr", "k": 0, "v": 0}], "faults": []}], "sched": []},
             {"mode": "sched", "shared": True, "pers": True, "keys": ["tunnox:port_mapping:9"], "kinds": ["x"], "init": [], "max_wb": 0,
              "threads": [{"ops": [{"op": "setnx", "k": 0, "v": 1}], "faults": []}], "sched": []}]
    po = vlib.run_harness(binary, probe)
    fixed = {"incr": all(a["tier"] == 1 for a in po[0]["acc"]) and len(po[0]["acc"]) == 1,
             "setnx": any(a["tier"] == 2 for a in po[1]["acc"]) and all(a["tier"] != 0 for a in po[1]["acc"])}
    # the four key-lock / failure-handling repairs (fixes/C14-writeback-key-lock, -list-rmw-key-lock, -failed-cache-write-invalidate,
    # -cache-read-error): behavioural probes — is the key lock held during the tier calls of Set / AppendToList, does a failing cache.Set
    # of a Set get invalidated, does a failing cache.Get on a runtime key surface as an error
    pr = vlib.run_harness(binary, [{"mode": "probe"}])[0]
    fixed.update({"wb": bool(pr["lock_in_set"]), "list": bool(pr["lock_in_append"]), "cwf": bool(pr["invalidates"]), "cre": bool(pr["read_error_is_error"]),
                  "explock": bool(pr["lock_in_setexp_read"]) or not pr["lock_in_set"]})
    locks = "wb+list" if (fixed["wb"] and fixed["list"]) else "wb" if fixed["wb"] else ""

    if only_cases is not None:
        cases = only_cases
    else:
        cases = []
        for f in sorted(glob.glob(os.path.join(vlib.VERIF, "corpus", "C14", "*.json"))):
            cases.append(json.load(open(f)))
        cases += witness_cases(fixed)
        cases += nodes_witnesses()
        tables = vlib.run_harness(binary, [{"mode": "tables"}])[0]
        cases += nodes_prefix_cases(tables)
        dc = nodes_drop_cases(tables)
        cases += dc if thorough else [dc[i] for i in sorted(rng.sample(range(len(dc)), 250))] + [x for x in dc if x["table"] == "shared_persistent" and x["writes"][0] == "setnx"][:20]
        cases += [nodes_case(rng, cats, fixed["setnx"]) for _ in range(4000 if thorough else 350)]
        cases += alias_cases(rng, cats, 3000 if thorough else 200)
        cases += long_list_cases()
        cases += dup_list_cases()
        gj = Gen(rng, cats, fixed["setnx"])
        for _ in range(1500 if thorough else 150):
            cj = gj.case()
            cj["jsonp"] = True    # the persistent tier and seeded cache entries hold lists as JSON text (what a remote / database tier returns)
            cases.append(cj)
        gp = Gen(rng, cats, fixed["setnx"])
        for _ in range(1500 if thorough else 150):
            cpl = gp.case()
            cpl["plain"] = True   # caches without SetNX / IncrBy: hybrid's own Get+Set / Exists+Set fallbacks race the other callers
            cases.append(cpl)
        g = Gen(rng, cats, fixed["setnx"])
        cases += [g.case() for _ in range(12000 if thorough else 1200)]
        ex = exhaustive_cases(cats, locked=bool(fixed["wb"]))
        cases += ex if thorough else [ex[i] for i in sorted(rng.sample(range(len(ex)), 600))]
        # category correspondence on arbitrary keys: prefixes, truncations, extensions, mutations
        allp = sorted({p.split("%d")[0] for p in POOL}) + ["tunnox:", "webhooks:", "webhook_log:", "webhook_logs:", "tunnox:mappings:list", ""]
        ck = []
        for _ in range(4000 if thorough else 600):
            p = rng.choice(allp)
            m = rng.randrange(5)
            if m == 0:
                p = p[:rng.randrange(len(p) + 1)]
            elif m == 1:
                p = p + "".join(rng.choice("abc:_1") for _ in range(rng.randrange(4)))
            elif m == 2 and p:
                i = rng.randrange(len(p))
                p = p[:i] + rng.choice("abc:_x") + p[i + 1:]
            elif m == 3:
                p = rng.choice("xt:") + p
            ck.append(p)
        cases += [{"mode": "cat", "keys": ck[i:i + 50]} for i in range(0, len(ck), 50)]
        for key, shared, pers in (("tunnox:http_domain:next_id", True, False), ("tunnox:temp:ctr", False, False), ("tunnox:id:ctr", True, True)):
            cases += [{"mode": "stress", "shared": shared, "pers": pers, "keys": [key], "n": n, "m": 200 if thorough else 60, "kind": "incr"}
                      for n in ((4, 16, 64) if thorough else (8, 32))]
        cases += [{"mode": "stress", "shared": True, "pers": True, "keys": ["tunnox:client_mappings:5"], "n": 16, "m": 30, "kind": "append"}]

    for c in cases:
        if c["mode"] in ("sched", "nodes"):
            c["locks"] = locks
    outs = vlib.run_harness(binary, cases, timeout=2400)
    nfail, keys_hit = 0, {}
    stats = {"sched_cases": 0, "cat_cases": 0, "stress_cases": 0, "alias_mode_cases": sum(1 for c in cases if c.get("raw")), "nodes_steps": 0, "late_writebacks": 0, "writebacks_spawned": 0, "faults_injected": 0,
             "ops": 0, "predicate_failures_by_key": keys_hit}
    for c, o in zip(cases, outs):
        if fixed["wb"]:
            # the repaired facade makes NO asynchronous tier call (C14_no_stale_all_schedules: no write-back is ever spawned)
            for a in (o.get("async") or [])[:1]:
                ctx.violation("unexpected-async-tier-call", "real hybrid.Storage: %s(%r) on tier %d was called from a goroutine that belongs to no caller: %s"
                              % (a["m"], a["key"], a["tier"], a["frame"]),
                              {"case": c, "observed": {k2: o[k2] for k2 in ("logs", "sched", "final", "viol", "async", "results") if k2 in o}})
        if o.get("lock_note"):
            stats["harness_lock_notes"] = stats.get("harness_lock_notes", 0) + 1
        if o.get("wb_missing") or o.get("overflow"):
            ctx.violation("writeback-not-observed", "a successful persistent read inside hybrid.Get was not followed by the asynchronous cache "
                          "write-back the model expects (or more write-backs than readers appeared)", {"case": c, "observed": o})
        for v in o["viol"]:
            nfail += 1
            key = classify(c, o, v, fixed) if c["mode"] == "sched" else classify_nodes(c, o, v) if c["mode"] == "nodes" else \
                {"incr-duplicate": "incr-local-nonatomic" if not fixed["incr"] else "incr-duplicate",
                 "list-lost-append": "list-lost-update-overlapping-calls"}.get(v["kind"], v["kind"])
            keys_hit[key] = keys_hit.get(key, 0) + 1
            if keys_hit[key] <= 2 or key not in ctx.known:
                small = {k2: o[k2] for k2 in ("logs", "sched", "final", "viol", "results", "locals", "shared", "pers") if k2 in o}
                ctx.violation(key, "real hybrid.Storage: " + v["msg"], {"case": c, "observed": small})
    sc = [(c, o) for c, o in zip(cases, outs) if modelled(c) or c["mode"] == "cat"]
    nodes_steps = sum(len(c["steps"]) for c in cases if c["mode"] == "nodes")
    terms = [case_value(c, o, fixed) for c, o in sc]
    mism = []
    try:
        res = vlib.model_eval("C14", terms)
        mism = [i for i, ok in enumerate(res) if not ok]
        small = [i for i in range(len(terms)) if sc[i][0]["mode"] == "sched" and len(sc[i][1]["sched"]) < 30][:30]
        vm_bad = sorted(small[k] for k in vlib.vm_crosscheck("C14", [terms[i] for i in small]))
        if vm_bad != sorted(i for i in small if not res[i]):
            raise vlib.Broken("extracted runner and vm_compute disagree on the C14 model", str(vm_bad))
        ctx.coverage["vm_compute_crosschecked_cases"] = len(small)
    except vlib.Broken as b:
        broken = broken or b
    for i in mism[:3]:
        c, o = sc[i]
        what = "Corr/C14.check: category/getCacheForKey of the model and of the real code differ on a key" if c["mode"] == "cat" else \
            "Corr/C14.check: multi-node Hybrid model (HybridNodes.mexec_seq) and the real hybrid.Storage instances disagree on a sequential cross-node history" if c["mode"] == "nodes" else \
            "Corr/C14.check: Hybrid model and the real hybrid.Storage disagree on a replayed schedule (results, final tier contents or write-backs spawned)"
        pred = None
        try:
            pred = vlib.model_eval("C14", [terms[i]], predict=True)[1][0]
        except Exception:
            pass
        if not ctx.violations:
            ctx.violation("model-mismatch", what, {"case": c, "observed": {k: o[k] for k in ("logs", "sched", "final", "spawned", "cats", "cache_shared", "results", "locals", "shared", "pers") if k in o},
                                                    "model_predicts": pred}, found_input=False)
    nontriv = set()
    for c, o in zip(cases, outs):
        if c["mode"] == "sched":
            stats["sched_cases"] += 1
            stats["writebacks_spawned"] += o["spawned"]
            stats["faults_injected"] += sum(1 for a in o["acc"] if a["fault"])
            stats["ops"] += sum(len(t) for t in o["logs"])
            lw = late_writebacks(c, o)
            stats["late_writebacks"] += len(lw)
            spans = [(r["first"], r["last"]) for lg in o["logs"][:-1] for r in lg if r["first"] >= 0]
            overlap = any(a[0] < b[1] and b[0] < a[1] and a != b for a, b in itertools.combinations(spans, 2))
            if (overlap or o["spawned"] > 0) and len(c["sched"]) > 0:
                nontriv.add(json.dumps([c["threads"], c["sched"], c["init"], c["keys"], c["shared"], c["pers"]], sort_keys=True))
        elif c["mode"] == "cat":
            stats["cat_cases"] += len(c["keys"])
        elif c["mode"] == "nodes":
            stats["nodes_cases"] = stats.get("nodes_cases", 0) + 1
            if c.get("prefix"):
                stats["prefix_table_cases"] = stats.get("prefix_table_cases", 0) + 1
            if len({st["node"] for st in c["steps"]}) > 1 and any(st["op"]["op"] in ("set", "del", "setnx") for st in c["steps"]):
                nontriv.add(json.dumps([c["steps"], c["init"], c["keys"], c["shared"], c["pers"]], sort_keys=True))
        else:
            stats["stress_cases"] += 1
    stats["nodes_steps"] = nodes_steps
    samples = [{"case": c, "observed": {"logs": o["logs"], "sched": o["sched"], "final": o["final"], "viol": o["viol"]}}
               for c, o in list(zip(cases, outs))[:400] if c["mode"] == "sched" and len(json.dumps(o["logs"])) < 1500][:2]
    ctx.coverage.update({
        "evaluations": len(cases), "distinct_nontrivial": len(nontriv),
        "rule": "schedules (one tier call per entry; callers and write-back workers) of 1-4 concurrent callers doing Set/Get/Delete/Exists/"
                "AppendToList/RemoveFromList/Incr/SetNX on 1-3 keys of every prefix class, over 4 tier configurations, coherent initial tier "
                "contents (warm or cold cache), injected single tier-call failures; replayed deterministically on the real hybrid.Storage through "
                "gated tier doubles (real memory.Storage caches, map-backed persistent tier); plus all interleavings of selected operation pairs "
                "with every placement of the write-back (sampled in quick tier), category lookups on mutated keys, ungated contention loops. "
                "non-trivial = prescribed schedule non-empty and (two operations overlap or a write-back was spawned); distinct by (scripts, "
                "schedule, initial contents, keys, configuration).",
        "samples": samples,
        "tree_variant": {k + "_repaired": bool(v) for k, v in fixed.items()},
        "model_vs_impl_cases": len(terms), "model_vs_impl_mismatches": len(mism), "impl_predicate_failures": nfail,
        "input_distribution": stats, "generated_file_changed": gen_changed, "exhaustive": False,
    })
    ctx.assumptions += [
        "each tier call is atomic (memory.Storage mutex / one Redis command / one persistent-store call); the model's step granularity is one tier call",
        "cache TTL expiry and eviction are not modelled (cold caches are initial states instead); Redis and remote gRPC tiers are represented by memory.Storage and a map",
        "theorems about one key: operations on other keys do not touch it (each tier call addresses exactly its key)",
        "write-back staleness and get-modify-set list updates are recorded known findings; positive theorems exclude exactly those regions (single-tier keys for all schedules, non-overlapping operations with prompt write-back for two-tier keys)",
    ]
    if broken is not None:
        raise broken


def replay(ctx, path):
    r = json.load(open(path))
    rp = r["replay"]
    if "case" not in rp:
        raise vlib.Broken("replay file carries no case (proof or build failure): " + str(rp.get("broken")), str(rp.get("detail", ""))[:2000])
    run(ctx, only_cases=[rp["case"]])

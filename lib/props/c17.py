"""C17 — configured limits and quotas hold under concurrency."""
import glob
import json
import os

import vlib

# harness predicate key -> (key when the tree still has the recorded defect, key otherwise)
KNOWN_PINNED = {
    "server-cap": ("server", "server-cap-check-then-insert", "server-cap-exceeded"),
    "mapping-cap": ("mapping", "mapping-cap-load-then-add", "mapping-cap-exceeded"),
    "mapping-cap-live": ("mapping", "mapping-slot-released-at-return", "mapping-live-tunnels-exceed-cap"),
}
QUOTA_KEYS = {"conncode-create-quota": "conncode-create-quota-race",
              "conncode-activate-mapping-quota": "conncode-activate-mapping-quota-race"}

# read faults are outside C17's quantifier; the create path is fail closed on HEAD and stays a predicate (never known);
# the activation path is only recorded and diffed with the model (policy probed)
PROBES = [
    {"mode": "server", "max": 1, "pre": 0, "closes": [False, False], "sched": [0, 1, 0, 1]},
    {"mode": "mapseq", "kind": "mapping", "max": 1, "ops": [[0], [0]]},
    {"mode": "quota", "kind": "code", "max": 2, "pre": 1, "threads": 2, "sched": [0, 1, 0, 1]},
    {"mode": "quota", "kind": "mapping", "max": 2, "pre": 1, "threads": 2, "sched": [0, 1, 0, 1]},
    {"mode": "qfault", "kind": "mapping", "max": 2},
    # two logins of one client: does UpdateAuth remove the connection the client id resolved to (/repo eb41b39)?
    {"mode": "reg", "kind": "control", "max": 5, "ops": [[0, 1, 10], [2, 1, 7], [0, 2, 20], [2, 2, 7]]},
]


def overlap_free(sched, n):
    """quota macro schedule: does any caller start counting while another sits between count and create?"""
    phase = [0] * n
    for i in sched:
        if phase[i] == 0:
            if any(p == 1 for j, p in enumerate(phase) if j != i):
                return False
            phase[i] = 1
        elif phase[i] == 1:
            phase[i] = 2
    return True


# ---------------------------------------------------------------------------------------------- generators

def gen_server(rng):
    mx = rng.choice([0, 1, 1, 1, 2, 2, 3, 5])
    n = rng.choice([2, 2, 3, 3, 4, 5, 6])
    pre = 0 if mx == 0 else rng.choice([mx - 1, mx - 1, mx - 1, 0, mx, rng.randrange(mx + 1)])
    closes = [rng.random() < 0.35 for _ in range(n)]
    style = rng.random()
    if style < 0.35:      # every caller passes the check before anyone inserts, then inserts in random order
        first = list(range(n))
        rng.shuffle(first)
        second = list(range(n))
        rng.shuffle(second)
        sched = first + second + [rng.randrange(n) for _ in range(rng.choice([0, 2, 4]))]
    else:
        sched = [rng.randrange(n) for _ in range(rng.choice([n, 2 * n, 3 * n, 4 * n]))]
    return {"mode": "server", "max": mx, "pre": pre, "closes": closes, "sched": sched}


def gen_reg(rng):
    kind = rng.choice(["tunnel", "control", "control", "control-sm"])
    mx = rng.choice([0, 1, 2, 2, 3, 4])
    nops = rng.choice([5, 10, 18, 30])
    stamps = rng.sample(range(1, 1000), nops)
    ops = []
    # identities: a small client-id space, so that the same client is often authenticated on two registered connections
    # (UpdateAuth of a second connection to a client id another one holds; registration of an already authenticated connection)
    auth = rng.choice([0.0, 0.2, 0.35])
    for k in range(nops):
        r = rng.random()
        if r < auth:
            ops.append([2, rng.randrange(1, 8), rng.randrange(1, 4)])
        elif r < auth + (1 - auth) * 0.72:
            ident = 0 if rng.random() < 0.04 else rng.randrange(1, 8)
            if kind != "tunnel" and auth > 0 and rng.random() < 0.3:
                ops.append([0, ident, stamps[k], rng.randrange(1, 4)])
            elif kind == "tunnel" and rng.random() < 0.5:
                # a registration carrying a TunnelID from a small space: often one that is already registered under another ConnID
                ops.append([0, ident, stamps[k], rng.randrange(1, 4)])
            else:
                ops.append([0, ident, stamps[k]])
        else:
            ops.append([1, rng.randrange(1, 8)])
    return {"mode": "reg", "kind": kind, "max": mx, "ops": ops}


def gen_mapseq(rng):
    mx = rng.choice([0, 1, 1, 2, 3])
    ops, opened = [], 0
    early = rng.choice([0.0, 0.25, 0.25])
    kind = rng.choice(["mapping", "user", "user"])
    qfail = rng.choice([0.0, 0.25, 0.4]) if kind == "user" else 0.0
    for _ in range(rng.choice([4, 8, 14])):
        if opened == 0 or rng.random() < 0.6:
            # [2]: the tunnel of this connection is closed by its peer between RegisterTunnel and tun.Start()
            # [3]: (limit source = user quota) GetUserQuota() fails for this arrival only
            r = rng.random()
            ops.append([3] if r < qfail else ([2] if r < qfail + early else [0]))
            opened += 1
        else:
            if rng.random() < 0.12:
                ops.append([6])      # the mapping's handler is stopped and replaced while connections are in flight
                continue
            r = rng.random()
            # [4,k]: tunnel k is closed from outside and its local socket's Close() parks (connection still open); [5,k]: it returns
            ops.append([4, rng.randrange(opened)] if r < 0.3 else ([5, rng.randrange(opened)] if r < 0.5 else [1, rng.randrange(opened)]))
    return {"mode": "mapseq", "kind": kind, "max": mx, "ops": ops}


def gen_quota(rng):
    mx = rng.choice([1, 2, 2, 3])
    n = rng.choice([2, 2, 3, 4])
    pre = rng.choice([mx - 1, mx - 1, 0, mx])
    if rng.random() < 0.25:
        # marker hand-over among THREE requests of the client: A takes the marker, B's SetNX is lost, A finishes and releases,
        # B moves again (the code: it already got a Conflict), C arrives; then everybody runs on in random order
        n, mx = 3, rng.choice([2, 2, 3])
        pre = rng.choice([mx - 2, mx - 2, mx - 1, 0])
        tail = [rng.randrange(3) for _ in range(6)]
        return {"mode": "quota", "kind": rng.choice(["code", "mapping"]), "max": mx, "pre": max(pre, 0), "threads": 3,
                "sched": [0, 0, 1, 1, 0, 1, 2, 2, 1, 2] + tail}
    if rng.random() < 0.4:
        a = list(range(n))
        rng.shuffle(a)
        b = list(range(n))
        rng.shuffle(b)
        sched = a + b
    else:
        sched = [rng.randrange(n) for _ in range(rng.choice([n, 2 * n, 3 * n]))]
    return {"mode": "quota", "kind": rng.choice(["code", "mapping"]), "max": mx, "pre": pre, "threads": n, "sched": sched}


def gen_regsched(rng):
    """k <= max concurrent Registers of new connections on a FULL control registry whose evicted streams park in Close()"""
    mx = rng.choice([1, 2, 2, 3, 4])
    n = rng.randrange(2, mx + 1) if mx >= 2 else 1
    sched = [rng.randrange(n) for _ in range(rng.choice([n + 1, 2 * n, 2 * n + 1]))]
    if rng.random() < 0.5:
        sched = list(range(n)) + sched
    return {"mode": "regsched", "kind": rng.choice(["control", "control", "control-sm"]), "max": mx, "n": n, "sched": sched}


def qlist_cases(thorough):
    """a create listed between every two of its storage writes, then sequential creates up to and past the limit"""
    out = []
    for mx in ([1, 2, 3, 5] + ([8] if thorough else [])):
        for pre in sorted({0, mx - 1}):
            out.append({"mode": "qlist", "max": mx, "pre": pre, "n": mx - pre + 1})
    return out


def qclaim_cases(thorough):
    """a create of the client arriving while an activation of one of its codes holds the claim (client at its limit)"""
    return [{"mode": "qclaim", "max": m} for m in ([1, 2, 3, 10] + ([5] if thorough else []))]


def qfault_cases(thorough):
    """exhaustive over the read positions of the count (the harness enumerates them) for a few limits"""
    limits = [1, 2, 3, 5, 10] + ([7, 16] if thorough else [])
    return [{"mode": "qfault", "kind": k, "max": m} for k in ("code", "mapping") for m in limits]


def gen_maprace(rng, trials):
    mx = rng.choice([1, 1, 2, 3])
    return {"mode": "maprace", "kind": rng.choice(["user", "user", "mapping"]), "max": mx,
            "pre": rng.choice([mx - 1, 0]), "n": rng.choice([2, 4, 8, 8]), "trials": trials}


def gen_regrace(rng, trials):
    mx = rng.choice([1, 2, 3, 8])
    kind = rng.choice(["tunnel", "control", "tunnel-tid"])
    if kind == "tunnel-tid":
        # FULL tunnel registry; every concurrent registration is a NEW ConnID carrying the TunnelID of a registered tunnel
        return {"mode": "regrace", "kind": kind, "max": mx, "pre": mx, "n": rng.choice([4, 8, 16]), "trials": trials}
    return {"mode": "regrace", "kind": kind, "max": mx, "pre": rng.choice([mx - 1, 0]),
            "n": rng.choice([4, 16, 32]), "trials": trials}


# ---------------------------------------------------------------------------------------------- model values

def case_value(c, o, variants):
    m = c["mode"]
    if m == "server":
        return [0, variants["server"], c["max"], c["pre"], [bool(b) for b in c["closes"]], list(o["sched"]),
                [[a, b] for a, b in o["counts"]], list(o["outcomes"])]
    if m == "reg":
        return [1, 0 if c["kind"] == "tunnel" else 1, c["max"], [list(op) for op in c["ops"]],
                [bool(x) for x in o["outcomes"]], [list(k) for k in o["keys"]], variants["auth_evicts"]]
    if m == "mapseq":
        # a counter below zero cannot be written as a model value: map it to a number no model run produces
        return [2, variants["mapping"], c["max"], [list(op) for op in c["ops"]],
                [[a if a >= 0 else 999999, b] for a, b in o["counts"]], list(o["outcomes"])]
    if m == "qclaim":
        return [7, c["max"], list(o["outcomes"]), o["final"]]
    if m == "qlist":
        return [6, c["max"], c["pre"], list(o["keys"][0]) if o["keys"] else [], o["counts"][0][0] if o["counts"] else 0,
                o["counts"][0][1] if o["counts"] else 0, c["n"], o["final"]]
    if m == "regsched":
        ops = [[0, 100 + k, k] for k in range(c["max"])] + [[0, 1 + i, 1000 + i] for i in range(c["n"])]
        return [5, c["max"], ops, list(o["keys"][0]) if o["keys"] else []]
    if m == "quota":
        return [3, variants["quota_" + c["kind"]], c["max"], c["pre"], c["threads"], list(o["sched"]),
                [[a, b] for a, b in o["counts"]], list(o["outcomes"])]
    if m == "qfault":
        # policy: 0 = a failing read aborts the admission (the code's CreateConnectionCode; the statement's reading),
        #         2 = failing index read = empty listing, failing by-id read skipped (ActivateConnectionCode as found)
        policy = 0 if c["kind"] == "code" else variants["mapping_fault"]
        return [4, policy, c["max"], c["max"], list(o["keys"][0]) if o["keys"] else [], list(o["outcomes"])]
    return None


def nontrivial(c, o):
    """a case counts when the limit was actually contended / reached"""
    m = c["mode"]
    if m == "server":
        if c["max"] == 0:
            return False
        phase, parked, best = {}, 0, 0
        for i in o["sched"]:
            p = phase.get(i, 0)
            if p == 0:
                phase[i] = 1
                parked += 1
            elif p == 1:
                phase[i] = 2
                parked -= 1
            best = max(best, parked)
        return best >= 2 and (2 in o["outcomes"] or o["max_seen"] >= c["max"])
    if m == "reg":
        return c["max"] > 0 and o["max_seen"] >= c["max"] and len(c["ops"]) > c["max"]
    if m == "mapseq":
        return c["max"] > 0 and (2 in o["outcomes"] or o["max_seen"] > c["max"] or any(op[0] in (2, 3, 4, 6) for op in c["ops"]))
    if m == "regsched":
        return c["n"] >= 2
    if m == "quota":
        return not overlap_free(o["sched"], c["threads"]) or 2 in o["outcomes"] or 5 in o["outcomes"]
    if m == "qfault":
        return len(o["outcomes"]) >= 2
    if m == "qclaim":
        return len(o["outcomes"]) == 2
    if m == "qlist":
        return bool(o["keys"]) and len(o["keys"][0]) >= 2 and 2 in o["outcomes"]
    if m in ("maprace", "regrace"):
        return c["max"] > 0 and c["pre"] + c["n"] > c["max"]
    return False


def run_chunked(binary, cases, chunk_timeout):
    """the harness in chunks of 150 cases, each chunk its own process with a bound: a case on which the real code (or a harness wait
    that relies on it) never returns is found by running the chunk's cases one by one, reported with that case as the failing input,
    and the rest of the run goes on"""
    outs = []
    for a in range(0, len(cases), 150):
        chunk = cases[a:a + 150]
        try:
            outs += vlib.run_harness(binary, chunk, timeout=chunk_timeout)
            continue
        except vlib.Broken as b:
            if "timed out" not in str(b):
                raise
        found = False
        for c in chunk:
            if found:
                outs.append({"prop_ok": True, "prop_key": "harness", "prop_msg": "skipped: an earlier case of this chunk did not terminate"})
                continue
            try:
                outs += vlib.run_harness(binary, [c], timeout=40)
            except vlib.Broken as b:
                if "timed out" not in str(b):
                    raise
                found = True
                outs.append({"prop_ok": False, "prop_key": "harness", "sched": [], "admitted": [],
                             "prop_msg": "the case did not terminate within 40 s (the real code, or a wait that relies on its limit being enforced, never returns)"})
        if not found:
            raise vlib.Broken("harness chunk timed out after %ss but every case of it terminates alone" % chunk_timeout, "")
    return outs


def run(ctx, only_cases=None):
    thorough = ctx.tier == "thorough"
    binary = vlib.build_harness("C17")
    gen_changed = vlib.write_if_changed(os.path.join(vlib.COQ, "Gen", "C17.v"), vlib.harness_text(binary, ["gen"]))
    broken = None
    try:
        pinfo = vlib.coq_properties("C17")
        vlib.proof_coverage(ctx, pinfo, "make -C coq Properties/C17.vo && coqc Properties/C17.v (Print Assumptions audit)",
                            extra_obligations=7)   # the 7 side-condition lemmas of Proofs/SideC17.v
    except vlib.Broken as b:
        broken = b

    # which variant of the two repairable call sites does this tree contain?  (behavioural probe, deterministic)
    pr = vlib.run_harness(binary, PROBES, timeout=120)
    variants = {"server": 0 if pr[0]["final"] == 2 else 1, "mapping": 0 if pr[1]["max_seen"] == 2 else 1,
                # per-client admission marker around count + create present?  (pinned: count/count/create/create exceeds)
                "quota_code": 0 if pr[2]["final"] == 3 else 1, "quota_mapping": 0 if pr[3]["final"] == 3 else 1,
                # does the activation's listing turn a failing read into an under-count?  (2 = Open policy, 0 = aborts)
                "mapping_fault": 2 if 2 in pr[4]["outcomes"] else 0, "code_fault": 0,
                "auth_evicts": 1 if pr[5]["keys"][-1] == [2] else 0}

    if only_cases is not None:
        cases = only_cases
    else:
        cases = []
        for f in sorted(glob.glob(os.path.join(vlib.VERIF, "corpus", "C17", "*.json"))):
            cases.append(json.load(open(f)))
        rng = ctx.rng
        k = 6 if thorough else 1
        cases += [gen_server(rng) for _ in range(400 * k)]
        cases += [gen_reg(rng) for _ in range(300 * k)]
        cases += [gen_mapseq(rng) for _ in range(60 * k)]
        cases += [gen_regsched(rng) for _ in range(30 if thorough else 10)]
        cases += [gen_quota(rng) for _ in range(120 * k)]
        cases += qfault_cases(thorough)
        cases += qlist_cases(thorough)
        cases += qclaim_cases(thorough)
        cases += [gen_maprace(rng, 1500 if thorough else 250) for _ in range(16 if thorough else 8)]
        cases += [gen_regrace(rng, 200 if thorough else 30) for _ in range(12 if thorough else 6)]
        cases += [{"mode": "regrace", "kind": "tunnel-tid", "max": m, "pre": m, "n": 8, "trials": 200 if thorough else 30} for m in (1, 2, 3)]
    for c in cases:
        if c["mode"] == "mapseq":
            c["pre"] = 1 if variants["mapping"] == 0 else 0     # tells the harness whether the counter covers live tunnels at all
    outs = run_chunked(binary, cases, 300 if not thorough else 1500)

    nfail, fail_keys = 0, {}
    for c, o in zip(cases, outs):
        if o["prop_ok"]:
            continue
        nfail += 1
        hk = o["prop_key"]
        key = hk
        if hk in KNOWN_PINNED:
            site, pinned_key, other = KNOWN_PINNED[hk]
            key = pinned_key if variants[site] == 0 else other
        elif hk in QUOTA_KEYS and c["mode"] == "qlist":
            key = hk + "-uncounted-code"
        elif hk in QUOTA_KEYS and c["mode"] == "qclaim":
            key = hk + "-claimed-code-not-counted"
        elif hk in QUOTA_KEYS:
            # the recorded defect is the overlap of two admissions between count and create on a tree WITHOUT the per-client
            # admission marker; over the limit on an overlap-free schedule, or on a tree with the marker, is a new failure
            if variants["quota_" + c["kind"]] == 1:
                key = hk + "-exceeded-on-repaired-tree"
            else:
                key = QUOTA_KEYS[hk] if not overlap_free(o["sched"], c["threads"]) else hk + "-without-overlap"
        fail_keys[key] = fail_keys.get(key, 0) + 1
        if fail_keys[key] <= 1:
            small = dict(o)
            if len(small.get("admitted", [])) > 40:
                small["admitted"] = small["admitted"][:40] + ["..."]
            ctx.violation(key, "real code, mode %s: %s" % (c["mode"], o["prop_msg"]), {"case": c, "observed": small})

    mc = [(c, o) for c, o in zip(cases, outs) if c["mode"] in ("server", "reg", "mapseq", "quota", "qfault", "regsched", "qlist", "qclaim") and o["prop_key"] != "harness"]
    terms = [case_value(c, o, variants) for c, o in mc]
    mism = []
    try:
        res = vlib.model_eval("C17", terms)
        mism = [i for i, ok in enumerate(res) if not ok]
        small = [i for i in range(len(terms)) if len(json.dumps(terms[i])) < 260][:30]
        vm_bad = sorted(small[k] for k in vlib.vm_crosscheck("C17", [terms[i] for i in small]))
        if vm_bad != sorted(i for i in small if not res[i]):
            raise vlib.Broken("extracted runner and vm_compute disagree on the C17 model", str(vm_bad))
        ctx.coverage["vm_compute_crosschecked_cases"] = len(small)
    except vlib.Broken as b:
        broken = broken or b
    reported = set()
    for i in mism:
        c, o = mc[i]
        key = "model-mismatch-" + c["mode"] + ("-" + c.get("kind", "") if c["mode"] in ("reg", "quota", "qfault", "regsched") else "")
        if key in reported:
            continue
        reported.add(key)
        ctx.violation(key, "Corr/C17.check: the Limits model (tree variants detected: %s) and the real code disagree on a replayed %s case "
                      "(occupancy after some step or a caller's outcome differs)"
                      % (json.dumps(variants), c["mode"]),
                      {"case": c, "observed": o, "variants": variants}, found_input=not o["prop_ok"])

    nontriv = set()
    dist = {}
    for c, o in zip(cases, outs):
        dist[c["mode"]] = dist.get(c["mode"], 0) + 1
        if o.get("prop_key") != "harness" and nontrivial(c, o):
            nontriv.add(json.dumps(c, sort_keys=True))
    trials = sum(c.get("trials", 0) for c in cases if c["mode"] in ("maprace", "regrace"))
    samples = []
    for want in ("server", "quota", "qfault", "regsched", "reg", "mapseq"):
        for c, o in zip(cases, outs):
            if c["mode"] == want and nontrivial(c, o):
                samples.append({"case": c, "observed": {k: o[k] for k in ("sched", "counts", "outcomes", "keys", "max_seen", "prop_ok")}})
                break
    ctx.coverage.update({
        "evaluations": len(cases) + trials,
        "distinct_nontrivial": len(nontriv),
        "rule": "server: schedules of 2-6 CreateConnection callers (some closing again) replayed deterministically on a real SessionManager "
                "through a reader whose GetConnectionID() parks between the count check and the insert; non-trivial = limit set, at least two "
                "callers parked between check and insert at the same time and the limit reached or a caller refused. reg: operation sequences on "
                "real TunnelRegistry / ClientRegistry / SessionManager control registrations, non-trivial = limit reached. mapseq: open/close "
                "histories with real tunnels, non-trivial = a refusal or the limit exceeded. quota: CreateConnectionCode / ActivateConnectionCode "
                "callers parked at their first storage write by a gated store, non-trivial = two admissions overlap between count and create, "
                "or a refusal. qclaim: client at its code limit, the activation of one of its codes parked after Claim and before the code is written "
                "back, a create arrives (must be refused: a claimed code is still active), activation finishes, a create is accepted. mapseq also has "
                "closes from outside the copy loop with the local socket's Close() parked (the connection stays open and keeps its slot). qlist: one CreateConnectionCode parked before every storage write with the client's codes listed at each park point, "
                "then sequential creates past the limit; oracle = codes that really exist (ground truth per handed-out code) <= limit and = the quota's count. regsched: a FULL control registry whose connections carry a stream that parks in Close(), k<=max concurrent "
                "Registers of new connections driven by a schedule (start caller / let one parked Close go); count sampled after every step and "
                "at the end, final key set compared with the model; non-trivial = at least two concurrent callers. mapseq histories include opens "
                "whose tunnel is closed by its peer between RegisterTunnel and Start (counter must stay >= 0 and equal to the live tunnels). qfault: the same two requests at a FULL quota, once per storage read position of the count (index GetList, every "
                "by-id Get, reads before the count) with exactly that read failing; create path: predicate never let in + stored key set unchanged; "
                "activation path: outcome recorded and diffed with the model only (storage faults are outside the property's quantifier); "
                "exhaustive over the positions for limits 1,2,3,5,10; non-trivial = at least two positions. maprace/regrace: barrier-released contention trials (counted in evaluations, one distinct case per configuration). "
                "distinct by the whole case.",
        "samples": samples[:6],
        "model_vs_impl_cases": len(terms), "model_vs_impl_mismatches": len(mism), "impl_property_failures": nfail,
        "impl_property_failures_by_key": fail_keys,
        "tree_variants_detected": dict({k: ("pinned" if variants[k] == 0 else "repaired") for k in ("server", "mapping", "quota_code", "quota_mapping")},
                                       updateauth_removes_previous_holder=bool(variants["auth_evicts"]),
                                       code_count_on_read_fault="aborts (fail closed)",
                                       activation_count_on_read_fault="reads a failing read as absent (documented choice)" if variants["mapping_fault"] == 2 else "aborts"),
        "read_fault_positions_tried": sum(len(o["outcomes"]) for c, o in zip(cases, outs) if c["mode"] == "qfault"),
        "input_distribution": dict(dist, contention_trials=trials,
                                   mapseq_with_quota_fault=sum(1 for c in cases if c["mode"] == "mapseq" and any(op[0] == 3 for op in c["ops"])),
                                   tunnel_reg_with_known_tunnel_id=sum(1 for c in cases if c["mode"] == "reg" and c["kind"] == "tunnel" and any(op[0] == 0 and len(op) > 3 for op in c["ops"])),
                                   reg_with_shared_client_identity=sum(1 for c in cases if c["mode"] == "reg" and any(op[0] == 2 or len(op) > 3 for op in c["ops"])),
                                   limits=sorted(set(c["max"] for c in cases)),
                                   server_all_check_first=sum(1 for c in cases if c["mode"] == "server" and sorted(c["sched"][:len(c["closes"])]) == list(range(len(c["closes"])))),
                                   quota_overlapping=sum(1 for c, o in zip(cases, outs) if c["mode"] == "quota" and not overlap_free(o["sched"], c["threads"]))),
        "generated_file_changed": gen_changed,
    })
    ctx.assumptions += [
        "one mutex-protected section / one atomic Load, Add, CAS / one storage-level count or create is one atomic step",
        "connection ids handed to CreateConnection are pairwise distinct (C15), so an insert adds an entry and CreateStream does not fail",
        "client mapping cap with the user quota as limit source: an arrival during a failing GetUserQuota() is let through and counted (as coded, "
        "'do not block the connection'); the cap binds the admissions decided against a known limit, the counter equals the holders at every point",
        "control cap: Register is ONE atomic step in the model; that atomicity is checked on the real code by parking the evicted connection's "
        "Stream.Close() (a blocked caller is recognised by a 40 ms quiet period — on the clean code a late caller only makes the sample less "
        "informative, never wrong); the evict;insert split is refuted in the model",
        "server cap: the replay granularity on the real code is [count check] and [GetConnectionID..insert] (the only gate the code offers); "
        "the model has the finer four-step program and is proved for every interleaving of it",
        "client mapping cap: the Load/CAS interleavings are exercised by contention trials only (no gate exists between them); "
        "whole-connection histories (slot held until the tunnel closes) are replayed deterministically",
        "per-client quotas on a tree without the admission marker: genuinely exceeded under overlap (known findings), positive theorem guarded by "
        "overlap_free; with fixes/C17-quota-per-client-admission.diff: proved for every schedule assuming the marker's TTL (30 s) outlives one admission; "
        "TTL expiry of codes is not exercised",
        "read faults: an injected fault is a non-not-found error on exactly one Get/GetList of the requesting goroutine; a not-found answer is "
        "the legitimate 'expired entry' path and is not injected; C17 does not quantify over storage faults: the create path (fail closed on HEAD) keeps the "
        "requirement 'never let in under a single failing read'; the activation's count reads a failing read as absent by documented choice — "
        "recorded and diffed with the model (policy Open), not required",
        "stream/quota_enforcer.go enforces a monthly traffic volume, not an occupancy limit: outside the statement, not modelled",
    ]
    if broken is not None:
        raise broken


def replay(ctx, path):
    r = json.load(open(path))
    run(ctx, only_cases=[r["replay"]["case"]])

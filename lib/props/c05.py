"""C05 — hostile bytes cannot crash the server or make it allocate without bound."""
import json
import os

import vlib
from props import c01


def rand_json(rng, depth=0):
    k = rng.random()
    if depth > 3 or k < 0.3:
        return rng.choice([0, 1, -1, 2 ** 63, 1e308, "", "x", "tunnel", "control", None, True, "\u0000", "9" * 40])
    if k < 0.6:
        return [rand_json(rng, depth + 1) for _ in range(rng.randrange(4))]
    keys = ["client_id", "ClientID", "token", "version", "protocol", "connection_type", "challenge_response", "tunnel_id",
            "mapping_id", "secret_key", "resume_token", "target_host", "target_port", "node_id", "x"]
    return {rng.choice(keys): rand_json(rng, depth + 1) for _ in range(rng.randrange(5))}


def string_boundary_payloads(rng):
    """structured pre-auth packets (handshake, tunnel open) whose string fields are long and end in multi-byte characters
    around the lengths at which code tends to truncate for logs or buffers"""
    out = []
    keys = ["tunnel_id", "mapping_id", "secret_key", "token", "version", "protocol", "connection_type", "node_id", "target_host",
            "challenge_response", "resume_token"]
    vals = ["a" * L + t for L in list(range(60, 68)) + [15, 16, 31, 32, 127, 128, 255, 256, 1023, 1024] for t in ("\u00e9", "\u4e2d", "\U0001F600", "\u00e9b")]
    vals += ["\u00e9" * 40, "\u4e2d" * 30, "a" * 5000]
    for ty in (0x20, 0x01):
        for k in keys:
            for v in (vals if k in ("tunnel_id", "mapping_id", "secret_key", "token") else rng.sample(vals, 14)):
                body = {"client_id": 7, "tunnel_id": "t", "mapping_id": "m"}
                body[k] = v
                out.append({"mode": "dispatch", "ty": ty, "payload": json.dumps(body, ensure_ascii=False).encode().hex()})
    return out


def dispatch_cases(rng, n_extra):
    out = string_boundary_payloads(rng)
    payloads = [b"", b"{}", b"null", b"[]", b"\xff\xfe\x00", b'{"client_id":"abc"}', b'{"client_id":-1,"connection_type":"tunnel"}',
                b'{"tunnel_id":"t","mapping_id":"m","secret_key":"s"}', b"{" * 200, b'{"client_id":99999999999999999999999}']
    for ty in range(256):
        base = ty & 0x3F
        if base in (0x10, 0x11):
            for ct in (rng.randrange(256), 13, 72, 110, 120, 121, 102, 90):
                out.append({"mode": "dispatch", "ty": ty, "payload": "",
                            "cmd": {"CommandType": ct, "CommandId": "c", "Token": "", "SenderId": rng.choice(["", "1", "x"]),
                                    "ReceiverId": rng.choice(["", "2"]), "CommandBody": rng.choice(["", "{}", "[", json.dumps(rand_json(rng))])}})
            # (a command-type packet with a nil CommandPacket is NOT generated: ReadPacket never decodes one,
            #  so it is outside "any decodable packet"; DESIGN.md section 7)
            continue
        for p in rng.sample(payloads, 3 if base not in (1, 0x20) else len(payloads)):
            out.append({"mode": "dispatch", "ty": ty, "payload": p.hex()})
    # a valid JSON value followed by trailing bytes (stream decoders behave differently from Unmarshal on these)
    trailing = [b'{"client_id":7}x', b'{"client_id":7}{"cap', b'{} {}', b'{}}', b'[]x', b'null null', b'1 2', b'{"tunnel_id":"t"}\x00', b'{}\n\n{', b'"a"b']
    for ty in (0x01, 0x20, 0x41, 0x60):
        for pl in trailing:
            out.append({"mode": "dispatch", "ty": ty, "payload": pl.hex()})
    for pl in trailing:
        out.append({"mode": "dispatch", "ty": 0x10, "payload": "",
                    "cmd": {"CommandType": rng.choice([13, 72, 120, 121, 90, 110]), "CommandId": "c", "Token": "", "SenderId": "", "ReceiverId": "", "CommandBody": pl.decode("latin1")}})
    # two-step sequences on ONE connection: a handshake (refused or not), then every command type
    hs = [{"ty": 0x01, "payload": b'{"client_id":0,"protocol":"tcp"}'.hex()}, {"ty": 0x01, "payload": b'{"client_id":12345678,"token":"x"}'.hex()}]
    for ct in range(256):
        out.append({"mode": "dispatch", "ty": 0x10, "payload": "", "pre": [hs[ct % 2]],
                    "cmd": {"CommandType": ct, "CommandId": "p", "Token": "", "SenderId": "", "ReceiverId": "", "CommandBody": "{}"}})
    for ty in (0x03, 0x20, 0x01):   # (not 0x11 with a bare payload: a command-type packet with a nil CommandPacket is never decoded by ReadPacket)
        out.append({"mode": "dispatch", "ty": ty, "payload": b"{}".hex(), "pre": hs})
    for _ in range(n_extra):
        ty = rng.choice([1, 0x20, 0x10, 3, 0x41, 0x60])
        body = json.dumps(rand_json(rng)).encode()
        if ty & 0x3F == 0x10:
            out.append({"mode": "dispatch", "ty": ty, "payload": "",
                        "cmd": {"CommandType": rng.randrange(256), "CommandId": "c", "Token": "t", "SenderId": "1", "ReceiverId": "2",
                                "CommandBody": body.decode()}})
        else:
            out.append({"mode": "dispatch", "ty": ty, "payload": body.hex()})
    return out


def stream_cases(ctx, n_seq, per):
    rng = ctx.rng
    binary01 = vlib.build_harness("C01")
    pk = c01.gen_cases(ctx, n_seq, 0)[::6]
    outs = vlib.run_harness(binary01, pk)
    wires = [o["wire"] for o in outs if o.get("wire") and len(o["wire"]) < 6000]   # (a case on which the writer/reader panicked has no wire)
    raw = c01.raw_mutations(ctx, wires, per)
    # the valid multi-packet wires themselves (sequences of frames on ONE connection: state carried from frame to frame, e.g. pooled buffers)
    for w in wires[:40]:
        raw.append({"mode": "raw", "wire": w, "cuts": rng.choice([[], [1] * 400, [5] * 100])})
    # every truncation point of a few valid streams
    for w in wires[:6]:
        b = bytes.fromhex(w)[:120]
        for i in range(len(b) + 1):
            raw.append({"mode": "raw", "wire": b[:i].hex(), "cuts": rng.choice([[], [1] * 200, [3] * 100])})
    # adversarial length fields on every type/flag class
    for ty in (0x01, 0x20, 0x22, 0x10, 0x41, 0x60, 0x50, 0x80, 0xC2, 0x3F):
        for ln in (0, 1, 2, 16777215, 16777216, 16777217, 2 ** 31 - 1, 2 ** 31, 2 ** 32 - 1):
            tail = bytes(rng.randrange(256) for _ in range(rng.choice([0, 1, 5, 40])))
            raw.append({"mode": "raw", "wire": (bytes([ty]) + ln.to_bytes(4, "big") + tail).hex(), "cuts": rng.choice([[], [1] * 50])})
    # valid gzip members with tiny / empty inflated output on every type class (boundary of "after decompression")
    import gzip as _gz
    for ty in (0x50, 0x51, 0x41, 0x60, 0x62, 0x43):
        for inner in (b"", b" ", b"{}", b"null", b"{", b"[]"):
            z = _gz.compress(inner, mtime=0)
            tail = bytes([0x20, 0, 0, 0, 1, 0x41])
            raw.append({"mode": "raw", "wire": (bytes([ty]) + len(z).to_bytes(4, "big") + z + tail).hex(), "cuts": rng.choice([[], [1] * 80, [7] * 20])})
    # frame sequences that carry buffer state from one frame to the next: a VALID compressed command of varying size followed
    # by frames whose bodies span the buffer pool's size classes (a buffer mis-filed by the first frame is handed to the second)
    for pad in (0, 40, 300, 900, 2500):
        inner = b'{"command_type":13,"command_id":"c","command_body":"{}"' + b" " * pad + b"}"
        z = _gz.compress(inner, mtime=0)
        first = bytes([rng.choice([0x50, 0x51])]) + len(z).to_bytes(4, "big") + z
        for n2 in (1, 600, 3000, 4000, 4200, 9000, 20000):
            body2 = b'{"client_id":1,"token":"' + b"a" * n2 + b'"}'
            second = bytes([rng.choice([0x01, 0x20, 0x41])]) + len(body2).to_bytes(4, "big") + body2
            third = bytes([0x10]) + len(inner).to_bytes(4, "big") + inner
            raw.append({"mode": "raw", "wire": (first + second + third + first + second).hex(), "cuts": rng.choice([[], [1000] * 80, [7] * 20]),
                        "big": n2 > 3900})   # (bodies above 4096 are not echoed by the harness: Go-side predicate only, not pushed through the model)
    # command-carrying frames with 0-3 byte bodies: every one-byte body, and two/three-byte bodies around multi-byte markers
    # (BOM EF BB BF, UTF-8 lead bytes, JSON punctuation), plain and as the inflated content of a compressed frame
    tiny = [bytes([b]) for b in range(256)] + [bytes([0xEF, x]) for x in (0x00, 0xBB, 0xBF, 0xFF)] + [bytes([0xEF, 0xBB, x]) for x in (0x00, 0xBF, 0xFF)] \
        + [b"", b"{", b"{}", b'"', b'""', b"[", b"0", b"-", b"\xc3", b"\xe2\x82", b"\xf0\x9f\x98"]
    tail = bytes([0x20, 0, 0, 0, 1, 0x41])
    for ty in (0x10, 0x11):
        for b in tiny:
            raw.append({"mode": "raw", "wire": (bytes([ty]) + len(b).to_bytes(4, "big") + b + tail).hex(), "cuts": []})
    for b in tiny[::5] + tiny[256:]:
        z = _gz.compress(b, mtime=0)
        raw.append({"mode": "raw", "wire": (bytes([rng.choice([0x50, 0x51])]) + len(z).to_bytes(4, "big") + z + tail).hex(), "cuts": rng.choice([[], [1] * 60])})
    for c in raw:
        c["mode"] = "stream"
    return raw


def retain_cases(rng, reps):
    """the same pre-auth packet many times on ONE unauthenticated connection: retained heap must not grow per packet"""
    out = []
    for ct in (72, 73, 74, 85, 86, 87, 20, 50, 102, 110, 120, 121, 90, 13, 255):
        out.append({"mode": "retain", "ty": 0x10, "payload": "", "reps": reps,
                    "cmd": {"CommandType": ct, "CommandId": "r", "Token": "", "SenderId": "", "ReceiverId": "", "CommandBody": "{}"}})
    # command RESPONSES and proxy traffic naming fresh peer-chosen ids in every packet (state keyed by such an id must not pile up)
    fresh = '{"request_id":"q-@SEQ@","tunnel_id":"t-@SEQ@","mapping_id":"m-@SEQ@","domain":"d@SEQ@.example","status_code":200,"body":"%s"}' % ("QUJD" * 512)
    for ty in (0x10, 0x11):
        for ct in (80, 81, 82, 83, 84, 72, 85, 20, 110, 120, rng.randrange(256)):
            out.append({"mode": "retain", "ty": ty, "payload": "", "reps": reps,
                        "cmd": {"CommandType": ct, "CommandId": "f", "Token": "", "SenderId": "", "ReceiverId": "", "CommandBody": fresh}})
    # every (packet type, command type) pair in one run, large bodies, judged on the total retained
    big = '{"request_id":"q-@SEQ@","tunnel_id":"t-@SEQ@","mapping_id":"m-@SEQ@","body":"%s"}' % ("QUJD" * 65536)
    out.append({"mode": "retain", "ty": 0x10, "payload": "", "reps": 2048, "sweep": True,
                "cmd": {"CommandType": 0, "CommandId": "s", "Token": "", "SenderId": "", "ReceiverId": "", "CommandBody": big}})
    out.append({"mode": "retain", "ty": 0x20, "payload": b'{"tunnel_id":"t","mapping_id":"m"}'.hex(), "reps": reps})
    out.append({"mode": "retain", "ty": 0x01, "payload": b'{"client_id":12345}'.hex(), "reps": reps})
    out.append({"mode": "retain", "ty": 0x03, "payload": "", "reps": reps})
    return out


def run(ctx, only_cases=None):
    thorough = ctx.tier == "thorough"
    binary = vlib.build_harness("C05")
    gen_changed = vlib.write_if_changed(os.path.join(vlib.COQ, "Gen", "C05.v"), vlib.harness_text(binary, ["gen"], timeout=300))
    broken = None
    try:
        pinfo = vlib.coq_properties("C05")
        vlib.proof_coverage(ctx, pinfo, "make -C coq Properties/C05.vo && coqc Properties/C05.v (Print Assumptions audit)",
                            extra_obligations=2)
    except vlib.Broken as b:
        broken = b
    if only_cases is not None:
        streams, bombs, disp = [c for c in only_cases if c["mode"] == "stream"], [c for c in only_cases if c["mode"] == "bomb"], \
            [c for c in only_cases if c["mode"] == "dispatch"]
    else:
        streams = stream_cases(ctx, 240 if thorough else 40, 20 if thorough else 8)
        sizes = [1 << 20, 16777216, 16777217, 64 << 20] + ([512 << 20] if thorough else [])
        bombs = [{"mode": "bomb", "ty": ty, "inflated": s, "cuts": ctx.rng.choice([[], [1, 1, 1, 1, 1, 4096]])}
                 for s in sizes for ty in ((0x60, 0x50, 0x41) if thorough else (0x60,))]
        bombs += [{"mode": "bomb", "ty": ty, "inflated": n, "badjson": True, "cuts": []} for ty in (0x50, 0x51) for n in ((16777216, 1 << 20, 16777217) if thorough or ty == 0x50 else (16777216,))]
        disp = dispatch_cases(ctx.rng, 2000 if thorough else 200)
    # the same hostile streams end to end through the adapter's real per-connection read loop
    loops = [dict(c, mode="loop") for c in streams[:: (2 if thorough else 5)]] if only_cases is None else [c for c in only_cases if c["mode"] == "loop"]
    l_out = vlib.run_harness(binary, loops, timeout=1500) if loops else []
    retain = retain_cases(ctx.rng, 6000 if thorough else 1500) if only_cases is None else [c for c in only_cases if c["mode"] in ("retain", "stall")]
    if only_cases is None:
        # a peer that never reads the server's answers: its own dispatch may stall, the server must not
        retain += [{"mode": "stall", "ty": 0x03, "payload": ""}, {"mode": "stall", "ty": 0x43, "payload": ""},
                   {"mode": "stall", "ty": 0x01, "payload": b'{"client_id":0,"protocol":"tcp"}'.hex()},
                   {"mode": "stall", "ty": 0x20, "payload": b'{"tunnel_id":"t","mapping_id":"m"}'.hex()}]
        retain += [{"mode": "stall", "ty": 0x10, "payload": "",
                    "cmd": {"CommandType": ct, "CommandId": "s", "Token": "", "SenderId": "", "ReceiverId": "", "CommandBody": "{}"}} for ct in (13, 72, 90, 120)]
    r_out = vlib.run_harness(binary, retain, timeout=1500) if retain else []
    s_out = vlib.run_harness(binary, streams, timeout=1500) if streams else []
    for o in s_out:
        o["obs"] = o.get("obs") or []
    b_out = vlib.run_harness(binary, bombs, timeout=1500) if bombs else []
    d_out = vlib.run_harness(binary, disp, timeout=1500) if disp else []

    nfail = 0
    for c, o in list(zip(streams, s_out)) + list(zip(bombs, b_out)) + list(zip(disp, d_out)) + list(zip(loops, l_out)) + list(zip(retain, r_out)):
        bad = None
        if not o["prop_ok"]:
            bad = o["prop_msg"]
        elif c["mode"] == "dispatch" and (c["ty"] & 0x3F) not in (1, 3, 0x10, 0x11, 0x20) and not all(o["disp_err"]):
            bad = "dispatcher accepted a packet of unhandled type %#x without an error" % c["ty"]
        elif c["mode"] == "bomb" and c["inflated"] > 16777216 and any(x["ok"] and x["ty"] == c["ty"] for x in o["obs"]):
            bad = "a compressed body inflating to %d bytes (> MaxPacketBodySize) was accepted" % c["inflated"]
        elif c["mode"] == "bomb" and c.get("badjson") and any(x["ok"] and x["ty"] == c["ty"] for x in o["obs"]):
            bad = "a command-carrying frame whose body is not JSON was decoded as a command"
        elif c["mode"] == "bomb" and not c.get("badjson") and c["inflated"] <= 16777216 and not (len(o["obs"]) == 3 and o["obs"][0]["ok"] and o["obs"][1]["ok"]):
            bad = "a compressed body inflating to %d bytes (<= MaxPacketBodySize) was not decoded, or the following packet lost alignment" % c["inflated"]
        if bad:
            nfail += 1
            if nfail <= 3:
                kind = "retained" if "retained" in bad else "panic" if "panic" in bad else ("spin" if "within" in bad else ("alloc" if ("allocated" in bad or "exceeds" in bad or "inflating" in bad) else "dispatch"))
                ctx.violation("%s:%s" % (kind, c["mode"]), "real code: %s" % bad, {"case": c, "observed": {k: v for k, v in o.items() if k != "wire"}})
    # model vs implementation on the stream cases
    mism = []
    terms = []
    model_idx = [i for i, o in enumerate(s_out) if o["obs"] and not streams[i].get("big")]   # a run that panicked / timed out has no observation to diff
    for i in model_idx:
        c1 = {"mode": "raw", "cuts": streams[i]["cuts"]}
        terms.append(c01.case_value(c1, s_out[i]))
    try:
        res = vlib.model_eval("C05", terms)
        mism = [model_idx[i] for i, ok in enumerate(res) if not ok]
        small = [i for i in range(len(terms)) if len(s_out[model_idx[i]]["wire"]) < 300][:: max(1, len(terms) // 30)][:30]
        vm_bad = sorted(small[k] for k in vlib.vm_crosscheck("C05", [terms[i] for i in small]))
        if vm_bad != sorted(i for i in small if not res[i]):
            raise vlib.Broken("extracted runner and vm_compute disagree on the C05 model", str(vm_bad))
        ctx.coverage["vm_compute_crosschecked_cases"] = len(small)
    except vlib.Broken as b:
        broken = broken or b
    for i in mism[:3]:
        if not ctx.violations:
            ctx.violation("model-mismatch", "Corr/C05.check: Framing/Hostile model and real ReadPacket disagree on a stream on which the "
                          "Go-side predicate (no panic, no spin, bounded payload/allocation) holds", {"case": streams[i], "observed": s_out[i]},
                          found_input=False)
    kinds = {}
    for o in s_out:
        last = o["obs"][-1] if o["obs"] else {"ok": True, "n": -1}
        k = "err@%d" % min(last["n"], 6)
        kinds[k] = kinds.get(k, 0) + 1
    distinct = {json.dumps(c, sort_keys=True) for c in streams + bombs + disp}
    nontriv = {o["wire"] + str(c["cuts"][:8]) for c, o in zip(streams, s_out) if len(o["obs"]) >= 2 or (o["obs"] and o["obs"][-1]["n"] >= 5)}
    nontriv |= {json.dumps(c, sort_keys=True) for c, o in zip(disp, d_out) if o["dispatched"]}
    ctx.coverage.update({
        "evaluations": len(streams) + len(bombs) + len(disp) + len(loops), "read_loop_runs": len(loops), "retention_runs": len(retain),
        "max_retained_bytes_per_packet": max([o["retained_per_op"] for o in r_out] + [0]), "distinct_nontrivial": len(nontriv),
        "rule": "hostile streams = mutations/truncations/adversarial length fields of valid packet streams (VERIF_SEED, one PRNG) through real "
                "ReadPacket under watchdog + TotalAlloc measurement, every decoded packet then through real SessionManager.HandlePacket on a fresh "
                "connection of a fully wired fixture inside recover(); gzip bombs built in the harness; dispatch cases = all 256 type bytes x "
                "payload shapes. non-trivial = stream that decodes >=1 packet or fails after the length field, or a dispatch case that reached a handler.",
        "samples": [{"case": streams[0], "observed": s_out[0]["obs"]}] + [{"case": b, "observed": {"alloc": o["alloc_bytes"], "obs": o["obs"]}} for b, o in list(zip(bombs, b_out))[:2]]
                   + [{"case": disp[i], "disp_err": d_out[i]["disp_err"]} for i in (0, len(disp) // 2) if disp],
        "model_vs_impl_cases": len(terms), "model_vs_impl_mismatches": len(mism), "impl_property_failures": nfail,
        "input_distribution": {"streams": len(streams), "bombs": [(b["ty"], b["inflated"]) for b in bombs], "dispatch": len(disp),
                               "stream_end_kinds": kinds, "max_alloc_bytes_seen": max([o["alloc_bytes"] for o in s_out + b_out] + [0]),
                               "handlers_reached": sum(o["dispatched"] for o in s_out + d_out)},
        "generated_file_changed": gen_changed,
    })
    ctx.assumptions += ["'never panics' and real allocation are runtime facts: decided only by the harness oracle (recover(), watchdog, runtime.MemStats), not by the theorems",
                        "the io.Reader never returns (0,nil) forever (premise 'finite stream')",
                        "gzip inverse is a section variable with unconstrained output size"]
    if broken is not None:
        raise broken


def replay(ctx, path):
    r = json.load(open(path))
    run(ctx, only_cases=[r["replay"]["case"]])

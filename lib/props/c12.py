"""C12 — client-side relays (iocopy.UDP / iocopy.Bidirectional) deliver everything and always terminate."""
import json
import os
import subprocess

import vlib

SIZES = [1, 2, 255, 256, 1400]
COPYBUF = 32768


# ----------------------------------------------------------------------------------------------
# harness driver: the binary exits with status 3 (after flushing) when its wall-clock watchdog fired,
# because a hung relay goroutine cannot be killed from inside; restart it on the remaining cases
# ----------------------------------------------------------------------------------------------

def run_batch(binary, cases, timeout=900):
    outs = []
    todo = list(cases)
    restarts = 0
    while todo:
        inp = "".join(json.dumps(c, separators=(",", ":")) + "\n" for c in todo)
        try:
            p = subprocess.run([binary], input=inp, stdout=subprocess.PIPE, stderr=subprocess.PIPE, text=True, timeout=timeout)
        except subprocess.TimeoutExpired as ex:
            raise vlib.Broken("harness verif_c12 timed out after %ss" % timeout, str(ex)[-2000:])
        got = [json.loads(l) for l in p.stdout.splitlines() if l.strip()]
        if p.returncode == 3 and got and got[-1].get("hang"):
            outs += got
            todo = todo[len(got):]
            restarts += 1
            if restarts > 8:
                # every remaining case would cost a full watchdog period: report what we have
                outs += [{"prop_ok": True, "skipped": True} for _ in todo]
                todo = []
            continue
        if p.returncode != 0 or len(got) != len(todo):
            raise vlib.Broken("harness verif_c12 exited %d with %d/%d results" % (p.returncode, len(got), len(todo)),
                              (p.stderr or "")[-3000:])
        outs += got
        todo = []
    return outs


# ----------------------------------------------------------------------------------------------
# generators
# ----------------------------------------------------------------------------------------------

def rand_bytes(rng, n):
    k = rng.random()
    if k < 0.25:
        return bytes([rng.randrange(256)]) * n
    if k < 0.4:
        return bytes(n)            # zeros: payload bytes that look like length fields
    return bytes(rng.randrange(256) for _ in range(n))


def rand_cuts(rng, n):
    n = max(n, 1)
    k = rng.randrange(6)
    if k == 0:
        return []
    if k == 1:
        return [1] * n
    if k == 2:
        return [2] * (n // 2 + 1)
    if k == 3:
        return [rng.choice([1, 1, 2, 3, 5, 7, 64, 1000, 70000]) for _ in range(min(n, 400))]
    if k == 4:
        return [rng.randrange(1, 9) for _ in range(min(n, 2000))]
    return [rng.choice([1, 2, 3]), 100000]


END_KINDS = [0, 0, 0, 0, 1, 2, 3, 4, 5, 6, 7, 8, 9]     # see harness kindNames: EOF, plain, ErrUnexpectedEOF, net.ErrClosed,
                                                       # os.ErrDeadlineExceeded, net.Error x (timeout, temporary), io.ErrClosedPipe


def rand_empties(rng, n_hint=8):
    """per-Read flags: True = that Read returns (0, nil)"""
    if rng.random() < 0.55:
        return []
    k = rng.randrange(1, min(max(n_hint, 2), 14))
    return [rng.random() < 0.4 for _ in range(k)]


def decorate(rng, spec, n_hint=8):
    """add the cross-cutting dimensions to a stream endpoint spec: empty reads, failure kind"""
    spec["empties"] = rand_empties(rng, n_hint)
    if spec.get("end", 0) == 1:
        spec["end"] = rng.choice([1, 2, 3, 4, 5, 6, 7, 8, 9])
    return spec


def enc_len(ds):
    return sum(2 + len(d) for d in ds if d)


RT_RNG = None


def rt_case(ds, cut, cuts, end=0, wd=False, pauseat=-1, big=False):
    c = {"mode": "rt", "dgrams": [d.hex() for d in ds], "cut": cut, "pauseat": pauseat,
         "tunnel": {"cuts": cuts, "end": end, "wd": wd}}
    if RT_RNG is not None and not big:
        decorate(RT_RNG, c["tunnel"], len(cuts))
    if big:
        c["big"] = True
    return c


def gen_rt_exhaustive(rng, thorough):
    """every cut offset of the encoded stream of <= 4 small datagrams, several chunkings and both end kinds"""
    out = []
    shapes = [[1], [2], [3, 1], [1, 1, 1], [2, 3, 1, 2], [5, 1, 4]]
    if thorough:
        shapes += [[255, 1], [1, 256, 2], [7, 7, 7, 7], [300, 2, 1, 40]]
    for sh in shapes:
        ds = [rand_bytes(rng, n) for n in sh]
        total = enc_len(ds)
        for cut in range(total + 1):
            variants = [([], 0, False), ([1] * total, 0, False), (rand_cuts(rng, total), 1, False),
                        (rand_cuts(rng, total), rng.choice([0, 1]), True)]
            if not thorough and total > 12:
                variants = [variants[rng.randrange(4)], variants[rng.randrange(4)]]
            for cuts, end, wd in variants:
                out.append(rt_case(ds, cut, cuts, end, wd))
    return out


def gen_rt_random(rng, n):
    out = []
    for _ in range(n):
        k = rng.choice([1, 2, 3, 4, 4, 6, 33, 40])
        sizes = [rng.choice(SIZES + [rng.randrange(1, 40), 0]) for _ in range(k)]
        if k > 8:
            sizes = [rng.choice([1, 2, 3, 17]) for _ in range(k)]       # > 32 records: the batch-size flush
        ds = [rand_bytes(rng, s) for s in sizes]
        total = enc_len(ds)
        # cut positions: record boundaries +-{0,1,2,3}, plus a random one and "not cut"
        bounds, off = [0], 0
        for d in ds:
            if d:
                off += 2 + len(d)
                bounds.append(off)
        cand = {-1, rng.randrange(total + 1)}
        for b in rng.sample(bounds, min(len(bounds), 3)):
            for dlt in (-3, -2, -1, 0, 1, 2, 3):
                if 0 <= b + dlt <= total:
                    cand.add(b + dlt)
        for cut in sorted(cand):
            out.append(rt_case(ds, cut, rand_cuts(rng, total), rng.choice([0, 0, 1]), rng.random() < 0.25))
    return out


def gen_rt_big(rng, thorough):
    """maximal records, > 256 KB of buffered data (the no-refill branch + compaction), ticker flush"""
    out = []
    d_max = rand_bytes(rng, 65535)
    for cut in [-1, 1, 2, 3, 65536, 65537, 65538, 65540, 2 * 65537 - 1]:
        out.append(rt_case([d_max, b"xy", d_max], cut, rng.choice([[], [1, 1, 1, 70000], [65536, 1, 2]]), rng.choice([0, 1]), big=True))
    many = [rand_bytes(rng, 1400) for _ in range(400)]          # 560 KB encoded: > readBuf
    tot = enc_len(many)
    for cut in [-1, tot - 1, tot - 1401, 262144, 262145, 524288, 524289] + ([rng.randrange(tot) for _ in range(6)] if thorough else []):
        out.append(rt_case(many, cut, rng.choice([[], [600000], [3000] * 400]), 0, big=True))
    # the 20 ms ticker flushes between datagrams: boundaries of the tunnel writes change, the stream must not
    out.append(rt_case([b"ab", b"cde", b"f" * 300], -1, [1, 2, 3], 0, pauseat=1))
    out.append(rt_case([b"ab", b"cde", b"f" * 300], 6, [], 1, pauseat=2))
    return out


def gen_udp_raw(rng, n):
    """malformed / hostile tunnel streams and faults on the UDP side (separate stream)"""
    out = []
    for _ in range(n):
        ds = [rand_bytes(rng, rng.choice([1, 2, 3, 9, 255, 256])) for _ in range(rng.randrange(0, 6))]
        s = bytearray()
        for d in ds:
            s += len(d).to_bytes(2, "big") + d
        k = rng.randrange(7)
        if k == 0 and s:
            i = rng.randrange(len(s))
            s[i] ^= 1 << rng.randrange(8)
        elif k == 1:
            i = rng.choice([0, len(s)])
            s[i:i] = b"\x00\x00" + rand_bytes(rng, rng.randrange(4))       # zero length field
        elif k == 2:
            s = bytearray(rand_bytes(rng, rng.randrange(0, 30)))
        elif k == 3:
            s += b"\xff\xff" + rand_bytes(rng, rng.randrange(0, 50))       # huge record never completed
        elif k == 4 and s:
            s = s[:rng.randrange(len(s))]
        uds = [rand_bytes(rng, rng.choice([0, 1, 2, 300])) for _ in range(rng.randrange(0, 4))]
        out.append({"mode": "udp", "dgrams": [d.hex() for d in uds], "uend": rng.choice([0, 0, 1]),
                    "uwfail": rng.choice([-1, -1, 0, 1, 2, 40]),
                    "tunnel": decorate(rng, {"data": bytes(s).hex(), "cuts": rand_cuts(rng, len(s)), "end": rng.choice([0, 0, 1]),
                                             "wd": rng.random() < 0.3, "wlimit": -1, "gate": -1})})
        if out[-1]["uend"] == 1:
            out[-1]["uend"] = rng.choice([1, 2, 3, 4, 5, 6, 7, 8, 9])
    return out


def gen_failure_kinds(rng, thorough):
    """every failure kind x every kind of cut position (offset 0, inside the header, record boundary, inside the body) for
    the tunnel end of iocopy.UDP; every failure kind for its local end and for both ends of Bidirectional"""
    out = []
    ds = [rand_bytes(rng, 3), rand_bytes(rng, 2), rand_bytes(rng, 300)]
    total = enc_len(ds)
    for kind in range(10):
        for cut in [0, 1, 2, 4, 5, 6, 9, 10, 200, total]:
            variants = [([], False), ([1] * total, True)] if thorough else [rng.choice([([], False), ([1] * 12 + [7], True), ([2, 3], False)])]
            for cuts, wd in variants:
                c = {"mode": "rt", "dgrams": [d.hex() for d in ds], "cut": cut, "pauseat": -1,
                     "tunnel": {"cuts": cuts, "end": kind, "wd": wd, "empties": rand_empties(rng)}}
                out.append(c)
        # local end of the UDP relay fails with this kind while a tail is still batched
        out.append({"mode": "udp", "dgrams": [rand_bytes(rng, 5).hex(), rand_bytes(rng, 1).hex()], "uend": kind, "uwfail": -1,
                    "tunnel": {"data": "0001ff", "cuts": [], "end": rng.choice([0, kind]), "wd": False, "wlimit": -1, "gate": -1,
                               "wrap": rng.choice([0, 2, 3, 4])}})
        for side in ("a", "b"):
            a = {"data": rand_bytes(rng, rng.choice([0, 1, 40])).hex(), "cuts": [3, 1], "end": 0, "wd": False, "wlimit": -1,
                 "wkind": 0, "gate": -1, "wrap": rng.choice([0, 2]), "empties": rand_empties(rng)}
            b = {"data": rand_bytes(rng, rng.choice([0, 2, 70])).hex(), "cuts": [], "end": 0, "wd": False, "wlimit": -1,
                 "wkind": 0, "gate": -1, "wrap": rng.choice([0, 2]), "empties": rand_empties(rng)}
            (a if side == "a" else b)["end"] = kind
            (a if side == "a" else b)["wd"] = rng.random() < 0.5
            out.append({"mode": "tcp", "a": a, "b": b})
    return out


def gen_tcp(rng, n, thorough):
    out = []
    lens = [0, 0, 1, 2, 5, 100, 1000, 5000, COPYBUF - 1, COPYBUF, COPYBUF + 1, 70000]
    for i in range(n):
        def side():
            ln = rng.choice(lens) if rng.random() < 0.5 else rng.randrange(0, 300)
            return {"data": rand_bytes(rng, ln).hex() if ln < 3000 else (rand_bytes(rng, 251) * (ln // 251 + 1))[:ln].hex(),
                    "cuts": rand_cuts(rng, ln) if ln < 6000 else rng.choice([[], [1, 2, 3, 40000], [COPYBUF] * 3]),
                    "end": rng.choice([0, 0, 0, 1]), "wd": rng.random() < 0.3, "wlimit": -1, "wkind": 0, "gate": -1,
                    "wrap": rng.choice([0, 0, 1, 2, 2, 2, 3, 4, 5, 6])}
        a, b = decorate(rng, side()), decorate(rng, side())
        k = rng.random()
        if k < 0.25:       # a write fault somewhere in one destination
            v = rng.choice([a, b])
            peer = b if v is a else a
            v["wlimit"] = rng.randrange(0, len(peer["data"]) // 2 + 2)
            v["wkind"] = rng.choice([0, 1])
        elif k < 0.65:     # "request / response": one endpoint only goes on after it has seen our half-close
            v = rng.choice([a, b])
            v["gate"] = rng.randrange(0, len(v["data"]) // 2 + 1)
            v["idle_s"] = rng.choice([0, 0, 31, 600])
        out.append({"mode": "tcp", "a": a, "b": b})
    return out


def gen_tcp_reply_after_half_close(rng):
    """the client's shapes, every wrapper configuration on the tunnel side (and on the local side): the local side reaches
    EOF first ("request"), the tunnel only answers after the relay has half-closed it ("response after request EOF")"""
    out = []
    for wt in range(7):
        for wl in (0, 1, 2, 3):
            for local_is_a in (True, False):
                req = rand_bytes(rng, rng.choice([0, 1, 7, 300]))
                resp = rand_bytes(rng, rng.choice([1, 12, 2000, COPYBUF + 5]))
                local = {"data": req.hex(), "cuts": rand_cuts(rng, len(req)), "end": 0, "wd": rng.random() < 0.3,
                         "wlimit": -1, "wkind": 0, "gate": -1, "wrap": wl}
                tunnel = {"data": resp.hex(), "cuts": rand_cuts(rng, len(resp)) if len(resp) < 6000 else [],
                          "end": rng.choice([0, 0, 1]), "wd": rng.random() < 0.3, "wlimit": -1, "wkind": 0,
                          "gate": rng.choice([0, 0, len(resp) // 2]), "wrap": wt,
                          "idle_s": rng.choice([0, 45, 45, 3600])}      # long silence after the half-close (logical clock)
                decorate(rng, local), decorate(rng, tunnel)
                out.append({"mode": "tcp", "a": local, "b": tunnel} if local_is_a else {"mode": "tcp", "a": tunnel, "b": local})
    return out


def gen_udp_gate(rng, n):
    """iocopy.UDP half-closes the tunnel when the UDP side's reads end; the tunnel (in every wrapper configuration) only
    delivers the rest of its records afterwards: they must still reach the UDP side"""
    out = []
    for i in range(n):
        ds = [rand_bytes(rng, rng.choice([1, 2, 9, 300])) for _ in range(rng.randrange(1, 6))]
        s = b"".join(len(d).to_bytes(2, "big") + d for d in ds)
        uds = [rand_bytes(rng, rng.choice([1, 2, 300])) for _ in range(rng.randrange(0, 3))]
        out.append({"mode": "udp", "dgrams": [d.hex() for d in uds], "uend": rng.choice([0, 0, 1]), "uwfail": -1,
                    "tunnel": decorate(rng, {"data": s.hex(), "cuts": rand_cuts(rng, len(s)), "end": rng.choice([0, 0, 1]),
                                             "wd": rng.random() < 0.3, "wlimit": -1, "gate": rng.randrange(0, len(s)), "wrap": i % 7})})
    return out


def _records(rng, n, sizes):
    ds = [rand_bytes(rng, rng.choice(sizes)) for _ in range(n)]
    return ds, b"".join(len(d).to_bytes(2, "big") + d for d in ds)


def gen_udp_real(rng, thorough):
    """the UDP side is a REAL connected *net.UDPConn (loopback): sendmmsg batch-writer path.  Bursts of exactly
    1 / 31 / 32 / 33 / 64 / 65 / 100 records arriving in ONE tunnel read, and the same bursts split over reads"""
    out = []
    for n in [1, 31, 32, 33, 64, 65, 100] + ([2, 34, 63, 96, 97, 128, 129] if thorough else []):
        ds, s = _records(rng, n, [1, 2, 3, 17, 40])
        variants = [[], rand_cuts(rng, len(s)), [len(s) // 2 + 1], [rng.randrange(1, len(s) + 1)]]
        if not thorough:
            variants = [variants[0], variants[rng.randrange(1, 4)]]
        for cuts in variants:
            end = rng.choice([0, 0, 1])
            out.append({"mode": "udpreal", "tunnel": decorate(rng, {"data": s.hex(), "cuts": cuts, "end": end,
                                                                    "wd": rng.random() < 0.3, "wlimit": -1, "gate": -1, "wrap": 0})})
    # a burst followed by a truncated record, and one with big datagrams
    ds, s = _records(rng, 40, [5, 9])
    out.append({"mode": "udpreal", "tunnel": {"data": (s + b"\x00\x09abc").hex(), "cuts": [], "end": 0, "wd": False,
                                              "wlimit": -1, "gate": -1, "wrap": 0}})
    ds, s = _records(rng, 36, [1200, 1400])
    out.append({"mode": "udpreal", "tunnel": {"data": s.hex(), "cuts": [], "end": 0, "wd": True, "wlimit": -1, "gate": -1,
                                              "wrap": 0}})
    return out


def gen_vconn(rng, n):
    """the UDP side is the REAL mapping.UDPVirtualConn over a slow (gated) socket: the relay refills / compacts its
    re-assembly buffer while datagrams are still queued for sending"""
    out = []
    for i in range(n):
        k = rng.choice([2, 3, 5, 12, 40, 70])
        ds, s = _records(rng, k, [1, 8, 8, 30, 300])
        mode = i % 4
        if mode == 0:          # one record per read: every refill lands on the previous datagram's bytes
            cuts = [2 + len(d) for d in ds]
        elif mode == 1:        # reads end inside records: compaction moves the partial record over delivered ones
            cuts = [rng.randrange(1, 12) for _ in range(len(s))]
        elif mode == 2:
            cuts = [2 + len(ds[0]), 100000]
        else:
            cuts = rand_cuts(rng, len(s))
        out.append({"mode": "vconn", "tunnel": decorate(rng, {"data": s.hex(), "cuts": cuts, "end": rng.choice([0, 0, 1]),
                                                              "wd": rng.random() < 0.3, "wlimit": -1, "gate": -1, "wrap": 0})})
    return out


def gen_udp_gate_flush(rng, n):
    """UDP -> tunnel with a STALLED tunnel Write: `pre` datagrams leave one by one through the 20 ms timed flush, then the
    timed flush of the next one stalls inside tunnel Write (consumes p only when released) while further datagrams arrive"""
    out = []
    for i in range(n):
        pre = rng.choice([0, 0, 1, 2]) if i else 0
        k = pre + 1 + rng.choice([1, 2, 3, 5])
        ds = [rand_bytes(rng, rng.choice([1, 2, 4, 4, 7, 300])) for _ in range(k)]
        if i % 3 == 0:      # same length: a framed successor overwrites its predecessor exactly
            ds = [bytes([65 + j]) * 4 for j in range(k)]
        out.append({"mode": "udpgate", "pre": pre, "dgrams": [d.hex() for d in ds]})
    return out


def own_value(c, o, rng):
    """schedule of the ownership model mirroring the harness: ticker mid-Write while the main loop wants the lock, + noise"""
    n, pre = len(c["dgrams"]), c["pre"]
    sched = []
    for _ in range(pre):
        sched += [0, 0, 0, 1, 1, 1, 1]
    sched += [0, 0, 0, 1, 1] + [0] * rng.randrange(1, 5) + [rng.randrange(2) for _ in range(rng.randrange(0, 6))]
    sched += [0, 1] * (8 * n + 16)
    return [3, [bytes.fromhex(x) for x in c["dgrams"]], sched, bytes.fromhex(o["g"]["tunnel_out"])]


def gen_udptc(rng, n):
    """client SOCKS5 UDP tunnel endpoint (real udpTunnelConn.SendPacket / ReceivePacket): records coalesced into one
    transport read, split across reads, empty reads in between, stream cut at any offset"""
    out = []
    for i in range(n):
        k = rng.choice([2, 2, 3, 5, 9])
        ds = [rand_bytes(rng, rng.choice([0, 1, 2, 7, 300, 5000])) for _ in range(k)]
        total = sum(2 + len(d) for d in ds)
        bounds, off = [], 0
        for d in ds:
            off += 2 + len(d)
            bounds.append(off)
        mode = i % 5
        if mode == 0:
            cuts = []                                   # everything in ONE read: all records coalesced
        elif mode == 1:
            cuts = [bounds[1]] + [100000]               # the first two records arrive together
        elif mode == 2:
            cuts = [bounds[0] + 1, 100000]              # first record + one byte of the next header
        elif mode == 3:
            cuts = [2 + len(d) for d in ds]             # one record per read (the easy case)
        else:
            cuts = rand_cuts(rng, total)
        cut = rng.choice([-1, -1, -1, rng.randrange(total + 1), rng.choice(bounds)])
        out.append({"mode": "udptc", "dgrams": [d.hex() for d in ds], "cut": cut,
                    "tunnel": {"cuts": cuts, "end": rng.choice(END_KINDS), "wd": rng.random() < 0.3,
                               "empties": rand_empties(rng)}})
    return out


def gen_round7(rng, thorough):
    """OS-level / real-time / virtual-time shapes: (a) a REAL loopback TCP application that half-closes and reads (4 KB receive
    buffer) only after Bidirectional has returned; (b) a steady trickle of small datagrams that must leave through the timed flush
    while the flow continues (about 25 ms of real time each); (c) a long one-way tunnel->UDP feed through the real
    UDPVirtualConn with the adapter's cleanup pass after every datagram, in virtual time"""
    out = []
    resp = (rand_bytes(rng, 251) * 1100)[:256 * 1024]
    out.append({"mode": "tcpreal", "big": True,
                "a": {"data": b"GET / HTTP/1.0\r\n\r\n".hex(), "cuts": [], "end": 0, "wlimit": -1, "gate": -1},
                "b": {"data": resp.hex(), "cuts": rng.choice([[], [70000] * 4]), "end": 0, "wd": rng.random() < 0.5,
                      "wlimit": -1, "gate": 0}})
    for _ in range(3 if thorough else 1):
        out.append({"mode": "udptrickle", "trickle": 400})
    for i in range(12 if thorough else 3):
        k = rng.choice([9, 12, 30])
        ds, s = _records(rng, k, [1, 3, 40])
        out.append({"mode": "vconn", "feed_age_s": rng.choice([10, 10, 25, 59]),
                    "tunnel": {"data": s.hex(), "cuts": [2 + len(d) for d in ds], "end": 0, "wd": False, "wlimit": -1,
                               "gate": -1, "wrap": 0}})
    return out


BOUNDARY_SIZES = list(range(1490, 1511)) + [255, 256, 257, 511, 512, 513, 1023, 1024, 1025, 2047, 2048, 2049, 4095, 4096, 4097,
                                             8191, 8192, 8193, 16383, 16384, 16385, 32767, 32768, 32769, 65505, 65506, 65507, 65534, 65535]


def gen_final(rng, thorough):
    """(a) udpTunnelConn round trip over datagram SIZES at the usual boundaries (MTU 1490..1510, 2^k +-1, 65505..65507, 65535);
    (b) the real client Tunnel with an idle local application: the peer's close notification must end the relay;
    (c) relays ending with a tunnel write error (and otherwise), then the copy-buffer pool must hand out distinct buffers"""
    out = []
    sizes = list(BOUNDARY_SIZES)
    rng.shuffle(sizes)
    per = 6
    for i in range(0, len(sizes), per):
        ds = [rand_bytes(rng, n) for n in sizes[i:i + per]] + [rand_bytes(rng, 3)]
        out.append({"mode": "udptc", "dgrams": [d.hex() for d in ds], "cut": -1, "big": True,
                    "tunnel": {"cuts": rng.choice([[], [70000] * 3, [1500, 1500, 3, 100000]]), "end": 0, "wd": False}})
    for proto, pre in (("tcp", 0), ("tcp", 1), ("udp", 0)):
        out.append({"mode": "tunpeer", "proto": proto, "pre": pre})

    def ep(n, **kw):
        d = {"data": rand_bytes(rng, n).hex(), "cuts": [], "end": 0, "wd": False, "wlimit": -1, "wkind": 0, "gate": -1, "wrap": 0}
        d.update(kw)
        return d
    for variant in range(3 if thorough else 2):
        relays = []
        for j in range(rng.choice([2, 3])):
            a, b = ep(rng.choice([40, 200])), ep(rng.choice([0, 30]))
            if j == 0 or rng.random() < 0.3:
                if variant == 0:
                    b["wlimit"] = rng.randrange(0, 30)                  # the tunnel refuses the local->tunnel write
                elif variant == 1:
                    a["wlimit"], b["data"] = rng.randrange(0, 10), rand_bytes(rng, 50).hex()   # the local side refuses a write
                else:
                    b["wlimit"], b["wkind"] = rng.randrange(0, 30), 1   # short write
            relays.append({"a": a, "b": b})
        out.append({"mode": "poolprobe", "relays": relays})
    return out


def gen_last(rng, thorough):
    """(a) the real mapping.BaseMappingHandler.handleConnection: closed by the peer's notification / finished normally, the tunnel
    conn and stream it dialled must be closed and the tunnel read released; (b) iocopy.UDP with a tunnel whose Write is refused
    once (transient) or from then on (sticky) while a timed flush is due: nothing may be lost silently"""
    out = [{"mode": "maphandle", "pre": 0}, {"mode": "maphandle", "pre": 1}]
    for sticky in ([False, True, False] if not thorough else [False, True] * 4):
        ds = [rand_bytes(rng, rng.choice([1, 2, 9, 300])) for _ in range(rng.randrange(2, 5))]
        out.append({"mode": "udp", "dgrams": [d.hex() for d in ds], "uend": 0, "uwfail": -1,
                    "pauseat": rng.choice([len(ds), len(ds), len(ds) - 1]),
                    "tunnel": {"data": "", "cuts": [], "end": 0, "wd": False, "wlimit": -1, "gate": -1, "wrap": 0,
                               "wfailat": 1, "wfailsticky": sticky}})
    return out


def corpus():
    d = os.path.join(vlib.VERIF, "corpus", "C12")
    out = []
    if os.path.isdir(d):
        for f in sorted(os.listdir(d)):
            if f.endswith(".json"):
                out.append(json.load(open(os.path.join(d, f))))
    return out


# ----------------------------------------------------------------------------------------------
# model values (Corr/C12.v)
# ----------------------------------------------------------------------------------------------

def n_reads(ln, cuts, cap):
    pos, i, n = 0, 0, 0
    while pos < ln:
        k = ln - pos
        if i < len(cuts):
            k = max(1, cuts[i])
            i += 1
        pos += min(k, cap, ln - pos)
        n += 1
    return n


def deframe_value(stream_hex, t, wfail, o, batch_path=False):
    return [0, bytes.fromhex(stream_hex), list(t.get("cuts") or []), t.get("end", 0), bool(t.get("wd")),
            None if wfail is None or wfail < 0 else [wfail],
            [bytes.fromhex(x) for x in o["delivered"]], o["recv_err"], o["recv"], batch_path,
            [bool(x) for x in (t.get("empties") or [])]]


def encode_value(dgrams, o, uend):
    return [1, [bytes.fromhex(x) for x in dgrams], bytes.fromhex(o["tunnel_out"]), o["sent"], o["send_err"], uend]


def tcp_value(c, o, rng):
    def ep(s):
        return [bytes.fromhex(s["data"]), list(s["cuts"]), s["end"], bool(s["wd"]),
                None if s["wlimit"] < 0 else [s["wlimit"]], s["wkind"] == 1, s.get("wrap", 0),
                [bool(x) for x in (s.get("empties") or [])]]
    na = n_reads(len(s_a := bytes.fromhex(c["a"]["data"])), c["a"]["cuts"], COPYBUF) + 4 + len(c["a"].get("empties") or [])
    nb = n_reads(len(s_b := bytes.fromhex(c["b"]["data"])), c["b"]["cuts"], COPYBUF) + 4 + len(c["b"].get("empties") or [])
    sched = [rng.randrange(3) for _ in range(rng.randrange(0, na + nb + 1))]
    k = rng.randrange(4)
    if k == 0:
        sched = [0] * na + sched          # A->B finishes (and half-closes B) before B->A starts
    elif k == 1:
        sched = [1] * nb + sched
    sched += [0, 1, 2] * (max(na, nb) + 5)
    t = o["t"]
    ev = t["events"] or []
    obs = [bytes.fromhex(t["to_b"]), bytes.fromhex(t["to_a"]), t["sent"], t["recv"], t["send_err"], t["recv_err"],
           ev.count("cw:a"), ev.count("cw:b"), ev.count("close:a"), ev.count("close:b"), t["io_after_close"],
           ev.count("cwf:a"), ev.count("cwf:b")]
    return [2, ep(c["a"]), ep(c["b"]), sched, obs]


def model_values(c, o, rng):
    """list of (label, value) for one case; empty for Go-side-only cases"""
    if c.get("big") or not o.get("prop_ok") or o.get("skipped"):
        return []
    vals = []
    if c["mode"] == "rt":
        vals.append(("encode", encode_value(c["dgrams"], o["u1"], 0)))
        if o.get("u2") and o["u2"]["returned"]:
            vals.append(("deframe", deframe_value(o.get("stream", ""), c["tunnel"], None, o["u2"])))
    elif c["mode"] == "udp":
        u = o["u1"]
        if c["tunnel"].get("wlimit", -1) < 0 and not c["tunnel"].get("wfailat"):
            vals.append(("encode", encode_value(c["dgrams"], u, c.get("uend", 0))))
        vals.append(("deframe", deframe_value(c["tunnel"]["data"], c["tunnel"], c.get("uwfail", -1), u)))
    elif c["mode"] == "tcp":
        vals.append(("tcp", tcp_value(c, o, rng)))
    elif c["mode"] == "udptc":
        tc = o.get("tc") or {}
        if len(tc.get("stream", "")) < 12000:
            vals.append(("udptc", [4, bytes.fromhex(tc.get("stream", "")), list(c["tunnel"].get("cuts") or []),
                                   c["tunnel"].get("end", 0), [bytes.fromhex(x) for x in tc.get("delivered") or []]]))
    elif c["mode"] == "udpgate":
        if (o.get("g") or {}).get("returned"):
            vals.append(("own", own_value(c, o, rng)))
    elif c["mode"] in ("udpreal", "vconn"):
        r = o.get("r") or {}
        if r.get("returned") and not r.get("skipped"):
            vals.append(("deframe-" + c["mode"], deframe_value(c["tunnel"]["data"], c["tunnel"], None, r,
                                                               batch_path=(c["mode"] == "udpreal"))))
    return vals


# ----------------------------------------------------------------------------------------------

def describe(c):
    if c["mode"] == "rt":
        return "rt dgram sizes %s cut=%s cuts=%s end=%s wd=%s" % ([len(x) // 2 for x in c["dgrams"]][:12], c.get("cut"),
                                                                 (c["tunnel"].get("cuts") or [])[:8], c["tunnel"].get("end"), c["tunnel"].get("wd"))
    if c["mode"] == "maphandle":
        return "maphandle variant %s (0 = closed by peer notification, 1 = normal finish)" % c.get("pre")
    if c["mode"] == "tunpeer":
        return "tunpeer %s tunnel, idle local application, half-closable=%s" % (c.get("proto"), c.get("pre") == 1)
    if c["mode"] == "poolprobe":
        return "poolprobe %d relays, write limits %s" % (len(c["relays"]), [(r["a"]["wlimit"], r["b"]["wlimit"]) for r in c["relays"]])
    if c["mode"] == "tcpreal":
        return "tcpreal request %d bytes, response %d bytes" % (len(c["a"]["data"]) // 2, len(c["b"]["data"]) // 2)
    if c["mode"] == "udptrickle":
        return "udptrickle up to %d datagrams 2 ms apart" % c.get("trickle", 0)
    if c["mode"] == "udptc":
        return "udptc datagram sizes %s cut=%s cuts=%s" % ([len(x) // 2 for x in c["dgrams"]], c.get("cut"), (c["tunnel"].get("cuts") or [])[:8])
    if c["mode"] == "udpgate":
        return "udpgate pre=%d datagram sizes %s" % (c["pre"], [len(x) // 2 for x in c["dgrams"]])
    if c["mode"] in ("udp", "udpreal", "vconn"):
        return "%s%s tunnel=%s(%d bytes) cuts=%s end=%s wd=%s" % (c["mode"], (" feed_age_s=%s" % c["feed_age_s"]) if c.get("feed_age_s") else "", c["tunnel"]["data"][:60], len(c["tunnel"]["data"]) // 2,
                                                             (c["tunnel"].get("cuts") or [])[:8], c["tunnel"].get("end"), c["tunnel"].get("wd"))
    return "tcp |A|=%d |B|=%d gateA=%s gateB=%s wlimitA=%s wlimitB=%s wrapA=%s wrapB=%s" % (
        len(c["a"]["data"]) // 2, len(c["b"]["data"]) // 2, c["a"]["gate"], c["b"]["gate"], c["a"]["wlimit"], c["b"]["wlimit"],
        c["a"].get("wrap", 0), c["b"].get("wrap", 0))


def run(ctx, only_cases=None):
    thorough = ctx.tier == "thorough"
    rng = ctx.rng
    binary = vlib.build_harness("C12")
    gen_changed = vlib.write_if_changed(os.path.join(vlib.COQ, "Gen", "C12.v"), vlib.harness_text(binary, ["gen"]))
    broken = None
    try:
        pinfo = vlib.coq_properties("C12")
        vlib.proof_coverage(ctx, pinfo, "make -C coq Properties/C12.vo && coqc Properties/C12.v (Print Assumptions audit)",
                            extra_obligations=12)   # the regenerated side conditions of Proofs/SideC12.v
    except vlib.Broken as b:
        broken = b

    if only_cases is not None:
        cases = only_cases
    else:
        global RT_RNG
        RT_RNG = rng
        cases = corpus()
        cases += gen_rt_exhaustive(rng, thorough)
        cases += gen_rt_random(rng, 400 if thorough else 60)
        cases += gen_rt_big(rng, thorough)
        cases += gen_udp_raw(rng, 3000 if thorough else 300)
        cases += gen_tcp(rng, 3000 if thorough else 300, thorough)
        cases += gen_tcp_reply_after_half_close(rng)
        if thorough:
            cases += gen_tcp_reply_after_half_close(rng) + gen_tcp_reply_after_half_close(rng)
        cases += gen_udp_gate(rng, 210 if thorough else 42)
        cases += gen_udp_real(rng, thorough)
        cases += gen_vconn(rng, 200 if thorough else 28)
        cases += gen_udp_gate_flush(rng, 40 if thorough else 8)
        cases += gen_failure_kinds(rng, thorough)
        cases += gen_udptc(rng, 300 if thorough else 45)
        cases += gen_round7(rng, thorough)
        cases += gen_final(rng, thorough)
        cases += gen_last(rng, thorough)
    outs = run_batch(binary, cases)

    # (iii) the property's predicate, evaluated by the harness on the real relays' own outputs
    nfail = 0
    fail_keys = {}
    for c, o in zip(cases, outs):
        if o.get("hang") and o.get("prop_ok"):
            o["prop_ok"], o["prop_key"], o["prop_msg"] = False, "relay-hang", "relay call did not return within the wall-clock watchdog"
        if not o["prop_ok"]:
            nfail += 1
            fail_keys[o["prop_key"]] = fail_keys.get(o["prop_key"], 0) + 1
            if fail_keys[o["prop_key"]] == 1:
                ctx.violation(o["prop_key"], "real iocopy relay: %s [%s]" % (o["prop_msg"], describe(c)),
                              {"case": c, "observed": {k: v for k, v in o.items() if k not in ("prop_ok",)}})

    # (ii) model vs implementation
    labelled = []
    for i, (c, o) in enumerate(zip(cases, outs)):
        for lab, v in model_values(c, o, rng):
            labelled.append((i, lab, v))
    mism = []
    try:
        res = vlib.model_eval("C12", [v for _, _, v in labelled])
        mism = [k for k, ok in enumerate(res) if not ok]
        small = [k for k, (_, lab, v) in enumerate(labelled) if len(vlib.venc(v)) < 1500]
        small = small[:: max(1, len(small) // 30)][:30]
        vm_bad = sorted(small[k] for k in vlib.vm_crosscheck("C12", [labelled[k][2] for k in small]))
        ext_bad = sorted(k for k in small if not res[k])
        if vm_bad != ext_bad:
            raise vlib.Broken("extracted runner and vm_compute disagree on the C12 model", "vm=%s extracted=%s" % (vm_bad, ext_bad))
        ctx.coverage["vm_compute_crosschecked_cases"] = len(small)
    except vlib.Broken as b:
        broken = broken or b
    for k in mism[:3]:
        i, lab, v = labelled[k]
        if not ctx.violations:
            pred = None
            try:
                pred = vlib.model_eval("C12", [v], predict=True)[1][0]
            except Exception:
                pass
            ctx.violation("model-mismatch-" + lab, "Corr/C12.check (%s): the Relay model and the real iocopy code disagree on a case "
                          "on which the Go-side predicate holds; the theorems of Properties/C12.v no longer speak about this code [%s]"
                          % (lab, describe(cases[i])), {"case": cases[i], "observed": outs[i], "model_predicts": pred},
                          found_input=False)

    # coverage
    distinct, nontrivial = set(), set()
    dist = {"rt": 0, "udp_raw_malformed": 0, "tcp": 0, "go_only_big": 0, "cut_mid_record": 0, "cut_on_boundary": 0, "not_cut": 0,
            "tunnel_end_error": 0, "end_with_last_chunk": 0, "udp_write_fault": 0, "zero_length_field_hit": 0,
            "tcp_gate": 0, "tcp_write_fault": 0, "tcp_read_error": 0, "udp_tunnel_gate": 0,
            "tcp_gated_endpoint_wrap": {str(k): 0 for k in range(7)}, "udp_gated_tunnel_wrap": {str(k): 0 for k in range(7)},
            "real_udpconn_batch_path": 0, "real_udpconn_records_per_case": [], "real_udpconn_retried": 0, "real_udpconn_skipped": 0,
            "real_udpvirtualconn_slow_socket": 0, "stalled_tunnel_write_during_timed_flush": 0,
            "endpoints_with_empty_reads": 0, "read_failure_kinds": {str(k): 0 for k in range(10)},
            "half_close_enforcing_endpoints": 0, "socks_udp_tunnel_conn": 0, "tcp_idle_after_half_close": 0,
            "real_tcp_half_closed_slow_reader": 0, "real_tcp_skipped": 0, "udp_trickle_real_time": 0,
            "udp_trickle_first_write_ms": [], "virtual_time_one_way_feed": 0, "tunnel_peer_closed_idle_local": 0,
            "copy_buffer_pool_probes": 0, "udptc_boundary_sizes": 0}
    for c in cases:
        for key in ("tunnel", "a", "b"):
            sp = c.get(key)
            if isinstance(sp, dict) and (key == "tunnel") == (c["mode"] != "tcp"):
                dist["endpoints_with_empty_reads"] += 1 if any(sp.get("empties") or []) else 0
                dist["read_failure_kinds"][str(sp.get("end", 0))] += 1
                dist["half_close_enforcing_endpoints"] += 0 if sp.get("lax") else 1
    if True:
        pass
    for c, o in zip(cases, outs):
        h = vlib.hashlib.sha256(json.dumps(c, sort_keys=True).encode()).hexdigest()
        distinct.add(h)
        if c.get("big"):
            dist["go_only_big"] += 1
        if c["mode"] == "rt":
            dist["rt"] += 1
            u2 = o.get("u2") or {}
            if c.get("cut", -1) < 0:
                dist["not_cut"] += 1
            elif u2.get("recv_err") == 3 or u2.get("spin"):
                dist["cut_mid_record"] += 1
            else:
                dist["cut_on_boundary"] += 1
            dist["tunnel_end_error"] += c["tunnel"].get("end", 0)
            dist["end_with_last_chunk"] += 1 if c["tunnel"].get("wd") else 0
            if u2.get("n_delivered", 0) >= 1 and c.get("cut", -1) >= 0:
                nontrivial.add(h)
        elif c["mode"] == "maphandle":
            dist["mapping_handle_connection"] = dist.get("mapping_handle_connection", 0) + 1
        elif c["mode"] == "tunpeer":
            dist["tunnel_peer_closed_idle_local"] += 1
        elif c["mode"] == "poolprobe":
            dist["copy_buffer_pool_probes"] += 1
        elif c["mode"] == "tcpreal":
            dist["real_tcp_half_closed_slow_reader"] += 1
            dist["real_tcp_skipped"] += 1 if (o.get("tr") or {}).get("skipped") else 0
        elif c["mode"] == "udptrickle":
            dist["udp_trickle_real_time"] += 1
            dist["udp_trickle_first_write_ms"].append((o.get("tk") or {}).get("first_tunnel_write_ms"))
        elif c["mode"] == "udptc":
            dist["socks_udp_tunnel_conn"] += 1
            dist["udptc_boundary_sizes"] += sum(1 for x in c["dgrams"] if len(x) // 2 in BOUNDARY_SIZES)
            if (o.get("tc") or {}).get("n_delivered", 0) >= 2:
                nontrivial.add(h)
        elif c["mode"] == "udpgate":
            dist["stalled_tunnel_write_during_timed_flush"] += 1
            if len((o.get("g") or {}).get("records") or []) >= 2:
                nontrivial.add(h)
        elif c["mode"] in ("udpreal", "vconn"):
            r = o.get("r") or {}
            if c.get("feed_age_s"):
                dist["virtual_time_one_way_feed"] += 1
            if c["mode"] == "udpreal":
                dist["real_udpconn_batch_path"] += 1
                dist["real_udpconn_records_per_case"].append(r.get("n_delivered", 0))
                dist["real_udpconn_retried"] += 1 if r.get("attempts", 1) > 1 else 0
                dist["real_udpconn_skipped"] += 1 if r.get("skipped") else 0
            else:
                dist["real_udpvirtualconn_slow_socket"] += 1
            if r.get("n_delivered", 0) >= 2:
                nontrivial.add(h)
        elif c["mode"] == "udp":
            dist["udp_raw_malformed"] += 1
            dist["udp_write_fault"] += 1 if c.get("uwfail", -1) >= 0 else 0
            dist["udp_tunnel_write_refused"] = dist.get("udp_tunnel_write_refused", 0) + (1 if c["tunnel"].get("wfailat") else 0)
            if c["tunnel"].get("gate", -1) >= 0:
                dist["udp_tunnel_gate"] += 1
                dist["udp_gated_tunnel_wrap"][str(c["tunnel"].get("wrap", 0))] += 1
            if "0000" in c["tunnel"]["data"]:
                dist["zero_length_field_hit"] += 1
            if (o.get("u1") or {}).get("n_delivered", 0) >= 1:
                nontrivial.add(h)
        else:
            dist["tcp"] += 1
            dist["tcp_gate"] += 1 if c["a"]["gate"] >= 0 or c["b"]["gate"] >= 0 else 0
            dist["tcp_idle_after_half_close"] += 1 if c["a"].get("idle_s") or c["b"].get("idle_s") else 0
            for side in ("a", "b"):
                if c[side]["gate"] >= 0:
                    dist["tcp_gated_endpoint_wrap"][str(c[side].get("wrap", 0))] += 1
            dist["tcp_write_fault"] += 1 if c["a"]["wlimit"] >= 0 or c["b"]["wlimit"] >= 0 else 0
            dist["tcp_read_error"] += 1 if c["a"]["end"] or c["b"]["end"] else 0
            t = o.get("t") or {}
            if t.get("n_to_a", 0) > 0 and t.get("n_to_b", 0) > 0:
                nontrivial.add(h)
    def slim(c):
        s = json.dumps(c)
        if len(s) < 1500:
            return c
        return {"mode": c["mode"], "summary": describe(c)} if "mode" in c else {"truncated": s[:1200]}
    ctx.coverage.update({
        "evaluations": len(cases), "distinct_nontrivial": len(nontrivial & distinct),
        "rule": "cases from VERIF_SEED by one PRNG (corpus first): round trips datagrams -> real iocopy.UDP -> tunnel bytes cut at a byte "
                "offset (exhaustive over every offset for the small shapes, record boundaries +-3 and random offsets otherwise) -> "
                "chunk oracle -> real iocopy.UDP -> datagrams; malformed tunnel streams; iocopy.Bidirectional between scripted "
                "endpoints (chunking, read errors, write faults, half-close gates). distinct = distinct case JSON; non-trivial = "
                "rt: cut stream with >= 1 datagram delivered; udp: >= 1 datagram delivered; tcp: bytes flowed in both directions. "
                "Every non-big case is also run through the extracted Coq model (kinds: encode, deframe, tcp under a random schedule).",
        "samples": [{"case": slim(cases[i]), "observed": slim(outs[i])} for i in (0, len(cases) // 3, len(cases) - 1) if i < len(cases)],
        "model_vs_impl_cases": len(labelled), "model_vs_impl_mismatches": len(mism),
        "impl_property_failures": nfail, "impl_property_failure_keys": fail_keys,
        "input_distribution": dist, "generated_file_changed": gen_changed,
        "exhaustive_cut_offsets_small_shapes": True,
    })
    ctx.assumptions += [
        "io.Reader contract: a Read returns n>0 or an error; an ended endpoint keeps reporting its end (fakes obey both)",
        "the UDP side's reads end (EOF/error) in every case: iocopy.UDP joins both directions, so with a UDP socket that never "
        "errs it returns only when someone else closes that socket (session TTL / cancellation watcher) — not carried by the model",
        "datagrams are 1..65535 bytes (a 65536-byte read would be encoded with length field 0; impossible over real UDP)",
        "the 20 ms ticker's timing and the sendmmsg batch writer (only used for *net.UDPConn) are not modelled; the ticker only "
        "moves tunnel write boundaries, which the encoder theorem quantifies over",
        "Bidirectional: one loop iteration / CloseWrite / wg.Done / Close is one atomic step (Threads.v); endpoints are scripts",
        "ALIASING: the model's datagrams are values (theorem C12_udp_delivered_datagrams_are_values); the real loop hands the "
        "local writer sub-slices of its re-assembly buffer, valid only until flush() returns, so the UDP side's Write must not "
        "retain p (io.Writer contract). Checked on the real mapping.UDPVirtualConn (built by the adapter's getOrCreateSession) over "
        "a gated slow socket whose sends are held until the relay has consumed the whole tunnel stream, and on a real *net.UDPConn",
        "real time is used in exactly one shape (udptrickle, ~25 ms per case, bound 2 s only reached on failure): the local side "
        "keeps trickling until the tunnel has seen a Write, so the verdict does not depend on how late the ticker fires; tcpreal "
        "is gated on Bidirectional returning (no sleeps), skipped if loopback TCP is unavailable; the session-TTL feed runs in "
        "virtual time (VerifAge shifts lastActive, VerifCleanup = one cleanup pass)",
        "every stream endpoint ENFORCES its half-close (a Write after CloseWrite fails) unless the case says lax; there is no "
        "CloseRead in the relay code, so read-side shutdown is not a dimension",
        "read failures are sticky (every further Read reports the same error); kinds: EOF, plain, io.ErrUnexpectedEOF, "
        "net.ErrClosed, os.ErrDeadlineExceeded, net.Error for each (Timeout, Temporary), io.ErrClosedPipe",
        "empty reads (0, nil) are scripted per Read call index; the model consumes one flag per tread call exactly like the fake",
        "batchBuf ownership: the model's steps are Lock / take slice / Write returns / Unlock / frame-one-datagram-under-the-lock; "
        "the harness realises the critical schedule with a tunnel whose Write signals entry, stalls, and consumes p only when "
        "released (the relay's own 20 ms ticker provides the timed flush: each such case costs ~20-40 ms)",
        "real *net.UDPConn cases use loopback UDP; a count/content failure is reported only if it repeats in 3 attempts (a kernel "
        "drop would not); if no loopback socket can be opened the cases are counted as skipped",
        "endpoints are handed to the real relays through the real iocopy.NewReadWriteCloser[WithCloseWrite] in 5 configurations "
        "(plus a raw conn with / without CloseWrite); when the configuration makes the half-close invisible at the endpoint, the "
        "'reply after half-close' gate opens 5 ms after the peer endpoint reported its end (timing only decides how likely a broken "
        "half-close is exposed, never whether the unchanged code passes)",
    ]
    if broken is not None:
        raise broken


def replay(ctx, path):
    r = json.load(open(path))
    run(ctx, only_cases=[r["replay"]["case"]])

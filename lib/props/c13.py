"""C13 — storage backends implement one TTL key-value semantics.

Three streams of cases, all from ctx.rng (corpus first):
  mem    histories over 3 keys on the REAL memory.Storage against the wall clock (lifetimes 0 / 80 ms / 500 ms / 1 h,
         clock advances of 200 ms; a case whose calls lag their nominal time by more than MARGIN is counted
         ambiguous and not judged);
  redis  typed histories (string / list / hash / counter keys, the shapes the repositories use) on the REAL
         redis.Storage over miniredis with a virtual clock (FastForward);
  conc   2-3 concurrent callers of one memory.Storage, recorded invocation/response order, linearizability search.
The Go harness judges every answer against its own reference map (the property's predicate).  The Coq model is
run on the same histories: MemImpl in the variant probed from the tree must reproduce the real answers exactly
(Corr/C13.check mode 0), and the Spec must reproduce the reference map's answers (mode 1) — so that
real code == MemImpl(probed) and reference == Spec are both sampled, and MemImpl(repaired) == Spec is the theorem.
A predicate failure is attributed to a known deviation only if MemImpl(probed) explains the real answers and
repairing that flag in the model changes them; anything else is a violation."""
import itertools
import json
import os
import re
import subprocess

import vlib

SHORT, MID, LONG, TICK = 80, 500, 3600000, 200
MARGIN = 30            # ms a call may lag its nominal time; every expiry decision in a generated history has >= 70 ms slack
KEYS = ["k0", "k1", "k2"]
FIELDS = ["f", "g"]
STRS = ["a", "b", "{\"id\":7,\"n\":\"x\"}", "", "café", "7"]
INTS = [0, 1, -3, 7, 41]
LISTV = ["a", "b", "a", "7", 7, "", "a&b<c>"]
TTLS = [0, 0, SHORT, MID, LONG]
FLAGS = ["v_cas_zero_guard", "v_cas_ttl0_never", "v_setexp_checks_expiry", "v_setexp_ttl0_never", "v_setnx_after",
         "v_getexp_never0"]
FLAG_KEY = {
    "v_cas_zero_guard": "mem:cas-without-iszero-guard",
    "v_cas_ttl0_never": "mem:cas-ttl0-expires-now",
    "v_setexp_checks_expiry": "mem:setexpiration-revives-expired",
    "v_setexp_ttl0_never": "mem:setexpiration-ttl0-expires-now",
    "v_setnx_after": "mem:setnx-deadline-instant",
    "v_getexp_never0": "mem:getexpiration-never-negative",
}

# the refuting histories of Proofs/KV.v (pinned_*_refuted), with wall-clock-robust lifetimes
WITNESSES = [
    ("v_cas_zero_guard", [{"op": "set", "k": "k0", "v": "a", "ttl": 0}, {"op": "cas", "k": "k0", "old": "a", "v": "b", "ttl": LONG},
                          {"op": "get", "k": "k0"}]),
    ("v_cas_ttl0_never", [{"op": "set", "k": "k0", "v": "a", "ttl": LONG}, {"op": "cas", "k": "k0", "old": "a", "v": "b", "ttl": 0},
                          {"op": "tick", "d": TICK}, {"op": "get", "k": "k0"}]),
    ("v_setexp_ttl0_never", [{"op": "set", "k": "k0", "v": "a", "ttl": LONG}, {"op": "setexp", "k": "k0", "ttl": 0},
                             {"op": "tick", "d": TICK}, {"op": "get", "k": "k0"}]),
    ("v_setexp_checks_expiry", [{"op": "set", "k": "k0", "v": "a", "ttl": SHORT}, {"op": "tick", "d": TICK},
                                {"op": "setexp", "k": "k0", "ttl": LONG}, {"op": "get", "k": "k0"}]),
    ("v_getexp_never0", [{"op": "set", "k": "k0", "v": "a", "ttl": 0}, {"op": "getexp", "k": "k0"}]),
]


# ------------------------------------------------------------------------------------------------
# generators
# ------------------------------------------------------------------------------------------------

def rscalar(rng, allow_nil=False):
    r = rng.random()
    if allow_nil and r < 0.15:
        return None
    if r < 0.7:
        return rng.choice(STRS)
    return rng.choice(INTS)


def rop(rng, keys=KEYS):
    k = rng.choice(keys)
    kind = rng.choice(["set", "set", "get", "get", "del", "exists", "setlist", "getlist", "append", "append", "remove",
                       "sethash", "sethash", "gethash", "getallhash", "delhash", "incrby", "incrby", "setexp", "getexp",
                       "setnx", "setnx", "cas", "cas", "cas", "cleanup"])
    o = {"op": kind}
    if kind != "cleanup":
        o["k"] = k
    if kind in ("set", "setnx"):
        o["v"] = rscalar(rng) if rng.random() < 0.85 else [rscalar(rng) for _ in range(rng.randrange(3))]
        o["ttl"] = rng.choice(TTLS)
    elif kind == "setlist":
        o["v"] = [rng.choice(LISTV) for _ in range(rng.randrange(5))]
        o["ttl"] = rng.choice(TTLS)
    elif kind in ("append", "remove"):
        o["v"] = rng.choice(LISTV)
    elif kind == "sethash":
        o["f"] = rng.choice(FIELDS)
        o["v"] = rscalar(rng)
    elif kind in ("gethash", "delhash"):
        o["f"] = rng.choice(FIELDS)
    elif kind == "incrby":
        o["n"] = rng.choice([1, 1, 5, -2, 0, 9223372036854775807])
    elif kind == "setexp":
        o["ttl"] = rng.choice(TTLS)
    elif kind == "cas":
        o["old"] = rscalar(rng, allow_nil=True)
        o["v"] = rscalar(rng)
        o["ttl"] = rng.choice(TTLS)
    return o


def gen_mem(rng):
    n = rng.choice([3, 5, 8, 12, 16])
    keys = KEYS[:rng.choice([1, 2, 3])]
    ops, ticks = [], 0
    for _ in range(n):
        if ticks < 4 and rng.random() < 0.16:
            ops.append({"op": "tick", "d": TICK})
            ticks += 1
        else:
            ops.append(rop(rng, keys))
    return {"mode": "mem", "ops": ops, "scale": 1, "tol": MARGIN}


def gen_focus(rng, mode="mem"):
    """one key of one type: create it with a lifetime (collections: SetExpiration right after), maybe wait, one
    lifetime-sensitive operation, maybe wait, then every read that applies.  mem: sometimes the second operation
    belongs to another type (type confusion)."""
    ttl = lambda: rng.choice(TTLS)
    v = rng.choice(["a", "b", 7])
    firsts = {
        "s": lambda k: [rng.choice([{"op": "set", "k": k, "v": v, "ttl": ttl()}, {"op": "setnx", "k": k, "v": v, "ttl": ttl()}])],
        "l": lambda k: [rng.choice([{"op": "setlist", "k": k, "v": ["a", "b", "a"], "ttl": ttl()}, {"op": "append", "k": k, "v": "a"}])],
        "h": lambda k: [{"op": "sethash", "k": k, "f": "f", "v": "a"}],
        "c": lambda k: [{"op": "incrby", "k": k, "n": 7}],
    }
    seconds = {
        "s": lambda k: [{"op": "cas", "k": k, "old": v, "v": "c", "ttl": ttl()}, {"op": "cas", "k": k, "old": v, "v": v, "ttl": ttl()},
                        {"op": "cas", "k": k, "old": None, "v": "c", "ttl": ttl()},
                        {"op": "cas", "k": k, "old": "zz", "v": "c", "ttl": ttl()}, {"op": "setnx", "k": k, "v": "c", "ttl": ttl()},
                        {"op": "set", "k": k, "v": "c", "ttl": ttl()}, {"op": "setexp", "k": k, "ttl": ttl()}, {"op": "getexp", "k": k}],
        "l": lambda k: [{"op": "append", "k": k, "v": "z"}, {"op": "remove", "k": k, "v": "a"}, {"op": "setlist", "k": k, "v": ["z"], "ttl": ttl()},
                        {"op": "setexp", "k": k, "ttl": ttl()}],
        "h": lambda k: [{"op": "sethash", "k": k, "f": "g", "v": "z"}, {"op": "sethash", "k": k, "f": "f", "v": "z"},
                        {"op": "delhash", "k": k, "f": "g"}, {"op": "setexp", "k": k, "ttl": ttl()}],
        "c": lambda k: [{"op": "incrby", "k": k, "n": 1}, {"op": "setexp", "k": k, "ttl": ttl()}],
    }
    reads = {
        "s": lambda k: [{"op": "get", "k": k}, {"op": "exists", "k": k}, {"op": "getexp", "k": k}],
        "l": lambda k: [{"op": "getlist", "k": k}, {"op": "exists", "k": k}, {"op": "getexp", "k": k}],
        "h": lambda k: [{"op": "getallhash", "k": k}, {"op": "gethash", "k": k, "f": "f"}, {"op": "exists", "k": k}],
        "c": lambda k: [{"op": "get", "k": k}, {"op": "exists", "k": k}, {"op": "incrby", "k": k, "n": 1}],
    }
    ty = rng.choice(["s", "s", "l", "h", "c"])
    k = {"s": "s0", "l": "l0", "h": "h0", "c": "c0"}[ty] if mode == "redis" else "k0"
    ops = firsts[ty](k)
    if ty != "s" and rng.random() < 0.6:
        ops.append({"op": "setexp", "k": k, "ttl": ttl()})
    ops += [{"op": "tick", "d": TICK}] * rng.randrange(4)
    ty2 = ty
    if mode == "mem":
        if rng.random() < 0.25:
            ty2 = rng.choice(["s", "l", "h", "c"])
        if rng.random() < 0.15:
            ops.append({"op": "cleanup"})
    ops.append(rng.choice(seconds[ty2](k) + [{"op": "del", "k": k}]))
    ops += [{"op": "tick", "d": TICK}] * rng.randrange(3)
    ops += reads[ty](k)
    if mode == "mem":
        if ty2 != ty:
            ops += reads[ty2](k)
        if rng.random() < 0.4:
            ops += [{"op": "cleanup"}, {"op": "setexp", "k": k, "ttl": LONG}] + reads[ty](k)
        return {"mode": "mem", "ops": ops, "scale": 1, "tol": MARGIN}
    return {"mode": "redis", "ops": ops, "scale": 100, "tol": 10 ** 12}


JSONISH = ["a&b", "<x>", "https://h/p?a=1&b=<2>", "q\"uote", "back\\slash", "line\u2028sep", "tab\tnl\n", "{\"u\":\"a&b\"}", "\u00e9\u4e2d",
           "\ufffd", "nul\u0000in"]
RSTR = ["a", "b", "{\"id\":7,\"n\":\"x\"}", "a&b<c>", "x y", "café"]


def gen_redis(rng):
    """typed keys, the shapes the repositories use"""
    ops, ticks = [], 0
    for _ in range(rng.choice([4, 8, 12, 16])):
        if ticks < 6 and rng.random() < 0.15:
            ops.append({"op": "tick", "d": TICK})
            ticks += 1
            continue
        ty = rng.choice(["s", "s", "l", "h", "c"])
        if ty == "s":
            k = rng.choice(["s0", "s1"])
            kind = rng.choice(["set", "set", "get", "get", "del", "exists", "setnx", "cas", "cas", "setexp", "getexp"])
            o = {"op": kind, "k": k}
            if kind in ("set", "setnx"):
                o["v"] = rng.choice(RSTR + [5])
                o["ttl"] = rng.choice(TTLS)
            elif kind == "cas":
                o["old"] = rng.choice(RSTR + [5, None])
                o["v"] = rng.choice(RSTR)
                o["ttl"] = rng.choice(TTLS)
            elif kind == "setexp":
                o["ttl"] = rng.choice(TTLS)
        elif ty == "l":
            kind = rng.choice(["setlist", "getlist", "getlist", "append", "append", "remove", "del", "exists", "setexp"])
            o = {"op": kind, "k": "l0"}
            if kind == "setlist":
                o["v"] = [rng.choice(RSTR[:3]) for _ in range(rng.randrange(5))]
                o["ttl"] = rng.choice(TTLS)
            elif kind in ("append", "remove"):
                o["v"] = rng.choice(RSTR[:3])
            elif kind == "setexp":
                o["ttl"] = rng.choice(TTLS)
        elif ty == "h":
            kind = rng.choice(["sethash", "sethash", "gethash", "getallhash", "delhash", "del", "exists", "setexp"])
            o = {"op": kind, "k": "h0"}
            if kind in ("sethash", "gethash", "delhash"):
                o["f"] = rng.choice(FIELDS)
            if kind == "sethash":
                o["v"] = rng.choice(RSTR + [3])
            elif kind == "setexp":
                o["ttl"] = rng.choice(TTLS)
        else:
            kind = rng.choice(["incrby", "incrby", "get", "del", "exists", "setexp"])
            o = {"op": kind, "k": "c0"}
            if kind == "incrby":
                o["n"] = rng.choice([1, 1, 5, -2])
            elif kind == "setexp":
                o["ttl"] = rng.choice(TTLS)
        ops.append(o)
    return {"mode": "redis", "ops": ops, "scale": 100, "tol": 10 ** 12}


def gen_conc(rng, hash_reads_ok, cas_ok):
    """hash operations live on their own key: Get on a hash-valued key returns the LIVE inner map of memory.Storage
    (aliasing), which a caller cannot read safely while another goroutine runs SetHash — not a shape the repositories use"""
    keys = ["k0", "k1"][:rng.choice([1, 1, 2])]
    ttls = [0, LONG] if cas_ok else [LONG]
    kinds = ["set", "get", "get", "del", "exists", "setnx", "setnx", "cas", "cas", "incrby", "incrby", "append", "getlist",
             "remove", "setlist", "sethash", "delhash", "hexists", "hdel"]
    if hash_reads_ok:
        kinds += ["gethash", "getallhash"]
    threads = []
    for _ in range(rng.choice([2, 3, 3])):
        prog = []
        for _ in range(rng.choice([2, 3, 4])):
            kind = rng.choice(kinds)
            o = {"op": kind, "k": rng.choice(keys)}
            if kind in ("set", "setnx"):
                o["v"] = rng.choice(["a", "b", 1])
                o["ttl"] = rng.choice(ttls)
            elif kind == "setlist":
                o["v"] = [rng.choice(["a", "b"]) for _ in range(rng.randrange(3))]
                o["ttl"] = rng.choice(ttls)
            elif kind == "cas":
                o["old"] = rng.choice(["a", "b", 1, None])
                o["v"] = rng.choice(["a", "b"])
                o["ttl"] = rng.choice(ttls)
            elif kind == "incrby":
                o["n"] = rng.choice([1, 2])
            elif kind in ("append", "remove"):
                o["v"] = rng.choice(["a", "b"])
            elif kind == "sethash":
                o.update(k="h0", f=rng.choice(FIELDS), v=rng.choice(["a", "b"]))
            elif kind in ("gethash", "delhash"):
                o.update(k="h0", f=rng.choice(FIELDS))
            elif kind == "getallhash":
                o["k"] = "h0"
            elif kind == "hexists":
                o.update(op="exists", k="h0")
            elif kind == "hdel":
                o.update(op="del", k="h0")
            prog.append(o)
        threads.append(prog)
    return {"mode": "conc", "threads": threads}


def lifetime_sweep(mode):
    """deterministic: every operation that takes a lifetime x lifetime {0, SHORT} x prior state of the key
    {absent, SHORT deadline, MID deadline, never}; then three clock steps (> MID) with reads after the first and the last"""
    out = []
    for ty, k in (("s", "s0"), ("l", "l0")):
        for prior in ("absent", SHORT, MID, 0):
            for ttl in (0, SHORT):
                mk = (lambda t: {"op": "set", "k": k, "v": "a", "ttl": t}) if ty == "s" else \
                     (lambda t: {"op": "setlist", "k": k, "v": ["a", "b"], "ttl": t})
                rd = [{"op": "get", "k": k}, {"op": "exists", "k": k}] if ty == "s" else [{"op": "getlist", "k": k}, {"op": "exists", "k": k}]
                opsets = [[mk(ttl)], [{"op": "setexp", "k": k, "ttl": ttl}]]
                if ty == "s":
                    opsets += [[{"op": "setnx", "k": k, "v": "b", "ttl": ttl}], [{"op": "cas", "k": k, "old": "a", "v": "b", "ttl": ttl}],
                               [{"op": "cas", "k": k, "old": None, "v": "b", "ttl": ttl}]]
                for second in opsets:
                    ops = [] if prior == "absent" else [mk(prior)]
                    ops += second + rd + [{"op": "tick", "d": TICK}] + rd + [{"op": "tick", "d": TICK}] * 2 + rd
                    out.append({"mode": mode, "ops": ops, "scale": 1 if mode == "mem" else 100,
                                "tol": MARGIN if mode == "mem" else 10 ** 12, "sweep": True})
    return out


def collection_boundaries():
    """deterministic boundary inputs of the collection operations, run on BOTH real backends side by side (mode "both"):
    SetList(k, []) / SetList(k, [one]) on an existing list and after appends, RemoveFromList of the last element followed by
    AppendToList, DeleteHash of the last field followed by SetHash, empty field name / empty value, IncrBy(0) and a counter
    back at 0 — each after priors with lifetime 0 / SHORT / LONG, with reads before and after clock steps."""
    T = {"op": "tick", "d": TICK}
    out = []

    def add(ops):
        out.append({"mode": "both", "ops": ops, "scale": 1, "tol": MARGIN, "boundary": True})
    lreads = [{"op": "getlist", "k": "l0"}, {"op": "exists", "k": "l0"}]
    lpriors = [[{"op": "setlist", "k": "l0", "v": ["a", "b"], "ttl": t}] for t in (0, SHORT, LONG)] + \
              [[{"op": "append", "k": "l0", "v": "a"}, {"op": "append", "k": "l0", "v": "b"}]] + \
              [[{"op": "setlist", "k": "l0", "v": ["a"], "ttl": t}] for t in (0, SHORT)] + \
              [[{"op": "append", "k": "l0", "v": "a"}, {"op": "setexp", "k": "l0", "ttl": SHORT}]]
    lseconds = [[{"op": "setlist", "k": "l0", "v": [], "ttl": 0}], [{"op": "setlist", "k": "l0", "v": [], "ttl": SHORT}],
                [{"op": "setlist", "k": "l0", "v": ["z"], "ttl": 0}], [{"op": "setlist", "k": "l0", "v": ["z"], "ttl": LONG}],
                [{"op": "remove", "k": "l0", "v": "a"}], [{"op": "remove", "k": "l0", "v": "a"}, {"op": "remove", "k": "l0", "v": "b"}],
                [{"op": "remove", "k": "l0", "v": "zz"}], [{"op": "append", "k": "l0", "v": ""}, {"op": "remove", "k": "l0", "v": ""}]]
    for pr in lpriors:
        for se in lseconds:
            add(pr + se + lreads + [{"op": "append", "k": "l0", "v": "c"}] + lreads + [T] + lreads + [T, T] + lreads)
    hreads = [{"op": "getallhash", "k": "h0"}, {"op": "gethash", "k": "h0", "f": "f"}, {"op": "gethash", "k": "h0", "f": "nope"},
              {"op": "exists", "k": "h0"}]
    hpriors = [[{"op": "sethash", "k": "h0", "f": "f", "v": "a"}],
               [{"op": "sethash", "k": "h0", "f": "f", "v": "a"}, {"op": "setexp", "k": "h0", "ttl": SHORT}],
               [{"op": "sethash", "k": "h0", "f": "f", "v": "a"}, {"op": "setexp", "k": "h0", "ttl": 0}],
               [{"op": "sethash", "k": "h0", "f": "f", "v": "a"}, {"op": "sethash", "k": "h0", "f": "g", "v": "b"},
                {"op": "setexp", "k": "h0", "ttl": SHORT}]]
    hseconds = [[{"op": "delhash", "k": "h0", "f": "f"}], [{"op": "delhash", "k": "h0", "f": "f"}, {"op": "delhash", "k": "h0", "f": "g"}],
                [{"op": "delhash", "k": "h0", "f": "nope"}], [{"op": "sethash", "k": "h0", "f": "", "v": ""}],
                [{"op": "sethash", "k": "h0", "f": "f", "v": ""}], [{"op": "sethash", "k": "h0", "f": "", "v": "x"}, {"op": "delhash", "k": "h0", "f": ""}]]
    for pr in hpriors:
        for se in hseconds:
            add(pr + se + hreads + [{"op": "gethash", "k": "h0", "f": ""}, {"op": "sethash", "k": "h0", "f": "f", "v": "z"}] + hreads
                + [T] + hreads + [T, T] + hreads)
    # members / values whose JSON encoding is not the plain text: a list member written by one operation must be found by
    # another (SetList then RemoveFromList, AppendToList then RemoveFromList), on Redis as in memory
    for mmb in JSONISH:
        add([{"op": "setlist", "k": "l0", "v": [mmb, "z", mmb], "ttl": 0}] + lreads + [{"op": "remove", "k": "l0", "v": mmb}] + lreads
            + [{"op": "append", "k": "l0", "v": mmb}] + lreads + [{"op": "remove", "k": "l0", "v": mmb}] + lreads
            + [{"op": "remove", "k": "l0", "v": "z"}, {"op": "append", "k": "l0", "v": mmb}, {"op": "setlist", "k": "l0", "v": [mmb], "ttl": 0},
               {"op": "remove", "k": "l0", "v": mmb}] + lreads)
        add([{"op": "sethash", "k": "h0", "f": mmb, "v": mmb}, {"op": "gethash", "k": "h0", "f": mmb}, {"op": "getallhash", "k": "h0"},
             {"op": "delhash", "k": "h0", "f": mmb}, {"op": "getallhash", "k": "h0"}, {"op": "exists", "k": "h0"}])
        add([{"op": "set", "k": "s0", "v": mmb, "ttl": 0}, {"op": "get", "k": "s0"}, {"op": "cas", "k": "s0", "old": mmb, "v": mmb + mmb, "ttl": 0},
             {"op": "get", "k": "s0"}, {"op": "setnx", "k": "s1", "v": mmb, "ttl": 0}, {"op": "get", "k": "s1"}])
    creads = [{"op": "get", "k": "c0"}, {"op": "exists", "k": "c0"}]
    for pr in ([], [{"op": "incrby", "k": "c0", "n": 5}, {"op": "incrby", "k": "c0", "n": -5}],
               [{"op": "incrby", "k": "c0", "n": 5}, {"op": "setexp", "k": "c0", "ttl": SHORT}],
               [{"op": "incrby", "k": "c0", "n": 5}, {"op": "incrby", "k": "c0", "n": -5}, {"op": "setexp", "k": "c0", "ttl": SHORT}]):
        for n in (0, 1):
            add(pr + [{"op": "incrby", "k": "c0", "n": n}] + creads + [T] + creads + [{"op": "incrby", "k": "c0", "n": 0}] + creads)
    return out


def sweep_cases():
    """a write on an expired key issued while a CleanupExpired sweep (explicit call / StartCleanup ticker) holds the mutex"""
    k = "k0"
    writes = [([{"op": "set", "k": k, "v": "fresh", "ttl": 0}], [{"op": "get", "k": k}, {"op": "exists", "k": k}, {"op": "getexp", "k": k}]),
              ([{"op": "setnx", "k": k, "v": "fresh", "ttl": 0}], [{"op": "get", "k": k}, {"op": "exists", "k": k}]),
              ([{"op": "cas", "k": k, "old": None, "v": "fresh", "ttl": 0}], [{"op": "get", "k": k}]),
              ([{"op": "append", "k": k, "v": "z"}], [{"op": "getlist", "k": k}, {"op": "exists", "k": k}]),
              ([{"op": "sethash", "k": k, "f": "f", "v": "z"}], [{"op": "getallhash", "k": k}]),
              ([{"op": "incrby", "k": k, "n": 3}], [{"op": "get", "k": k}])]
    out = []
    for i, (w, rd) in enumerate(writes):
        out.append({"mode": "sweep", "ops": w + rd, "fill": 100000, "ticker": False})
        if i < 3:
            out.append({"mode": "sweep", "ops": w + rd, "fill": 100000, "ticker": True})
    return out


def upgrade_cases():
    """expired-entry readers racing a writer: every read of memory.Storage (GetHash / GetAllHash / GetExpiration have a
    second, write-locked section that evicts what they found expired; Get / Exists / GetList are one section) x every
    writer that revives, refreshes or removes the key x the type of the expired value.  The harness parks the reader in
    RLock and the writer in Lock behind its own write lock and releases: the writer lands between the reader's sections."""
    k = "k0"
    setups = {
        "hash": [{"op": "sethash", "k": k, "f": "f", "v": "old"}, {"op": "setexp", "k": k, "ttl": 2}],
        "string": [{"op": "set", "k": k, "v": "old", "ttl": 2}],
        "list": [{"op": "setlist", "k": k, "v": ["old"], "ttl": 2}],
        "counter": [{"op": "incrby", "k": k, "n": 40}, {"op": "setexp", "k": k, "ttl": 2}],
    }
    readers = [{"op": "gethash", "k": k, "f": "f"}, {"op": "getallhash", "k": k}, {"op": "getexp", "k": k},
               {"op": "get", "k": k}, {"op": "exists", "k": k}, {"op": "getlist", "k": k}]
    writers = [{"op": "set", "k": k, "v": "new", "ttl": 0}, {"op": "setnx", "k": k, "v": "new", "ttl": 0},
               {"op": "setlist", "k": k, "v": ["n"], "ttl": 0}, {"op": "append", "k": k, "v": "n"},
               {"op": "sethash", "k": k, "f": "f", "v": "new"}, {"op": "incrby", "k": k, "n": 3},
               {"op": "setexp", "k": k, "ttl": LONG}, {"op": "cas", "k": k, "old": None, "v": "new", "ttl": 0}, {"op": "del", "k": k}]
    reads = [{"op": "exists", "k": k}, {"op": "get", "k": k}, {"op": "gethash", "k": k, "f": "f"}, {"op": "getlist", "k": k},
             {"op": "getexp", "k": k}]
    return [{"mode": "upgrade", "setup": su, "ops": [r, w] + reads, "planted": name}
            for name, su in setups.items() for r in readers for w in writers]


def iso_cases():
    """value isolation on every backend (mode "iso"): answers already returned are re-compared after every later call and at
    the end; []any arguments are overwritten by the harness after the call (mutin); returned composites are overwritten
    (mutret); SetList(k2, GetList(k1)) with the very slice returned; iterate-and-remove."""
    A = lambda k, v: {"op": "append", "k": k, "v": v}
    GL = lambda k: {"op": "getlist", "k": k}
    abc = [A("k1", "a"), A("k1", "b"), A("k1", "c")]                      # len 3, cap 4: room for an in-place append
    sl = lambda k, v, t=0: {"op": "setlist", "k": k, "v": v, "ttl": t}
    cp = {"op": "copylist", "k": "k2", "f": "k1", "ttl": 0}
    H = [{"op": "sethash", "k": "h1", "f": "f", "v": "a"}, {"op": "sethash", "k": "h1", "f": "g", "v": "b"}]
    GA = {"op": "getallhash", "k": "h1"}
    both = [GL("k1"), GL("k2"), {"op": "exists", "k": "k1"}, {"op": "exists", "k": "k2"}]
    sc = [
        # (b) arguments overwritten by the caller after the call returned
        ("setlist-argument-overwritten", [sl("k1", ["a", "b", "c"]), GL("k1"), A("k1", "d"), GL("k1")], True, False),
        ("set-list-argument-overwritten", [{"op": "set", "k": "k1", "v": ["a", "b", "c"], "ttl": 0}, GL("k1")], True, False),
        ("setnx-list-argument-overwritten", [{"op": "setnx", "k": "k1", "v": ["a", "b", "c"], "ttl": 0}, GL("k1")], True, False),
        ("cas-list-argument-overwritten", [{"op": "cas", "k": "k1", "old": None, "v": ["a", "b"], "ttl": 0}, GL("k1")], True, False),
        # (b') answers overwritten by the caller
        ("getlist-answer-overwritten", [sl("k1", ["a", "b", "c"]), GL("k1"), GL("k1"), A("k1", "d"), GL("k1")], False, True),
        ("getlist-answer-overwritten-after-appends", abc + [GL("k1"), GL("k1")], False, True),
        ("getallhash-answer-overwritten", H + [GA, GA, {"op": "gethash", "k": "h1", "f": "f"}], False, True),
        ("get-hash-answer-overwritten", H + [{"op": "get", "k": "h1"}, GA], False, True),
        ("get-list-answer-overwritten", abc + [{"op": "get", "k": "k1"}, GL("k1")], False, True),
        # (a) answers kept while the key is written
        ("getlist-then-remove", abc + [GL("k1"), {"op": "remove", "k": "k1", "v": "a"}, GL("k1"), {"op": "remove", "k": "k1", "v": "c"}, GL("k1")], False, False),
        ("getlist-then-append", abc + [GL("k1"), A("k1", "d"), A("k1", "e"), GL("k1")], False, False),
        ("getlist-then-setlist-delete", abc + [GL("k1"), sl("k1", ["z"]), GL("k1"), {"op": "del", "k": "k1"}, GL("k1")], False, False),
        ("setlist-getlist-then-remove", [sl("k1", ["a", "b", "a", "c"]), GL("k1"), {"op": "remove", "k": "k1", "v": "a"}, GL("k1")], False, False),
        ("getallhash-then-sethash-delhash", H + [GA, {"op": "sethash", "k": "h1", "f": "x", "v": "y"}, {"op": "delhash", "k": "h1", "f": "f"}, GA], False, False),
        ("get-hash-then-sethash-delhash", H + [{"op": "get", "k": "h1"}, {"op": "sethash", "k": "h1", "f": "x", "v": "y"},
                                               {"op": "delhash", "k": "h1", "f": "f"}, GA], False, False),
        ("get-list-then-remove", abc + [{"op": "get", "k": "k1"}, {"op": "remove", "k": "k1", "v": "b"}, GL("k1")], False, False),
        ("get-counter-then-incr", [{"op": "incrby", "k": "c1", "n": 5}, {"op": "get", "k": "c1"}, {"op": "incrby", "k": "c1", "n": 1}, {"op": "get", "k": "c1"}], False, False),
        # (c) copies between keys, then writes to either
        ("copy-then-remove-from-source", abc + [cp, {"op": "remove", "k": "k1", "v": "a"}] + both, False, False),
        ("copy-then-remove-from-copy", abc + [cp, {"op": "remove", "k": "k2", "v": "b"}] + both, False, False),
        ("copy-then-append-to-both", abc + [cp, A("k1", "x"), A("k2", "y")] + both, False, False),
        ("copy-then-append-to-copy-then-source", abc + [cp, A("k2", "y"), A("k1", "x")] + both, False, False),
        ("copy-of-setlist-then-remove", [sl("k1", ["a", "b", "c"]), cp, {"op": "remove", "k": "k1", "v": "b"}] + both, False, False),
        ("copy-then-setlist-source", abc + [cp, sl("k1", []), A("k1", "q")] + both, False, False),
        ("copy-then-delete-source", abc + [cp, {"op": "del", "k": "k1"}] + both, False, False),
        # empty lists with spare capacity: a caller's scratch buffer buf[:0] handed in, and a list emptied by RemoveFromList
        # (stored with capacity) handed out — the store's next in-place append and the caller's own append share cell 0
        ("setlist-empty-buffer-reused-then-append", [dict(sl("k1", []), cap=4), A("k1", "a"), GL("k1"), A("k1", "b"), GL("k1")], True, False),
        ("setlist-short-buffer-reused-then-append", [dict(sl("k1", ["a"]), cap=3), A("k1", "b"), GL("k1"), A("k1", "c"), GL("k1")], True, False),
        ("set-empty-buffer-reused-then-append", [{"op": "set", "k": "k1", "v": [], "ttl": 0, "cap": 4}, A("k1", "a"), GL("k1")], True, False),
        ("setnx-empty-buffer-reused-then-append", [{"op": "setnx", "k": "k1", "v": [], "ttl": 0, "cap": 4}, A("k1", "a"), GL("k1")], True, False),
        ("cas-empty-buffer-reused-then-append", [{"op": "cas", "k": "k1", "old": None, "v": [], "ttl": 0, "cap": 4}, A("k1", "a"), GL("k1")], True, False),
        ("emptied-list-answer-reused-then-append", abc + [{"op": "remove", "k": "k1", "v": x} for x in "abc"]
         + [GL("k1"), A("k1", "x"), GL("k1"), A("k1", "y"), GL("k1")], False, True),
        ("emptied-setlist-answer-reused-then-append", [sl("k1", ["a", "a", "a"]), {"op": "remove", "k": "k1", "v": "a"}, GL("k1"),
                                                       A("k1", "x"), GL("k1")], False, True),
        ("get-emptied-list-answer-reused-then-append", abc + [{"op": "remove", "k": "k1", "v": x} for x in "abc"]
         + [{"op": "get", "k": "k1"}, A("k1", "x"), GL("k1")], False, True),
        ("copy-of-emptied-list-then-append-to-both", abc + [{"op": "remove", "k": "k1", "v": x} for x in "abc"]
         + [cp, A("k1", "x"), A("k2", "y")] + both, False, False),
        ("drain-then-getlist-answer-reused-then-append", abc + [{"op": "drain", "k": "k1"}, GL("k1"), A("k1", "n"), GL("k1")], False, True),
        # (d) iterate-and-remove
        ("drain-appended-list", abc + [{"op": "drain", "k": "k1"}, GL("k1"), A("k1", "n"), GL("k1")], False, False),
        ("drain-setlist-with-duplicates", [sl("k1", ["a", "b", "a", "c", "d"]), {"op": "drain", "k": "k1"}, GL("k1")], False, False),
        ("drain-copy", abc + [cp, {"op": "drain", "k": "k2"}] + both, False, False),
    ]
    out = []
    for bk in ("mem", "redis", "hybrid"):
        for name, ops, mutin, mutret in sc:
            if bk != "mem" and name.startswith("get-"):
                continue   # Get of a list / hash / counter key is not a shape the typed backends share (Redis: WRONGTYPE)
            if bk == "redis" and name.split("-")[0] in ("set", "setnx", "cas"):
                continue   # a list handed to Set / SetNX / CompareAndSwap is a JSON string on Redis, not a list
            if bk == "hybrid" and "hash" in name:
                continue   # hybrid.Storage does not implement GetAllHash
            out.append({"mode": "iso", "backend": bk, "name": name, "ops": ops, "mutin": mutin, "mutret": mutret})
    return out


def expand_iso(ops, obs_for_ops, outs):
    """copylist / drain as model operations, built from the answers observed at call time; outs may be the end-of-history view"""
    mops, mouts = [], []
    for o, a, b in zip(ops, obs_for_ops, outs):
        if o["op"] == "copylist":
            mops.append({"op": "getlist", "k": o["f"]})
            mouts.append(b[1])
            if len(a) > 2 and a[1][0] == "v":
                mops.append({"op": "setlist", "k": o["k"], "v": a[1][1], "ttl": o.get("ttl", 0)})
                mouts.append(b[2])
        elif o["op"] == "drain":
            mops.append({"op": "getlist", "k": o["k"]})
            mouts.append(b[1])
            if a[1][0] == "v":
                for x, r in zip(a[1][1], b[2:]):
                    mops.append({"op": "remove", "k": o["k"], "v": x})
                    mouts.append(r)
        else:
            mops.append(o)
            mouts.append(b)
    return mops, mouts


BIG = 900000           # Redis runs only (virtual clock, 1 model ms = 100 real ms): 25 h, beyond constants.DefaultDataTTL (24 h)


def lifetime_left_cases():
    """which lifetime does a write leave on the key?  Every write operation x lifetime argument {0 = never, SHORT, LONG} x prior
    state of the key {absent, deadline MID, never, created with the default lifetime}; GetExpiration right after (compared as a
    number on every backend).  As "both": memory + redis side by side with clock steps of 200 ms up to beyond MID.  As "redis":
    FastForward 25 h twice — beyond DefaultDataTTL, so a key that was meant to live forever but got the default lifetime is gone
    (and one that was meant to get the default lifetime but got none is still there)."""
    out = []
    T = {"op": "tick", "d": TICK}
    B = {"op": "tick", "d": BIG}
    spec = {
        "s": ("s0", [[], [{"op": "set", "k": "s0", "v": "a", "ttl": MID}], [{"op": "set", "k": "s0", "v": "a", "ttl": 0}]],
              lambda t: [[{"op": "set", "k": "s0", "v": "b", "ttl": t}], [{"op": "setnx", "k": "s0", "v": "b", "ttl": t}],
                         [{"op": "cas", "k": "s0", "old": "a", "v": "b", "ttl": t}], [{"op": "cas", "k": "s0", "old": None, "v": "b", "ttl": t}],
                         [{"op": "setexp", "k": "s0", "ttl": t}]],
              [{"op": "get", "k": "s0"}]),
        "l": ("l0", [[], [{"op": "setlist", "k": "l0", "v": ["a", "b"], "ttl": MID}], [{"op": "setlist", "k": "l0", "v": ["a", "b"], "ttl": 0}],
                     [{"op": "append", "k": "l0", "v": "a"}]],
              lambda t: [[{"op": "setlist", "k": "l0", "v": ["x", "y"], "ttl": t}], [{"op": "setlist", "k": "l0", "v": ["x"], "ttl": t}],
                         [{"op": "setlist", "k": "l0", "v": [], "ttl": t}], [{"op": "setexp", "k": "l0", "ttl": t}]]
                        + ([[{"op": "append", "k": "l0", "v": "z"}], [{"op": "remove", "k": "l0", "v": "a"}]] if t == 0 else []),
              [{"op": "getlist", "k": "l0"}]),
        "h": ("h0", [[], [{"op": "sethash", "k": "h0", "f": "f", "v": "a"}],
                     [{"op": "sethash", "k": "h0", "f": "f", "v": "a"}, {"op": "setexp", "k": "h0", "ttl": MID}],
                     [{"op": "sethash", "k": "h0", "f": "f", "v": "a"}, {"op": "setexp", "k": "h0", "ttl": 0}]],
              lambda t: [[{"op": "setexp", "k": "h0", "ttl": t}]]
                        + ([[{"op": "sethash", "k": "h0", "f": "g", "v": "z"}], [{"op": "sethash", "k": "h0", "f": "f", "v": "z"}],
                            [{"op": "delhash", "k": "h0", "f": "nope"}]] if t == 0 else []),
              [{"op": "getallhash", "k": "h0"}]),
        "c": ("c0", [[], [{"op": "incrby", "k": "c0", "n": 5}], [{"op": "incrby", "k": "c0", "n": 5}, {"op": "setexp", "k": "c0", "ttl": MID}],
                     [{"op": "incrby", "k": "c0", "n": 5}, {"op": "setexp", "k": "c0", "ttl": 0}]],
              lambda t: [[{"op": "setexp", "k": "c0", "ttl": t}]]
                        + ([[{"op": "incrby", "k": "c0", "n": 1}], [{"op": "incrby", "k": "c0", "n": 0}], [{"op": "incrby", "k": "c0", "n": -5}]] if t == 0 else []),
              [{"op": "get", "k": "c0"}]),
    }
    for ty, (k, priors, writes, read) in spec.items():
        obs = [{"op": "getexp", "k": k}, {"op": "exists", "k": k}] + read
        for pr in priors:
            for t in (0, SHORT, LONG):
                for w in writes(t):
                    head = pr + w + obs
                    out.append({"mode": "both", "ops": head + [T] + obs + [T, T] + obs, "scale": 1, "tol": MARGIN, "lifetime": True})
                    out.append({"mode": "redis", "ops": head + [B] + obs + [B] + obs, "scale": 100, "tol": 0, "lifetime": True})
    return out


def torn_cases():
    """readers of a large hash / list racing writers that mutate it in place; run in a child process of the harness"""
    return [{"mode": "torn", "kind": kd, "reader": rd, "fill": 20000, "reads": 300}
            for kd, rd in (("hash", "get"), ("hash", "getallhash"), ("hash", "getlist"), ("list", "get"), ("list", "getlist"))]


def incr_cases():
    """concurrent increments of ONE existing counter on every backend (child process): returned values distinct, none lost"""
    return [{"mode": "incr", "backend": "mem", "fill": 16, "reads": 3000}, {"mode": "incr", "backend": "hybrid", "fill": 16, "reads": 3000},
            {"mode": "incr", "backend": "redis", "fill": 8, "reads": 250},
            # RemoveFromList racing AppendToList on one large list: no completed append is lost
            {"mode": "listrace", "backend": "mem", "fill": 4000, "reads": 400}, {"mode": "listrace", "backend": "hybrid", "fill": 4000, "reads": 400},
            {"mode": "listrace", "backend": "redis", "fill": 300, "reads": 150}]


def exhaustive_small(rng, depth):
    """all histories of the given length over a reduced one-key alphabet (thorough tier)"""
    k = "k0"
    alpha = [{"op": "set", "k": k, "v": "a", "ttl": 0}, {"op": "set", "k": k, "v": "a", "ttl": SHORT},
             {"op": "cas", "k": k, "old": "a", "v": "b", "ttl": 0}, {"op": "cas", "k": k, "old": "a", "v": "a", "ttl": SHORT},
             {"op": "cas", "k": k, "old": None, "v": "a", "ttl": LONG}, {"op": "setnx", "k": k, "v": "a", "ttl": SHORT},
             {"op": "setexp", "k": k, "ttl": 0}, {"op": "setexp", "k": k, "ttl": LONG}, {"op": "append", "k": k, "v": "a"},
             {"op": "incrby", "k": k, "n": 1}, {"op": "sethash", "k": k, "f": "f", "v": "a"}, {"op": "del", "k": k},
             {"op": "tick", "d": TICK}]
    out = []

    def rec(prefix):
        if len(prefix) == depth:
            out.append({"mode": "mem", "scale": 1, "tol": MARGIN,
                        "ops": list(prefix) + [{"op": "get", "k": k}, {"op": "getexp", "k": k}, {"op": "getlist", "k": k},
                                               {"op": "getallhash", "k": k}]})
            return
        for a in alpha:
            rec(prefix + [a])
    rec([])
    return out


# ------------------------------------------------------------------------------------------------
# encoding for the Coq model (Corr/C13.v)
# ------------------------------------------------------------------------------------------------

def bz(z):
    return [1 if z < 0 else 0, abs(z)]


def enc_scalar(x):
    if x is None:
        return [2]
    if isinstance(x, bool):
        raise ValueError("bool scalar")
    if isinstance(x, int):
        return [1] + bz(x)
    if isinstance(x, str):
        return [0, x.encode("utf-8")]
    raise ValueError("scalar %r" % (x,))


def enc_value(x):
    if isinstance(x, list):
        return [1, [enc_scalar(y) for y in x]]
    if isinstance(x, dict):
        if "h" in x:
            return [2, [[row[0].encode("utf-8"), enc_scalar(row[1])] for row in x["h"]]]
        raise ValueError("unrepresentable value %r" % (x,))
    return [0, enc_scalar(x)]


TAG = {"set": 0, "get": 1, "del": 2, "exists": 3, "setlist": 4, "getlist": 5, "append": 6, "remove": 7, "sethash": 8,
       "gethash": 9, "getallhash": 10, "delhash": 11, "incrby": 12, "setexp": 13, "getexp": 14, "setnx": 15, "cas": 16,
       "cleanup": 17, "tick": 18}


def enc_op(o):
    t = TAG[o["op"]]
    k = o.get("k", "").encode("utf-8")
    kind = o["op"]
    if kind in ("set", "setnx"):
        return [t, k, enc_value(o.get("v")), o.get("ttl", 0)]
    if kind == "setlist":
        return [t, k, [enc_scalar(y) for y in o["v"]], o.get("ttl", 0)]
    if kind in ("append", "remove"):
        return [t, k, enc_scalar(o.get("v"))]
    if kind == "sethash":
        return [t, k, o["f"].encode("utf-8"), enc_scalar(o.get("v"))]
    if kind in ("gethash", "delhash"):
        return [t, k, o["f"].encode("utf-8")]
    if kind == "incrby":
        return [t, k] + bz(o.get("n", 0))
    if kind == "setexp":
        return [t, k, o.get("ttl", 0)]
    if kind == "cas":
        return [t, k, enc_scalar(o.get("old")), enc_value(o.get("v")), o.get("ttl", 0)]
    if kind == "tick":
        return [t, o["d"]]
    return [t, k]


def enc_out(ob):
    try:
        h = ob[0]
        if h == "ok":
            return [0]
        if h == "v":
            return [1, enc_value(ob[1])]
        if h == "b":
            return [2, 1 if ob[1] else 0]
        if h == "i":
            return [3] + bz(ob[1])
        if h == "d":
            return [4, ob[1]]
        if h == "dneg":
            return [5]
        if h == "nf":
            return [6]
        if h == "it":
            return [7]
    except (ValueError, IndexError, TypeError):
        pass
    return [8]


def case_value(mode, flags, tol, ops, outs, scale=1):
    return [mode, [1 if flags[f] else 0 for f in FLAGS], tol, [enc_op(o) for o in ops], [enc_out(x) for x in outs], scale]


# ------------------------------------------------------------------------------------------------

def parse_flags(gen_text):
    fl = {}
    for f in FLAGS:
        m = re.search(r"\b%s\s*:=\s*(true|false)" % f, gen_text)
        if not m:
            raise vlib.Broken("Gen/C13.v: probed flag %s missing" % f, gen_text[-800:])
        fl[f] = m.group(1) == "true"
    return fl


def race_probe(binary):
    try:
        p = subprocess.run([binary, "race"], stdout=subprocess.PIPE, stderr=subprocess.PIPE, text=True, timeout=60)
    except subprocess.TimeoutExpired:
        return None, "timeout"
    if p.returncode == 0 and "survived" in p.stdout:
        return True, ""
    head = (p.stderr or "").strip().splitlines()[:1]
    return False, head[0] if head else "exit %d" % p.returncode


def load_corpus():
    d = os.path.join(vlib.VERIF, "corpus", "C13")
    out = []
    if os.path.isdir(d):
        for f in sorted(os.listdir(d)):
            if f.endswith(".json"):
                out.append(json.load(open(os.path.join(d, f))))
    return out


def shrink(binary, case, key):
    """greedy: drop operations while the Go-side predicate still fails in the same region"""
    def fails(c):
        try:
            o = vlib.run_harness(binary, [c], timeout=120)[0]
        except vlib.Broken:
            return False
        return (not o["prop_ok"]) and o.get("prop_key") == key and o.get("late_ms", 0) <= MARGIN
    cur = json.loads(json.dumps(case))
    if cur["mode"] == "conc":
        return cur
    for _ in range(25):
        changed = False
        for i in range(len(cur["ops"])):
            t = dict(cur, ops=cur["ops"][:i] + cur["ops"][i + 1:])
            if t["ops"] and fails(t):
                cur, changed = t, True
                break
        if not changed:
            break
    return cur


def run(ctx, only_cases=None):
    thorough = ctx.tier == "thorough"
    rng = ctx.rng
    binary = vlib.build_harness("C13")
    gen_text = vlib.harness_text(binary, ["gen"])
    gen_changed = vlib.write_if_changed(os.path.join(vlib.COQ, "Gen", "C13.v"), gen_text)
    flags = parse_flags(gen_text)
    repaired = {f: True for f in FLAGS}
    broken = None
    try:
        pinfo = vlib.coq_properties("C13")
        vlib.proof_coverage(ctx, pinfo, "make -C coq Properties/C13.vo && coqc Properties/C13.v (Print Assumptions audit)",
                            extra_obligations=5)  # the 5 regenerated side conditions in Proofs/SideC13.v
    except vlib.Broken as b:
        broken = b   # keep going: search the implementation for a concrete failing input first

    # ---- unlocked map read of GetHash / GetAllHash (Go data race; crashes the process) ----
    race_ok, race_msg = (True, "") if only_cases is not None else race_probe(binary)
    if race_ok is False:
        ctx.violation("mem:hash-read-outside-lock",
                      "memory.Storage.GetHash/GetAllHash read the inner map after releasing the lock: 3 goroutines SetHash/DeleteHash "
                      "on key h, 3 goroutines GetHash/GetAllHash on key h -> process dies with '%s'" % race_msg,
                      {"command": "build/bin/verif_c13 race", "stderr_head": race_msg})
    # ---- SetNX's deadline-instant test cannot be observed through the wall clock: syntax-tree probe + model witness ----
    if not flags["v_setnx_after"]:
        ctx.violation(FLAG_KEY["v_setnx_after"],
                      "memory.Storage.SetNX decides liveness with time.Now().Before(exp) while every other method uses "
                      "!time.Now().After(exp): at the deadline instant Get still returns the value and SetNX overwrites it "
                      "(model witness Proofs/KV.pinned_setnx_boundary_refuted; not reproducible with a real clock)",
                      {"model_history": "Set(k,a,50); Tick 50; Get(k); SetNX(k,b,0)"}, found_input=False)

    # ---- cases ----
    if only_cases is not None:
        cases = only_cases
    else:
        cases = load_corpus()
        cases += [{"mode": "mem", "ops": ops, "scale": 1, "tol": MARGIN, "witness": f} for f, ops in WITNESSES]
        n_mem, n_focus, n_redis, n_conc = (4000, 5000, 8000, 3000) if thorough else (400, 450, 800, 200)
        cases += [dict(c, mode="both", scale=1, tol=MARGIN) for c in lifetime_sweep("redis")]
        cases += collection_boundaries()
        cases += iso_cases()
        cases += lifetime_left_cases()
        cases += [gen_mem(rng) for _ in range(n_mem)]
        cases += [gen_focus(rng) for _ in range(n_focus)]
        if thorough:
            cases += exhaustive_small(rng, 3)
        cases += [gen_redis(rng) for _ in range(n_redis // 2)]
        for i in range(n_redis - n_redis // 2):
            c = gen_focus(rng, "redis")
            if i % 3 == 0:      # every third typed history runs on both real backends side by side
                c = dict(c, mode="both", scale=1, tol=MARGIN)
            cases.append(c)
        cas_ok = flags["v_cas_zero_guard"] and flags["v_cas_ttl0_never"]
        cases += [gen_conc(rng, race_ok is True, cas_ok) for _ in range(n_conc)]
        cases += sweep_cases()
        cases += upgrade_cases()
        cases += torn_cases()
        cases += incr_cases()
    timed = [c for c in cases if c["mode"] in ("mem", "redis", "both", "iso")]
    conc = [c for c in cases if c["mode"] in ("conc", "sweep", "upgrade", "torn", "incr", "listrace")]
    env = {"VERIF_C13_PAR": "96" if thorough else "72"}
    outs = vlib.run_harness(binary, timed, timeout=1500, env=env) if timed else []
    try:
        couts = vlib.run_harness(binary, conc, timeout=900) if conc else []
    except vlib.Broken as b:
        # a Go runtime "fatal error: concurrent map ..." cannot be recovered: the whole stream is the failing input
        head = [l for l in (b.detail or "").splitlines() if l.startswith(("fatal error", "panic"))][:1]
        ctx.violation("mem:concurrent-callers-crash", "concurrent callers of one memory.Storage killed the process: %s (%s)"
                      % (head[0] if head else b.what, b.what), {"cases": conc[:50], "stderr_tail": (b.detail or "")[-1500:]})
        conc, couts = [], []

    # ---- model runs: real == MemImpl(probed) [mode 0], reference == Spec [mode 1] ----
    ambiguous = 0
    judged = []          # (case, out)
    for c, o in zip(timed, outs):
        if c["mode"] in ("mem", "both") and o["late_ms"] > MARGIN:
            ambiguous += 1
            continue
        judged.append((c, o))
    terms, tags = [], []
    for idx, (c, o) in enumerate(judged):
        if c["mode"] == "iso":
            if c["backend"] != "redis":
                mops, mouts = expand_iso(c["ops"], o["ref"], o["ref"])
                terms.append(case_value(1, flags, 10 ** 12, mops, mouts))       # reference map == Spec
                tags.append(("ref", idx))
                # the real answers at call time AND as the retained values look at the end of the history == Spec
                # (mem: == MemImpl too); skipped when the Go predicate already failed on this case (that is the finding)
                for view in (("obs", "obs_end") if o["prop_ok"] else ()):
                    mops, mouts = expand_iso(c["ops"], o["obs"], o[view])
                    if c["backend"] == "mem":
                        terms.append(case_value(0, flags, 10 ** 12, mops, mouts))
                        tags.append(("impl", idx))
                    terms.append(case_value(1, flags, 10 ** 12, mops, mouts))
                    tags.append(("impl", idx))
            continue
        if c["mode"] == "mem" and o["prop_ok"]:   # retained answers at the end of the history
            terms.append(case_value(0, flags, c["tol"], c["ops"], o["obs_end"]))
            tags.append(("impl", idx))
        if c["mode"] in ("mem", "both"):
            terms.append(case_value(0, flags, c["tol"], c["ops"], o["obs"]))
            tags.append(("impl", idx))
            terms.append(case_value(1, flags, c["tol"], c["ops"], o["ref"]))
            tags.append(("ref", idx))
        else:
            terms.append(case_value(1, flags, 0, c["ops"], o["ref_raw"], c["scale"]))
            tags.append(("ref", idx))
        if c["mode"] in ("redis", "both"):   # the Redis-flavoured reference == Spec with "empty list/hash = absent" (mode 2),
            # DefaultDataTTL expressed in the Redis run's time unit (exact: lifetimes left on keys are compared as numbers)
            terms.append(case_value(2, flags, 0, c["ops"], o["rref_raw"], c["scale"] if c["mode"] == "redis" else 100))
            tags.append(("ref", idx))
    lin_cases = []
    for idx, (c, o) in enumerate(zip(conc, couts)):
        if c["mode"] == "sweep":
            if o["prop_ok"]:   # either order of {CleanupExpired || write} is the same Spec history up to commuting
                ops = [{"op": "set", "k": c["ops"][0]["k"], "v": "old", "ttl": SHORT}, {"op": "tick", "d": TICK}, {"op": "cleanup"}] + c["ops"]
                terms.append(case_value(1, flags, 10 ** 12, ops, [["ok"], ["ok"], ["ok"]] + o["obs"]))
                tags.append(("lin", idx))
            continue
        if c["mode"] in ("torn", "incr", "listrace"):
            continue
        if c["mode"] == "upgrade":
            if o["prop_ok"]:   # the sequential order the harness accepted, replayed through the Spec
                pre = [["i", x["n"]] if x["op"] == "incrby" else ["ok"] for x in c["setup"]] + [["ok"]]
                two, obs2 = c["ops"][:2], o["obs"][:2]
                if o["order"] == "wr":
                    two, obs2 = two[::-1], obs2[::-1]
                terms.append(case_value(1, flags, 10 ** 12, c["setup"] + [{"op": "tick", "d": 1000}] + two + c["ops"][2:],
                                        pre + obs2 + o["obs"][2:]))
                tags.append(("lin", idx))
            continue
        if o["prop_ok"]:
            ops = [c["threads"][t][i] for t, i in o["lin"]]
            obs = [o["tobs"][t][i] for t, i in o["lin"]]
            terms.append(case_value(1, flags, 0, ops, obs))
            tags.append(("lin", idx))
            lin_cases.append(idx)
    res = []
    try:
        res = vlib.model_eval("C13", terms)
    except vlib.Broken as b:
        broken = broken or b
    bad_impl = {i for (k, i), ok in zip(tags, res) if k == "impl" and not ok}
    bad_ref = {i for (k, i), ok in zip(tags, res) if k == "ref" and not ok}
    bad_lin = {i for (k, i), ok in zip(tags, res) if k == "lin" and not ok}

    # ---- (iii) the property predicate evaluated on the implementation's own answers ----
    nfail = 0
    reported = set()
    by_flag = {}
    # attribution of failures of the in-memory backend to probed deviations: smallest set of non-repaired flags whose
    # repair (in the model) changes the answers; two deviations can mask each other (pinned SetExpiration(k,0) then
    # pinned CAS), so singles first, then pairs, ...   One batch through the extracted model.
    nonrep = [f for f in FLAGS if not flags[f]]
    subsets = [ss for r in range(1, len(nonrep) + 1) for ss in itertools.combinations(nonrep, r)]
    failing = [idx for idx, (c, o) in enumerate(judged) if not o["prop_ok"]]
    explain = [idx for idx in failing if judged[idx][0]["mode"] == "mem" and idx not in bad_impl and res]
    trial = [case_value(0, dict(flags, **{f: True for f in ss}), judged[idx][0]["tol"], judged[idx][0]["ops"], judged[idx][1]["obs"])
             for idx in explain for ss in subsets]
    tres = vlib.model_eval("C13", trial) if trial else []
    attributed = {}
    for n, idx in enumerate(explain):
        row = tres[n * len(subsets):(n + 1) * len(subsets)]
        involved = [ss for ss, ok in zip(subsets, row) if not ok]
        if involved:
            attributed[idx] = FLAG_KEY[involved[0][0]]
    for idx in failing:
        c, o = judged[idx]
        nfail += 1
        key = attributed.get(idx, o["prop_key"])
        if idx in attributed:
            by_flag[key] = by_flag.get(key, 0) + 1
        if key in reported:
            continue
        reported.add(key)
        small = c if key in ctx.known else shrink(binary, c, o["prop_key"])
        so = vlib.run_harness(binary, [small], timeout=120)[0] if small is not c else o
        ctx.violation(key, "%s  [history: %s]" % (so.get("prop_msg") or o["prop_msg"], json.dumps(small["ops"])[:600]),
                      {"case": small, "observed": so.get("obs"), "reference": so.get("ref"), "region": o["prop_key"]})
    for c, o in zip(conc, couts):
        if not o["prop_ok"]:
            nfail += 1
            ctx.violation(o["prop_key"], o["prop_msg"] + "  [%s]" % json.dumps(c.get("threads") or c.get("ops") or c)[:600],
                          {"case": c, "observed": o.get("tobs") or o.get("obs")})
    # ---- (ii) model vs implementation / reference ----
    # a case on which the isolation predicate already failed is reported by that predicate, not as a model mismatch
    real_bad = [i for i in sorted(bad_impl) if judged[i][1]["prop_ok"]
                or not str(judged[i][1].get("prop_key", "")).startswith(("iso:", "mem:returned-answer-changed"))]
    for idx in real_bad[:3]:
        c, o = judged[idx]
        if True:
            ctx.violation("model-mismatch", "Corr/C13.check (mode 0): the MemImpl model in the probed variant %s and the real "
                          "memory.Storage disagree; the theorems of Properties/C13.v no longer speak about this code"
                          % json.dumps(flags), {"case": c, "observed": o["obs"], "reference": o["ref"]},
                          found_input=not o["prop_ok"])
    for idx in sorted(bad_ref)[:3]:
        c, o = judged[idx]
        ctx.violation("spec-mismatch", "Corr/C13.check (mode 1): the Coq Spec and the harness' reference map disagree",
                      {"case": c, "reference": o.get("ref_raw") or o["ref"]}, found_input=False)
    for idx in sorted(bad_lin)[:3]:
        ctx.violation("spec-mismatch-lin", "Corr/C13.check (mode 1): the Coq Spec rejects a linearization the harness accepted",
                      {"case": conc[idx], "observed": couts[idx].get("tobs") or couts[idx].get("obs"), "lin": couts[idx].get("lin")},
                      found_input=False)

    # ---- cross-check of the extraction inside Coq ----
    try:
        if res:
            small = [i for i, t in enumerate(terms) if len(t[3]) <= 8][:: max(1, len(terms) // 40)][:40]
            vm_bad = sorted(small[k] for k in vlib.vm_crosscheck("C13", [terms[i] for i in small]))
            ext_bad = sorted(i for i in small if not res[i])
            if vm_bad != ext_bad:
                raise vlib.Broken("extracted runner and vm_compute disagree on the C13 model", "vm=%s extracted=%s" % (vm_bad, ext_bad))
            ctx.coverage["vm_compute_crosschecked_cases"] = len(small)
    except vlib.Broken as b:
        broken = broken or b

    # ---- coverage ----
    def nontrivial(c, o):
        if c["mode"] in ("conc", "sweep", "upgrade", "torn", "incr", "listrace"):
            return o.get("overlap", 0) > 0
        kinds = {x["op"] for x in c["ops"]}
        answers = {json.dumps(x[:1]) for x in o["obs"]}
        return len(kinds) >= 3 and len(answers) >= 2
    distinct, nt = set(), set()
    for c, o in list(zip(timed, outs)) + list(zip(conc, couts)):
        h = vlib.hashlib.sha256(json.dumps(c, sort_keys=True).encode()).hexdigest()
        distinct.add(h)
        if nontrivial(c, o):
            nt.add(h)
    opcount = {}
    for c in timed:
        for x in c["ops"]:
            opcount[x["op"]] = opcount.get(x["op"], 0) + 1
    ttlcount = {}
    for c in timed:
        for x in c["ops"]:
            if "ttl" in x:
                ttlcount[str(x["ttl"])] = ttlcount.get(str(x["ttl"]), 0) + 1
    expired_reads = sum(1 for c, o in judged for x, r, q in zip(c["ops"], o["obs"], o["ref"])
                        if x["op"] in ("get", "exists", "getlist", "gethash") and q[0] in ("nf",) and c["mode"] == "mem")
    samples = []
    for i in (0, len(timed) // 2, len(timed) - 1):
        if 0 <= i < len(timed):
            samples.append({"case": timed[i], "observed": outs[i]["obs"]})
    if conc:
        samples.append({"case": conc[0], "observed": couts[0].get("tobs") or couts[0].get("obs"), "linearization": couts[0].get("lin")})
        samples.append({"case": conc[-1], "observed": couts[-1].get("tobs") or couts[-1].get("obs")})
    ctx.coverage.update({
        "evaluations": len(timed) + len(conc), "distinct_nontrivial": len(nt),
        "rule": "histories generated from VERIF_SEED by one PRNG (+ corpus and the 5 refuting histories first); distinct = distinct "
                "JSON case; non-trivial = (mem/redis) at least 3 different operations and 2 different kinds of answer, (conc) at "
                "least one pair of calls of different goroutines overlapped in time. Every judged mem case is replayed through "
                "MemImpl(probed variant) [exact answers] and the Spec [reference answers]; redis cases through the Spec; each "
                "linearization found for a concurrent case through the Spec.",
        "samples": samples,
        "input_distribution": {
            "mem_histories": sum(1 for c in timed if c["mode"] == "mem"), "redis_histories": sum(1 for c in timed if c["mode"] == "redis"),
            "value_isolation_scenarios": {bk: sum(1 for c in timed if c["mode"] == "iso" and c["backend"] == bk) for bk in ("mem", "redis", "hybrid")},
            "answers_retained_and_recompared_after_every_later_call": sum(1 for c, o in zip(timed, outs) if c["mode"] in ("iso", "mem")
                                                                          for a, b in zip(o.get("obs", []), o.get("obs_end", [])) if a and a[0] in ("v", "copy")),
            "both_backends_side_by_side": sum(1 for c in timed if c["mode"] == "both"),
            "calls_compared_between_the_two_real_backends": sum(o.get("cross", 0) for o in outs),
            "lifetime_left_histories": sum(1 for c in timed if c.get("lifetime")),
            "lifetime_left_histories_fast_forwarded_beyond_default_ttl": sum(1 for c in timed if c.get("lifetime") and c["mode"] == "redis"),
            "collection_boundary_histories": sum(1 for c in timed if c.get("boundary")),
            "histories_in_which_a_collection_becomes_empty": sum(1 for c, o in zip(timed, outs) if o.get("shape_end", -1) >= 0),
            "concurrent_cases": sum(1 for c in conc if c["mode"] == "conc"),
            "cleanup_sweep_cases": sum(1 for c in conc if c["mode"] == "sweep"),
            "cleanup_sweep_cases_write_issued_while_sweep_held_the_mutex": sum(1 for c, o in zip(conc, couts) if c["mode"] == "sweep" and o.get("overlap")),
            "concurrent_increments_of_one_existing_counter": {c["backend"]: o["obs"][0][1] for c, o in zip(conc, couts) if c["mode"] == "incr" and o.get("obs")},
            "remove_vs_append_races_on_one_list": {c["backend"]: o["obs"][0][2] for c, o in zip(conc, couts) if c["mode"] == "listrace" and o.get("obs")},
            "large_value_reader_vs_in_place_writer_cases": sum(1 for c in conc if c["mode"] == "torn"),
            "large_value_snapshots_checked_against_the_writers_invariant": sum(o["obs"][0][1] for c, o in zip(conc, couts) if c["mode"] == "torn" and o.get("obs")),
            "reader_upgrade_vs_writer_cases": sum(1 for c in conc if c["mode"] == "upgrade"),
            "reader_upgrade_vs_writer_cases_both_parked_on_the_mutex": sum(1 for c, o in zip(conc, couts) if c["mode"] == "upgrade" and o.get("overlap")),
            "reader_upgrade_vs_writer_explained_by_order": {k: sum(1 for c, o in zip(conc, couts) if c["mode"] == "upgrade" and o.get("order") == k) for k in ("rw", "wr")},
            "concurrent_cases_with_overlap": sum(1 for c, o in zip(conc, couts) if c["mode"] == "conc" and o.get("overlap", 0) > 0),
            "operations": opcount, "lifetimes_ms": ttlcount, "tick_ms": TICK,
            "reads_answered_not_found_by_reference": expired_reads,
            "malformed_stream": "type-confused histories (list/hash/counter operations on keys of another type, nil and empty values, "
                                "int64 overflow in IncrBy) are part of the mem stream: %d of the judged answers are ErrInvalidType"
                                % sum(1 for c, o in judged for q in o["ref"] if q[0] == "it"),
        },
        "timing": {"margin_ms": MARGIN, "ambiguous_cases_not_judged": ambiguous,
                   "worst_lag_ms_among_judged": round(max([o["late_ms"] for c, o in judged if c["mode"] == "mem"] or [0]), 2)},
        "probed_variant": flags, "probed_variant_is_repaired": flags == repaired,
        "model_vs_impl_cases": sum(1 for k, _ in tags if k == "impl"), "model_vs_impl_mismatches": len(bad_impl),
        "spec_vs_reference_cases": sum(1 for k, _ in tags if k != "impl"), "spec_vs_reference_mismatches": len(bad_ref) + len(bad_lin),
        "impl_property_failures": nfail, "failures_attributed_to_known_deviation": by_flag,
        "race_probe": "survived" if race_ok else ("not run" if only_cases is not None else race_msg),
        "generated_file_changed": gen_changed,
    })
    ctx.assumptions += [
        "time.Now() is monotone and never the zero time; durations are non-negative (model clock: N, advanced only by KTick)",
        "sync.RWMutex gives mutual exclusion: each critical section of memory.Storage is one atomic step (Model/KVConc.v)",
        "redis.Storage is not modelled: C13_backends_agree takes 'Redis answers like the Spec under the projection' as a "
        "hypothesis, sampled here on the real redis.Storage over miniredis (virtual clock)",
        "values are strings, int64 and nil, lists/hashes of those (what the repositories store); Go == on other dynamic types "
        "(uncomparable values panic in CompareAndSwap/RemoveFromList) is outside the model",
        "sorted-set operations (ZAdd...), QueryByPrefix, Watch and behaviour after Close are outside the property",
    ]
    if broken is not None:
        raise broken


def replay(ctx, path):
    r = json.load(open(path))
    case = r["replay"].get("case")
    if case is None:
        raise vlib.Broken("replay file has no case (finding without a failing input)", json.dumps(r)[:500])
    run(ctx, only_cases=[case])

"""C01 — packet framing round-trips however the transport chunks the bytes."""
import json
import os

import vlib

TYPES = [1, 2, 3, 0x10, 0x11, 0x20, 0x21, 0x22, 0x23, 0x24, 0, 5, 0x30, 0x3F]
JSON_TYPES = (0x10, 0x11)
LENS = [0, 0, 1, 2, 3, 4, 5, 6, 7, 255, 256, 257, 700, 1023, 1024, 1025, 2500]


def rand_body(rng, n):
    k = rng.random()
    if k < 0.08:
        # a body that is itself a complete gzip stream (a .gz file / gzip-encoded HTTP answer carried as payload), or only looks like one
        import gzip as _gz
        z = _gz.compress(bytes(rng.randrange(256) for _ in range(max(n // 2, 1))), mtime=0)
        return z if rng.random() < 0.7 else z[:max(len(z) - 3, 4)]
    if k < 0.3:
        return bytes([rng.randrange(256)]) * n
    if k < 0.5:
        return (b"tunnox-" * (n // 7 + 1))[:n]
    return bytes(rng.randrange(256) for _ in range(n))


def rand_str(rng, n):
    alpha = "abcXYZ019-_ \"\\/{}:,é中\n" + "\x1b\x07\x7f\x00\x0b\t\r<>&\u2028\U0001F600\U000E0001"
    return "".join(rng.choice(alpha) for _ in range(n))


def rand_pkt(rng, maxlen=900):
    ty = rng.choice(TYPES)
    comp = rng.random() < 0.35
    p = {"ty": ty, "compress": comp, "body": "", "rate": rng.choice([0, 0, 0, 64 << 20, 1 << 30])}
    if ty in JSON_TYPES:
        p["cmd"] = {"CommandType": rng.randrange(256), "CommandId": rand_str(rng, rng.randrange(8)),
                    "Token": rand_str(rng, rng.randrange(4)), "SenderId": rand_str(rng, rng.randrange(4)),
                    "ReceiverId": rand_str(rng, rng.randrange(4)), "CommandBody": rand_str(rng, rng.choice([0, 1, 30, 300]))}
    else:
        n = rng.choice(LENS + [rng.randrange(maxlen)])
        p["body"] = rand_body(rng, n).hex()
    return p


def cut_variants(rng, approx_len):
    """chunkings for a stream of about approx_len bytes"""
    n = max(approx_len, 1)
    return [
        [],                                   # one-shot: the transport coalesces everything
        [1] * n,                              # 1-byte reads
        [2] * (n // 2 + 1),
        [3] * (n // 3 + 1),
        [rng.choice([1, 1, 2, 3, 4, 5, 7, 64, 1000]) for _ in range(n)],
        [rng.randrange(1, 9) for _ in range(n)],
    ]


def gen_cases(ctx, n_seq, raw_per_seq):
    rng = ctx.rng
    cases = []
    for _ in range(n_seq):
        pk = [rand_pkt(rng) for _ in range(rng.choice([1, 2, 2, 3, 3, 4, 6]))]
        approx = sum(6 + len(p["body"]) // 2 + (200 if "cmd" in p else 0) for p in pk)
        for cuts in cut_variants(rng, approx):
            cases.append({"mode": "pk", "pkts": pk, "cuts": cuts})
    return cases


def ws_cases(rng, n_seq):
    """the same packet sequences delivered as WebSocket binary messages cut at arbitrary lengths to the three
    real message->stream adapters (server wsServerConn, client wsClientConn, client/transport.WebSocketStreamConn)"""
    out = []
    for _ in range(n_seq):
        pk = [rand_pkt(rng, 300) for _ in range(rng.choice([2, 3, 4]))]
        approx = sum(6 + len(p["body"]) // 2 + (200 if "cmd" in p else 0) for p in pk)
        parts = [[], [1] * approx, [rng.choice([1, 2, 3, 5, 7, 11, 64]) for _ in range(approx)],
                 [rng.randrange(2, 40) for _ in range(approx)]]
        for side in ("server", "client", "transport"):
            out.append({"mode": "ws", "side": side, "pkts": pk, "cuts": rng.choice(parts)})
    return out


def concurrent_writer_cases(rng, n):
    """two WritePacket callers on one processor; A parked before its 1st/2nd/3rd transport write, B = heartbeat or small packet"""
    out = []
    for _ in range(n):
        a = rand_pkt(rng, 200)
        while a["ty"] & 0x3F == 3:
            a = rand_pkt(rng, 200)
        b = rng.choice([{"ty": 3, "compress": False, "body": "", "rate": 0}, {"ty": 0x43, "compress": False, "body": "", "rate": 0},
                        {"ty": 0x23, "compress": False, "body": "", "rate": 0}, rand_pkt(rng, 30)])
        out.append({"mode": "cw", "pkts": [a, b], "cuts": [], "park": rng.choice([1, 2, 2, 3])})
    return out


def writer_race_cases(rng, n):
    """no parking: B writes the moment A's type byte is on the transport; A's body is large (compression / pacing takes a while)"""
    out = []
    for k in range(n):
        size = rng.choice([300 * 1024, 1 << 20, 262144, 262143, 70000])
        a = {"ty": rng.choice([0x20, 0x22, 0x01]), "compress": k % 3 != 2, "body": "", "fill": [rng.randrange(256), size], "rnd": True, "rate": 0}
        b = rng.choice([{"ty": 3, "compress": False, "body": "", "rate": 0}, {"ty": 0x21, "compress": False, "body": "0011", "rate": 0},
                        {"ty": 0x20, "compress": True, "body": "aa" * 40, "rate": 0}])
        out.append({"mode": "cw", "pkts": [a, b], "cuts": [], "park": -1, "big": True})
    return out


def eof_with_data_cases(rng, n):
    """complete and truncated streams over a transport that returns its LAST bytes together with io.EOF"""
    out = []
    for _ in range(n):
        seq = [rand_pkt(rng, 400) for _ in range(rng.choice([1, 2, 3]))]
        out.append({"mode": "pk", "pkts": seq, "cuts": rng.choice([[], [1] * 900, [7] * 200, [64] * 40, [4096]]), "eofdata": True})
    return out


def resend_cases(rng, n):
    """the caller writes ONE packet value several times with different compression choices (re-send, broadcast, relay)"""
    out = []
    for _ in range(n):
        p = rand_pkt(rng, 300)
        while p["ty"] & 0x3F == 3 or "cmd" in p:
            p = rand_pkt(rng, 300)
        seq = []
        for i in range(rng.choice([2, 3, 4])):
            q = dict(p, compress=(i % 2 == 0) if rng.random() < 0.8 else rng.random() < 0.5)
            if i:
                q["reuse"] = True
            seq.append(q)
        seq.append(rand_pkt(rng, 40))
        out.append({"mode": "pk", "pkts": seq, "cuts": rng.choice([[], [1] * 60, [3, 1, 4, 1, 5]])})
    return out


def read_available_cases(rng, n):
    """ReadAvailable called while a ReadPacket on the same processor is parked in the middle of a packet"""
    out = []
    for _ in range(n):
        p = rand_pkt(rng, 40)
        while p["ty"] & 0x3F == 3 or "cmd" in p or len(p["body"]) < 8:
            p = rand_pkt(rng, 40)
        tail = bytes(rng.randrange(256) for _ in range(rng.choice([1, 6, 20]))).hex()
        out.append({"mode": "ra", "pkts": [p], "wire": tail, "cuts": [], "park": rng.choice([2, 3, 3, 4, 5]), "big": True})
    return out


def size_class_cases(rng, n):
    """sequences of bodies in neighbouring buffer-pool size classes on ONE processor (a pooled buffer filed under the wrong class is
    handed to a later packet), plus types that already carry the 0x40 flag written with compression on"""
    out = []
    fixed = [[5000, 5000], [4096, 6000, 100, 7000], [32768, 30000, 33000], [8192, 8191, 8193, 12288, 12000], [4095, 4096, 4097, 4096]]
    for k in range(n):
        sizes = fixed[k] if k < len(fixed) else [rng.choice([4096, 8192, 16384, 32768, 65536]) + rng.choice([-4096, -1000, -1, 0, 1, 1000, 3000]) for _ in range(rng.choice([2, 3, 5]))]
        pk = [{"ty": rng.choice([0x20, 0x01, 0x22, 0x60]) & 0x3F, "compress": rng.random() < 0.3, "body": "", "fill": [rng.randrange(256), max(1, s)], "rnd": True, "rate": 0} for s in sizes]
        out.append({"mode": "pk", "pkts": pk, "cuts": rng.choice([[], [1000] * 400, [4096] * 100]), "big": True})
    for _ in range(n):
        p = rand_pkt(rng, 200)
        while p["ty"] & 0x3F == 3 or "cmd" in p:
            p = rand_pkt(rng, 200)
        out.append({"mode": "pk", "pkts": [dict(p, ty=(p["ty"] & 0x3F) | 0x40, compress=True), rand_pkt(rng, 20)], "cuts": rng.choice([[], [1] * 80]), "big": True})
    return out


def rawcmd_cases(rng, n):
    """command-type packets whose command the caller has already serialised into Payload (CommandPacket nil)"""
    out = []
    for _ in range(n):
        seq = []
        for _ in range(rng.choice([1, 2, 3])):
            p = rand_pkt(rng, 60)
            for _ in range(50):
                if "cmd" in p:
                    break
                p = rand_pkt(rng, 60)
            if "cmd" in p:
                p = dict(p, rawcmd=True)
            seq.append(p)
        seq.append(rand_pkt(rng, 30))
        out.append({"mode": "pk", "pkts": seq, "cuts": rng.choice([[], [1] * 80, [2, 3, 5, 7]])})
    return out


def duplex_cases(rng, n):
    """full-duplex use of one processor: WritePacket(A) and the ReadPackets of B1.. on the same StreamProcessor, one direction
    parked at a transport call while the other runs (compressed packets on both sides: they use the scratch buffers)"""
    out = []
    for _ in range(n):
        a = rand_pkt(rng, 600)
        while a["ty"] & 0x3F == 3:
            a = rand_pkt(rng, 600)
        a["compress"] = rng.random() < 0.8
        a["rate"] = 0
        bs = [rand_pkt(rng, 400) for _ in range(rng.choice([1, 2, 3]))]
        for b in bs:
            b["compress"] = rng.random() < 0.7
            b["rate"] = 0
        approx = sum(6 + len(p["body"]) // 2 + (200 if "cmd" in p else 0) for p in bs)
        out.append({"mode": "dx", "pkts": [a] + bs, "cuts": rng.choice(cut_variants(rng, approx)), "park": rng.choice([1, 2, 2, 3, 3, 4, 6]),
                    "pside": rng.choice(["w", "w", "r"])})
    return out


def flagged_cases(rng, n):
    """sequences in which one packet carries the (unimplemented) encryption flag 0x80 in its type byte: whether the writer refuses it or
    the reader does, the packets before it round-trip and a refusal leaves no byte on the wire (Go-side predicate only)"""
    out = []
    for _ in range(n):
        pk = [rand_pkt(rng, 200) for _ in range(rng.choice([2, 3, 4]))]
        i = rng.randrange(len(pk))
        pk[i] = dict(pk[i], ty=(pk[i]["ty"] & 0x3F) | 0x80, compress=False)
        pk[i].pop("cmd", None)
        pk[i]["body"] = pk[i].get("body") or "0102"
        out.append({"mode": "pk", "pkts": pk, "cuts": rng.choice([[], [1] * 400, [3] * 200]), "big": True})
    return out


def header_straddle_cases(rng):
    """every cut offset 0..6 relative to every packet start of a 3-packet stream"""
    out = []
    for _ in range(6):
        pk = [rand_pkt(rng, 40) for _ in range(3)]
        for off in range(0, 40):
            out.append({"mode": "pk", "pkts": pk, "cuts": [off + 1] + [rng.choice([1, 2, 5]) for _ in range(60)]})
    return out


def raw_mutations(ctx, wires, per):
    """hostile / malformed streams derived from valid wires (separate stream, see evidence.distribution)"""
    rng = ctx.rng
    out = []
    lens = [0, 1, 16777216, 16777217, 2 ** 31, 2 ** 32 - 1]
    for w in wires:
        w = bytes.fromhex(w)
        if not w:
            continue
        for _ in range(per):
            k = rng.randrange(6)
            b = bytearray(w)
            if k == 0:
                b = b[:rng.randrange(len(b))]
            elif k == 1:
                b[rng.randrange(len(b))] ^= 1 << rng.randrange(8)
            elif k == 2 and len(b) >= 5:
                b[1:5] = rng.choice(lens).to_bytes(4, "big")
            elif k == 3:
                b[0] |= rng.choice([0x40, 0x80, 0xC0])
            elif k == 4:
                b = bytes(rng.randrange(256) for _ in range(rng.randrange(1, 40)))
            else:
                i = rng.randrange(len(b))
                b = b[:i] + bytes([rng.randrange(256)]) + b[i:]
            n = max(len(b), 1)
            cuts = rng.choice([[], [1] * n, [2] * n, [rng.randrange(1, 6) for _ in range(n)]])
            c = {"mode": "raw", "wire": bytes(b).hex(), "cuts": cuts}
            if rng.random() < 0.35:
                c["eofdata"] = True   # the transport hands its last bytes over together with io.EOF
            out.append(c)
    return out


def big_cases(ctx, thorough):
    rng = ctx.rng
    sizes = [4095, 4096, 4097, 32767, 32768, 32769, 65535, 65536, 65537, 262144]
    if thorough:
        sizes += [1 << 20, 16777216 - 1, 16777216]
    out = []
    for s in sizes:
        body = rand_body(rng, s).hex()
        for comp in ([False, True] if s <= 262144 else [False]):
            pk = [{"ty": 0x22, "compress": comp, "body": body}, {"ty": 0x23, "compress": False, "body": ""},
                  {"ty": 0x20, "compress": False, "body": "0102"}]
            cuts = rng.choice([[], [1, 1, 1, 1, 1, 4096, 3], [rng.choice([1, 5, 1000, 4096, 65536]) for _ in range(50)]])
            out.append({"mode": "pk", "pkts": pk, "cuts": cuts, "big": True})
    # message transports with large packets: WritePacket hands the whole body to the transport in one Write = one WebSocket message
    for side in ("server", "client", "transport"):
        for n in ((1 << 20) + 1, (2 << 20) + 7):
            pk = [{"ty": 0x22, "compress": False, "body": "", "fill": [0x41, n]}, {"ty": 0x20, "compress": False, "body": "0102"}]
            out.append({"mode": "ws", "side": side, "pkts": pk, "cuts": rng.choice([[1, 4, n, 1, 4, 2], []]), "big": True})
    # the limit itself: bodies of exactly MaxPacketBodySize (and one less), compressed and not, built inside the harness
    for n in (16777216 - 1, 16777216):
        for comp in (False, True):
            pk = [{"ty": 0x22, "compress": comp, "body": "", "fill": [rng.choice([0, 0x41]), n]}, {"ty": 0x20, "compress": False, "body": "0102"}]
            out.append({"mode": "pk", "pkts": pk, "cuts": rng.choice([[], [1, 1, 1, 1, 1, 4096, 3]]), "big": True})
    return out


def case_value(c, o):
    """the universal value Corr/C01.dec_case expects: [pkts?, wire, cuts, defl, infl, json, obs]"""
    hb = bytes.fromhex
    pk = None
    if c["mode"] in ("pk", "ws"):
        pk = [[[p["compress"], p["ty"], hb(body)] for p, body in zip(c["pkts"], o["bodies"])]]
    if c["mode"] == "cw":
        c = dict(c, cuts=[])
    if c["mode"] == "dx":   # the outgoing direction: packet A, decoded one-shot
        pk = [[[c["pkts"][0]["compress"], c["pkts"][0]["ty"], hb(o["bodies"][0])]]]
        c = dict(c, cuts=[])
    opt = lambda x: [] if x is None else [hb(x)]
    return [pk, hb(o["wire"]), list(c["cuts"]),
            [[hb(a), hb(b)] for a, b in (o.get("defl") or [])],
            [[hb(a), opt(b)] for a, b in (o.get("infl") or [])],
            [[hb(a), opt(b)] for a, b in (o.get("json") or [])],
            [[1, x["ty"], hb(x["body"]), x["n"]] if x["ok"] else [0, max(x["n"], 0)] for x in o["obs"]],
            c["mode"] == "ws"]


def shrink(binary, case):
    """greedy: drop packets, drop cuts, shorten bodies while the Go-side predicate still fails"""
    def fails(c):
        try:
            return not vlib.run_harness(binary, [c])[0]["prop_ok"]
        except vlib.Broken:
            return True
    cur = json.loads(json.dumps(case))
    for _ in range(40):
        changed = False
        if cur["mode"] in ("cw", "dx"):
            break
        if cur["mode"] in ("pk", "ws"):
            for i in range(len(cur["pkts"])):
                if len(cur["pkts"]) > 1:
                    t = dict(cur, pkts=cur["pkts"][:i] + cur["pkts"][i + 1:])
                    if fails(t):
                        cur, changed = t, True
                        break
            for i, p in enumerate(cur["pkts"]):
                if len(p.get("body", "")) > 2 and "cmd" not in p:
                    q = dict(p, body=p["body"][:(len(p["body"]) // 4) * 2])
                    t = dict(cur, pkts=cur["pkts"][:i] + [q] + cur["pkts"][i + 1:])
                    if fails(t):
                        cur, changed = t, True
                        break
        elif len(cur["wire"]) > 2:
            t = dict(cur, wire=cur["wire"][:-2])
            if fails(t):
                cur, changed = t, True
        if len(cur["cuts"]) > 1:
            t = dict(cur, cuts=cur["cuts"][:len(cur["cuts"]) // 2])
            if fails(t):
                cur, changed = t, True
        if not changed:
            break
    return cur


def load_corpus():
    d = os.path.join(vlib.VERIF, "corpus", "C01")
    out = []
    if os.path.isdir(d):
        for f in sorted(os.listdir(d)):
            if f.endswith(".json"):
                out.append(json.load(open(os.path.join(d, f))))
    return out


def run(ctx, only_cases=None):
    thorough = ctx.tier == "thorough"
    binary = vlib.build_harness("C01")
    gen_changed = vlib.write_if_changed(os.path.join(vlib.COQ, "Gen", "C01.v"), vlib.harness_text(binary, ["gen"]))
    broken = None
    try:
        pinfo = vlib.coq_properties("C01")
        vlib.proof_coverage(ctx, pinfo, "make -C coq Properties/C01.vo && coqc Properties/C01.v (Print Assumptions audit)",
                            extra_obligations=4)  # the 4 regenerated side conditions in Proofs/SideC01.v
    except vlib.Broken as b:
        broken = b   # keep going: search the implementation for a concrete failing input first
    if only_cases is not None:
        cases = only_cases
    else:
        cases = load_corpus()
        cases += gen_cases(ctx, 3000 if thorough else 300, 0)
        cases += header_straddle_cases(ctx.rng)
        cases += ws_cases(ctx.rng, 120 if thorough else 15)
        cases += concurrent_writer_cases(ctx.rng, 200 if thorough else 24)
        cases += duplex_cases(ctx.rng, 300 if thorough else 40)
        cases += resend_cases(ctx.rng, 200 if thorough else 30)
        cases += rawcmd_cases(ctx.rng, 150 if thorough else 25)
        cases += eof_with_data_cases(ctx.rng, 150 if thorough else 25)
    outs = vlib.run_harness(binary, cases, timeout=900)
    wires = [o["wire"] for c, o in zip(cases, outs) if c["mode"] in ("pk", "ws") and o.get("wire")][:: (2 if thorough else 6)]
    raw = raw_mutations(ctx, wires, 12 if thorough else 6) if only_cases is None else []
    outs += vlib.run_harness(binary, raw, timeout=900) if raw else []
    cases += raw
    big = (big_cases(ctx, thorough) + flagged_cases(ctx.rng, 200 if thorough else 30) + writer_race_cases(ctx.rng, 60 if thorough else 9)
           + read_available_cases(ctx.rng, 120 if thorough else 16) + size_class_cases(ctx.rng, 60 if thorough else 10)) if only_cases is None else []
    bouts = vlib.run_harness(binary, big, timeout=900) if big else []

    # (iii) the property predicate evaluated on the implementation's own outputs
    nfail = 0
    for c, o in list(zip(cases, outs)) + list(zip(big, bouts)):
        if not o["prop_ok"]:
            nfail += 1
            if nfail <= 3:
                small = shrink(binary, c)
                so = vlib.run_harness(binary, [small])[0]
                kind = {"pk": "roundtrip", "ws": "roundtrip-websocket-%s" % c.get("side"), "cw": "concurrent-writers", "dx": "full-duplex"}.get(c["mode"], "chunk-independence")
                ctx.violation("%s" % kind, "real StreamProcessor: %s" % so["prop_msg"],
                              {"case": small, "observed": so["obs"], "wire": so.get("wire")})
    # a case on which the real code panicked has no observations to compare: it is reported above (prop_ok false) and left out here
    keep = [i for i, o in enumerate(outs) if not o.get("panicked")]
    cases, outs = [cases[i] for i in keep], [outs[i] for i in keep]
    # the incoming direction of every duplex case is a model case of its own (packets B1.. read under the case's chunking)
    for c, o in list(zip(cases, outs)):
        if c["mode"] == "dx" and o.get("in"):
            cases.append({"mode": "pk", "pkts": c["pkts"][1:], "cuts": c["cuts"], "derived_from": "dx"})
            outs.append(dict(o, wire=o["in"]["wire"], obs=o["in"]["obs"], bodies=o["in"]["bodies"]))
    # (ii) model vs implementation
    terms = [case_value(c, o) for c, o in zip(cases, outs)]
    mism = []
    try:
        res = vlib.model_eval("C01", terms)
        mism = [i for i, ok in enumerate(res) if not ok]
        # cross-check of the extraction: the same (small) cases inside Coq with vm_compute
        small = [i for i, c in enumerate(cases) if len(outs[i]["wire"]) < 400][:: max(1, len(cases) // 40)][:40]
        vm_bad = vlib.vm_crosscheck("C01", [terms[i] for i in small])
        vm_bad = sorted(small[k] for k in vm_bad)
        ext_bad = sorted(i for i in small if not res[i])
        if vm_bad != ext_bad:
            raise vlib.Broken("extracted runner and vm_compute disagree on the C01 model", "vm=%s extracted=%s" % (vm_bad, ext_bad))
        ctx.coverage["vm_compute_crosschecked_cases"] = len(small)
    except vlib.Broken as b:
        broken = broken or b
    for i in mism[:3]:
        if outs[i]["prop_ok"] and not ctx.violations:
            ctx.violation("model-mismatch", "Corr/C01.check_case: the Framing model and the real StreamProcessor disagree on "
                          "a case on which the Go-side round-trip/independence predicate holds; the theorems of "
                          "Properties/C01.v no longer speak about this code", {"case": cases[i], "observed": outs[i]},
                          found_input=False)
    # coverage
    distinct = set()
    nontrivial = set()
    for c, o in zip(cases, outs):
        h = vlib.hashlib.sha256((o["wire"] + "|" + ",".join(map(str, c["cuts"]))).encode()).hexdigest()
        distinct.add(h)
        oks = sum(1 for x in o["obs"] if x["ok"])
        if oks >= 1 and c["cuts"] and len(o["wire"]) > 12:
            nontrivial.add(h)
    dist = {"pk": sum(1 for c in cases if c["mode"] == "pk"), "websocket_adapter": sum(1 for c in cases if c["mode"] == "ws"), "concurrent_writers": sum(1 for c in cases if c["mode"] == "cw"), "full_duplex": sum(1 for c in cases if c["mode"] == "dx"),
            "rate_limited_packets": sum(1 for c in cases for p in c.get("pkts", []) if p.get("rate")), "raw_malformed": len(raw), "big_go_only": len(big),
            "packets_total": sum(len(c.get("pkts", [])) for c in cases),
            "compressed_packets": sum(1 for c in cases for p in c.get("pkts", []) if p["compress"]),
            "json_packets": sum(1 for c in cases for p in c.get("pkts", []) if "cmd" in p),
            "empty_body_packets": sum(1 for c in cases for p in c.get("pkts", []) if not p["body"] and "cmd" not in p),
            "raw_results_error_kinds": {}}
    for c, o in zip(cases, outs):
        if c["mode"] == "raw":
            last = o["obs"][-1]
            k = "err@%d" % min(last["n"], 6) if not last["ok"] else "ok"
            dist["raw_results_error_kinds"][k] = dist["raw_results_error_kinds"].get(k, 0) + 1
    ctx.coverage.update({
        "evaluations": len(cases) + len(big), "distinct_nontrivial": len(nontrivial),
        "rule": "packet sequences x chunkings generated from VERIF_SEED by one PRNG (+ corpus first); distinct = distinct "
                "(wire bytes, cut list); non-trivial = at least one packet decoded, a non-empty cut list and a wire longer "
                "than 6 bytes. Each case is run through the real WritePacket/ReadPacket and through the Coq model "
                "(vm_compute); big cases (>=4 KB bodies) are checked by the Go-side predicate only.",
        "samples": [{"case": cases[i], "observed": outs[i]["obs"]} for i in (0, len(cases) // 2, len(cases) - 1) if i < len(cases)],
        "model_vs_impl_cases": len(terms), "model_vs_impl_mismatches": len(mism),
        "impl_property_failures": nfail, "input_distribution": dist, "generated_file_changed": gen_changed,
    })
    ctx.assumptions += ["Go compress/gzip: inflate(deflate b) = b (hypothesis of C01_roundtrip_any_chunking; exercised by the run)",
                        "encoding/json round-trips packet.CommandPacket (exercised by the run)",
                        "io.Reader contract: a Read returns n>0 or an error (chunk oracle never returns (0,nil))",
                        "writeLock exclusion is modelled (Model/FramingLock.v) and exercised by the gated concurrent-writer cases; readLock: one ReadPacket is atomic in the model",
                        "the two directions of one processor share no scratch state (Model/FramingDuplex.v; exercised by the gated full-duplex cases)"]
    if broken is not None:
        raise broken


def replay(ctx, path):
    r = json.load(open(path))
    run(ctx, only_cases=[r["replay"]["case"]])

"""C03 — only a proven key holder is ever authenticated as a client."""
import itertools
import json
import os
import threading

import vlib

# event codes (harness/cmd/c03/main.go, Corr/C03.v)
MSG, BAN, UNBAN, BLACK, UNBLACK, EXPIRE, DELETE, RATE, CLOSE, OPEN, REKEY, REGISTER, BADJSON, DELANON, CORRUPT, RESTART, BLACKC, UNBLACKC, BANLAPSE, LAND, SETREC, WHITE, UNWHITE, BODY, OVERLAP, BANPERM, TEMPLAPSE, BLACKW, UNBLACKW, BLACKLAPSE, CLEANUP = range(31)
A, B, E = 1, 2, 3          # clients registered by the setup prefix; E's credentials are expired
UNKNOWN = 9001

KNOWN_KEYS = ("nonsuccess-reinstall", "anon-delete-keeps-credentials", "extractip-generic-addr-keeps-zone")


def msg(k, cid, new=0, key=-1, chal=0, tun=0):
    return [MSG, k, cid, new, key, chal, tun]


SETUP2 = [[REGISTER], [REGISTER], [REGISTER], [EXPIRE, E], [OPEN, 1, 0], [OPEN, 2, 1]]


def letters(k, with_tunnel):
    """the message alphabet of DESIGN.md C03 on connection k"""
    out = []
    for tun in ((0, 1) if with_tunnel else (0,)):
        out.append(msg(k, 0, new=1, tun=tun))                      # first-connect
        for x in (A, B, UNKNOWN, E):
            out.append(msg(k, x, tun=tun))                         # phase 1
        out.append(msg(k, A, key=-2, tun=tun))                     # phase 2, valid for A (latest challenge received here)
        out.append(msg(k, B, key=-2, tun=tun))                     # phase 2, valid for B
        out.append(msg(k, A, key=-2, chal=1, tun=tun))             # phase 2, A's key over challenge number 1 (stale / foreign)
        out.append(msg(k, A, key=0, tun=tun))                      # phase 2, garbage
    return out


# second world: one client with a good credential (the attacker's own) and one client per kind of unusable stored
# credential (0 "" | 1 not base64 | 2 base64, undecryptable | 3 sealed under another master key | 4 too short)
NCRED = 6
SETUP_CRED = [[REGISTER]] * NCRED + [[CORRUPT, 2 + kind, kind] for kind in range(5)] + [[OPEN, 1, 0], [OPEN, 2, 1]]
EXOTIC_KEYS = (-3, -4, -5, -6)   # HMAC keyed by "", by the stored string, by the id string, by the legacy plaintext field


def cred_letters(k):
    """phase 1 for every credential state, phase 2 naming every credential state with every kind of key"""
    out = [msg(k, x) for x in range(1, NCRED + 1)]
    for y in range(1, NCRED + 1):
        for key in (-2, 1) + EXOTIC_KEYS:      # the victim's original secret, the attacker's own secret, exotic keys
            out.append(msg(k, y, key=key))
    return out


def cred_cases(depth_one_conn, depth_two_conns):
    a1 = cred_letters(1)
    a12 = a1 + cred_letters(2)
    for d in range(1, depth_one_conn + 1):
        for seq in itertools.product(a1, repeat=d):
            yield case_of(SETUP_CRED + [list(x) for x in seq])
    for d in range(2, depth_two_conns + 1):
        for seq in itertools.product(a12, repeat=d):
            if any(x[1] == 2 for x in seq):
                yield case_of(SETUP_CRED + [list(x) for x in seq])


def record_cases(thorough):
    """the record dimensions the handshake could wrongly gate on: UserID empty / bound x ExpiresAt nil / future / past x Type.
    Client 1 gets the record state, client 2 stays an ordinary anonymous client (the attacker's own)."""
    out = []
    lets = [msg(1, 1), msg(1, 2), msg(1, 1, key=-2), msg(1, 2, key=-2), msg(1, 1, key=2)]
    depth = 3
    for uid in (0, 1):
        for exp in (0, 1, 2):
            for typ in (0, 1):
                pre = [[REGISTER], [REGISTER], [SETREC, 1, uid, exp, typ], [OPEN, 1, 0]]
                for d in range(1, depth + 1):
                    for seq in itertools.product(lets, repeat=d):
                        if d == 3 and not thorough and seq[0][2:5] != [1, 0, -1] and seq[0][2:5] != [2, 0, -1]:
                            continue        # quick: length 3 only after a phase 1
                        out.append(case_of(pre + [list(x) for x in seq], slots=(1,), addrs=(0,)))
                # the record is rewritten while a challenge is pending / after a login / across a restart
                out.append(case_of([[REGISTER], [REGISTER], [OPEN, 1, 0], msg(1, 1), [SETREC, 1, uid, exp, typ], msg(1, 1, key=-2)], slots=(1,), addrs=(0,)))
                out.append(case_of([[REGISTER], [REGISTER], [SETREC, 1, uid, exp, typ], [RESTART, 0], [OPEN, 1, 0], msg(1, 1), msg(1, 1, key=-2)], slots=(1,), addrs=(0,)))
                out.append(case_of([[REGISTER], [REGISTER], [SETREC, 1, uid, 2, typ], [SETREC, 1, uid, exp, typ], [OPEN, 1, 0], msg(1, 1), msg(1, 1, key=-2),
                                    [SETREC, 1, 1 - uid, 2, typ], msg(1, 1), msg(1, 1, key=-2)], slots=(1,), addrs=(0,)))
    return out


def reban_cases(trials):
    """expired ban record | handshake (IsBanned spawns the asynchronous removal) | re-ban | removal lands | the address must
    still be refused.  `hold` keeps the process on one P between the lapse and the landing so that the spawned goroutine
    lands after the re-ban; without hold the goroutine usually lands first (both orders are legal schedules)."""
    out = []
    for _ in range(trials):
        for hold in (1, 0):
            # re-ban by the failure recorded in the very handshake whose gate check spawned the removal
            out.append(case_of(SETUP2 + [msg(1, UNKNOWN)] * 4 + [[BANLAPSE, 0, hold], msg(1, UNKNOWN), [LAND, 0],
                                         msg(1, 0, new=1), msg(1, A), msg(2, B), msg(2, B, key=-2)]))
            # operator re-ban right after a harmless phase 1 from the address
            out.append(case_of(SETUP2 + [[BANLAPSE, 0, hold], msg(1, A), [BAN, 0], [LAND, 0], msg(1, A, key=-2), msg(1, 0, new=1),
                                         [UNBAN, 0], msg(1, A), msg(1, A, key=-2)]))
            # a ban in force is not weakened by a short one, and is not lifted by the landing
            out.append(case_of(SETUP2 + [[BAN, 0], [BANLAPSE, 0, hold], msg(1, A), [LAND, 0], msg(1, 0, new=1), [RESTART, 0], [OPEN, 1, 0], msg(1, A)]))
            # first connection as the spawning handshake, re-ban by failures of a second connection from the same address
            out.append(case_of(SETUP2[:-1] + [[OPEN, 2, 0]] + [msg(2, UNKNOWN)] * 4 + [[BANLAPSE, 0, hold], msg(1, 0, new=1, tun=1), msg(2, UNKNOWN),
                                                               [LAND, 0], msg(2, A), msg(1, 0, new=1)], addrs=(0,)))
    return out


def list_edit_cases(rng, thorough):
    """black-/whitelist ADD and REMOVE on the same key(s) in all orders, then a restart over the same storage: the persisted
    lists must equal the in-memory ones (blacklist X; whitelist X; unwhitelist X; restart -> X still refused)"""
    ip = [[BLACK, 0, 1], [UNBLACK, 0], [WHITE, 0, 0], [UNWHITE, 0, 0]]
    rg = [[BLACKC, 0, 1], [UNBLACKC, 0], [WHITE, 0, 1], [UNWHITE, 0, 1]]
    tail = [[RESTART, 0], [OPEN, 1, 0], [OPEN, 2, 1], msg(1, 0, new=1), msg(1, A), msg(2, B), msg(2, B, key=-2)]
    out = []
    for d in range(1, 5):
        for seq in itertools.product(ip, repeat=d):
            out.append(case_of(SETUP2 + [list(x) for x in seq] + tail))
    both = ip + rg
    if thorough:
        for d in range(2, 5):
            for seq in itertools.product(both, repeat=d):
                if any(x in rg for x in seq):
                    out.append(case_of(SETUP2 + [list(x) for x in seq] + tail))
    else:
        for d in (2, 3):
            for seq in itertools.product(rg, repeat=d):
                out.append(case_of(SETUP2 + [list(x) for x in seq] + tail))
        for _ in range(250):
            seq = [rng.choice(both) for _ in range(rng.choice([3, 4, 5, 6]))]
            mid = [[RESTART, 0]] if rng.random() < 0.3 else []
            k = rng.randrange(len(seq) + 1)
            out.append(case_of(SETUP2 + [list(x) for x in seq[:k]] + mid + [list(x) for x in seq[k:]] + tail))
    return out


def shape_cases():
    """the peer-address dimension: *net.TCPAddr / *net.UDPAddr / generic "host:port" / IPv4-mapped / generic-with-zone, for an IPv4,
    a global IPv6 and a zone-scoped link-local IPv6 address; the address is gated by an exact entry, a covering range, or a ban"""
    out = []
    for fam in (0, 1, 2):
        for wrap in (0, 1, 2, 3, 4):
            if wrap == 3 and fam != 0:
                continue
            for gate, ungate in (([BLACK, 0, 1], [UNBLACK, 0]), ([BLACKC, 0, 1], [UNBLACKC, 0]), ([BAN, 0], [UNBAN, 0]), ([BLACK, 0, 0], [UNBLACK, 0])):
                f = {0: fam, 1: 0}
                out.append(case_of([[REGISTER], [REGISTER], gate, [OPEN, 1, 0, wrap], [OPEN, 2, 1, 0], msg(1, 0, new=1), msg(1, 1), msg(2, 2), msg(2, 2, key=-2),
                                    ungate, msg(1, 1), msg(1, 1, key=-2)], fam=f))
                out.append(case_of([[REGISTER], [REGISTER], [OPEN, 1, 0, wrap], msg(1, 1), gate, msg(1, 1, key=-2), msg(1, 0, new=1), [RESTART, 0],
                                    [OPEN, 1, 0, wrap], msg(1, 0, new=1), msg(1, 1)], slots=(1,), addrs=(0,), fam=f))
            # failures from this shape must count against the address: five wrong ids, then a correct login is refused
            out.append(case_of([[REGISTER], [OPEN, 1, 0, wrap], [OPEN, 2, 0, 0]] + [msg(1, UNKNOWN)] * 5 + [msg(2, 1), msg(1, 0, new=1)],
                               addrs=(0,), fam={0: fam}))
    return out


def overlap_cases():
    """two connections of ONE address around the gate: a handshake passes its gate checks, the failures (or an operator ban) of the
    other connection complete, then the first handshake completes (legitimately).  The ban must be in place afterwards."""
    two = [[REGISTER], [REGISTER], [REGISTER], [EXPIRE, E], [OPEN, 1, 0], [OPEN, 2, 0]]
    after = [msg(2, 0, new=1), msg(1, A), msg(2, B), msg(1, 0, new=1, tun=1), [UNBAN, 0], msg(2, B), msg(2, B, key=-2)]
    out = []
    for nfail_before, inner in ((4, [msg(2, UNKNOWN)]), (3, [msg(2, UNKNOWN), msg(2, A, key=0)]), (4, [msg(2, B, key=0)]),
                                (0, [[BAN, 0]]), (0, [[BLACK, 0, 1]]), (2, [msg(2, UNKNOWN), [BAN, 0]])):
        pre = [msg(2, UNKNOWN)] * nfail_before
        # the overlapped handshake is a valid phase 2 / a first connection / a valid phase 2 with connection_type tunnel / a wrong response
        for first, over in (([msg(1, A)], msg(1, A, key=-2)), ([], msg(1, 0, new=1)), ([msg(1, A, tun=1)], msg(1, A, key=-2, tun=1)),
                            ([msg(1, A)], msg(1, A, key=0))):
            out.append(case_of(two + first + pre + [[OVERLAP, len(inner)], over] + [list(x) for x in inner] + after, addrs=(0,)))
    # already banned when it starts: the gate refuses it, the other ops simply follow
    out.append(case_of(two + [msg(1, A), [BAN, 0], [OVERLAP, 1], msg(1, A, key=-2), msg(2, UNKNOWN)] + after, addrs=(0,)))
    # connections of two different addresses: the ban of one does not concern the other
    out.append(case_of(SETUP2 + [msg(1, A)] + [msg(2, UNKNOWN)] * 4 + [[OVERLAP, 1], msg(1, A, key=-2), msg(2, UNKNOWN), msg(2, B), msg(1, A), msg(1, A, key=-2)]))
    return out


def nest(inflight, core):
    """inflight = handshake ops that pass their gate checks in this order; core = ops completing while all of them are in flight;
    the in-flight handshakes then complete in REVERSE order of their start (innermost first)"""
    ops = list(core)
    for m in reversed(inflight):
        ops = [[OVERLAP, len(ops)], m] + ops
    return ops


def covering_entry_cases():
    """an address covered by several blacklist entries with different deadlines: an exact entry, its /32 (/128) range, the wider
    /31 (/127) range.  One lapses (the expired record stays in the table), another is permanent: refused by EVERY handshake kind;
    quiet=1 makes the handshake the first lookup after the expiry."""
    add = {0: lambda p: [BLACK, 0, p], 1: lambda p: [BLACKC, 0, p], 2: lambda p: [BLACKW, 0, p]}
    rem = {0: [UNBLACK, 0], 1: [UNBLACKC, 0], 2: [UNBLACKW, 0]}
    out = []
    for fam in (0, 2):
        for lapsed in (0, 1, 2):
            for keep in (0, 1, 2):
                if keep == lapsed:
                    continue
                for quiet in (1, 0):
                    for shake in (msg(1, 0, new=1), msg(1, A), msg(1, A, key=-2), msg(1, B, key=0), msg(1, 0, new=1, tun=1)):
                        out.append(case_of(SETUP2 + [msg(1, A), add[keep](1), add[lapsed](0), [BLACKLAPSE, 0, lapsed, quiet], shake, msg(1, 0, new=1), msg(2, B), msg(2, B, key=-2),
                                                     rem[keep], msg(1, A), msg(1, A, key=-2)], fam={0: fam, 1: 0}))
                # both lapse: the address is free again; across a restart the permanent one still holds
                out.append(case_of(SETUP2 + [add[keep](0), add[lapsed](0), [BLACKLAPSE, 0, lapsed, 1], [BLACKLAPSE, 0, keep, 1], msg(1, A), msg(1, A, key=-2)], fam={0: fam, 1: 0}))
                out.append(case_of(SETUP2 + [add[keep](1), add[lapsed](1), [BLACKLAPSE, 0, lapsed, 1], [RESTART, 0], [OPEN, 1, 0], [OPEN, 2, 1], msg(1, 0, new=1), msg(2, B)], fam={0: fam, 1: 0}))
    return out


def perm_ban_cases():
    """a PERMANENT ban (operator BanIP(ip,0), or PermanentBanAt failures) followed by failures of handshakes that were already past the
    gate (temporary-ban requests), a RecordSuccess in between, the end of the temporary period: refused for ever"""
    n = 7
    many = [[REGISTER], [REGISTER], [REGISTER], [EXPIRE, E]] + [[OPEN, k, 0] for k in range(1, n + 1)]
    slots = tuple(range(1, n + 1))
    after = [[TEMPLAPSE, 0], msg(1, 0, new=1), msg(2, A), msg(3, B), [BAN, 0], [TEMPLAPSE, 0], msg(1, 0, new=1), [UNBAN, 0], msg(2, A), msg(2, A, key=-2)]
    out = []
    fails5 = [msg(k, UNKNOWN) for k in range(1, 6)]
    # operator permanent ban while five failing handshakes are in flight
    out.append(case_of(many + nest(fails5, [[BANPERM, 0]]) + after, slots=slots, addrs=(0,)))
    out.append(case_of(many + [msg(1, UNKNOWN)] * 4 + nest([msg(2, UNKNOWN)], [[BANPERM, 0]]) + after, slots=slots, addrs=(0,)))
    out.append(case_of(many + [msg(1, UNKNOWN)] * 4 + nest([msg(2, B, key=0)], [[BANPERM, 0], [BAN, 0]]) + after, slots=slots, addrs=(0,)))
    # PermanentBanAt failures (unbanned by the operator in between), then an in-flight success wipes the counters and five more
    # in-flight failures ask for a temporary ban
    reach = [msg(1, UNKNOWN)] * 5
    for _ in range(14):
        reach += [[UNBAN, 0], msg(1, UNKNOWN)]
    reach += [[UNBAN, 0]]                                   # 19 failures, not banned
    out.append(case_of(many + [msg(7, A)] + reach + nest([msg(k, UNKNOWN) for k in range(2, 7)] + [msg(7, A, key=-2)], [msg(1, UNKNOWN)]) + after,
                       slots=slots, addrs=(0,)))
    out.append(case_of(many + reach + [msg(1, UNKNOWN)] + after, slots=slots, addrs=(0,)))
    # the periodic cleanup after the configured BanDuration: an operator ban that is longer, an automatic one, a permanent one
    out.append(case_of(SETUP2 + [msg(1, A), [BAN, 0], [CLEANUP, 0], msg(1, A, key=-2), msg(1, 0, new=1), msg(1, A), msg(2, B), msg(2, B, key=-2),
                                 [CLEANUP, 0], msg(1, 0, new=1), [TEMPLAPSE, 0], [CLEANUP, 0], msg(1, A), msg(1, A, key=-2)]))
    out.append(case_of(SETUP2 + [msg(1, UNKNOWN)] * 5 + [[CLEANUP, 0], msg(1, 0, new=1), [BAN, 0], [CLEANUP, 0], msg(1, A), [UNBAN, 0], [CLEANUP, 0], msg(1, A)]))
    out.append(case_of(SETUP2 + [[BANPERM, 0], [CLEANUP, 0], msg(1, 0, new=1), [BAN, 1], [CLEANUP, 1], [CLEANUP, 0], msg(2, B), [RESTART, 0], [OPEN, 2, 1], msg(2, B)]))
    # plain histories: permanent survives the end of temporary periods, a later temporary BanIP, short bans; a temporary one does not
    out.append(case_of(SETUP2 + [[BANPERM, 0], [BAN, 0], [TEMPLAPSE, 0], [BANLAPSE, 0, 0], [LAND, 0], msg(1, 0, new=1), msg(1, A), [RESTART, 0], [OPEN, 1, 0], msg(1, A)]))
    out.append(case_of(SETUP2 + [[BAN, 0], msg(1, A), [TEMPLAPSE, 0], msg(1, A), msg(1, A, key=-2), [BAN, 0], [BANPERM, 0], [TEMPLAPSE, 0], msg(1, A)]))
    return out


def v6_list_cases():
    """IPv6 entry shapes in both lists: a whitelisted single host (exact entry or /128) and a blacklisted peer (exact, /128, /127) that
    shares 32 / 48 / 64 / 96+ bits with it.  Oracle: a blacklisted address that is not ITSELF whitelisted is never authenticated; the
    whitelisted host is served even when blacklisted."""
    out = []
    black = {0: ([BLACK, 1, 1], [UNBLACK, 1]), 1: ([BLACKC, 1, 1], [UNBLACKC, 1]), 2: ([BLACKW, 1, 1], [UNBLACKW, 1])}
    for peer_fam in (1, 3, 4, 5, 0):
        host_fam = 0 if peer_fam == 0 else 1
        f = {0: host_fam, 1: peer_fam}
        for wc in (0, 1):
            for bk in (0, 1, 2):
                add, rem = black[bk]
                for order in (0, 1):
                    lists = [[WHITE, 0, wc], add] if order == 0 else [add, [WHITE, 0, wc]]
                    out.append(case_of(SETUP2 + lists + [[BLACK, 0, 1], msg(2, 0, new=1), msg(2, B), msg(1, A), msg(1, A, key=-2), msg(1, 0, new=1, tun=1),
                                                         [UNWHITE, 0, wc], msg(1, B), msg(2, B), rem, msg(2, B), msg(2, B, key=-2)], fam=f))
                out.append(case_of(SETUP2 + [add, [WHITE, 0, wc], [RESTART, 0], [OPEN, 1, 0], [OPEN, 2, 1, 1], msg(2, 0, new=1), msg(2, B), msg(1, A), msg(1, A, key=-2)], fam=f))
    return out


NEAR_MISSES = tuple(-10 - shape for shape in range(1, 26))


def near_miss_cases():
    """phase-2 responses that are near misses of the CORRECT response: every proper prefix length class (1, 2, 8, 32, 63 of 64 hex
    characters; 0 = no response = phase 1 is in the alphabet anyway), the 16 one-character guesses, correct+suffix, doubled, upper
    case, first character dropped.  Oracle: only the exact correct response authenticates."""
    out = []
    for key in NEAR_MISSES:
        # same-id flow, cross-id flow (challenge obtained for B, response a near miss of A's), on an authenticated connection
        out.append(case_of(SETUP2 + [msg(1, A), msg(1, A, key=key), msg(1, A), msg(1, A, key=-2)]))
        out.append(case_of(SETUP2 + [msg(1, B), msg(1, A, key=key), msg(2, A), msg(2, A, key=key, tun=1), msg(2, A, key=-2)]))
    for key in (-11, -15, -16, -18):
        out.append(case_of(SETUP2 + [msg(1, B), msg(1, B, key=-2), msg(1, A), msg(1, A, key=key), msg(1, B), msg(2, A), msg(2, A, key=-2)]))
    return out


def restart_cases():
    """blacklist entries of every form (exact IP / CIDR, 1 h / permanent) must still gate after a restart over the same
    storage; lapsed short-lived entries must not come back; bans and failure counts are in memory only"""
    out = []
    login_a = [msg(1, A), msg(1, A, key=-2)]
    after = [[OPEN, 1, 0], [OPEN, 2, 1], msg(1, A), msg(1, A, key=-2), msg(1, 0, new=1), msg(1, E), msg(2, B), msg(2, B, key=-2)]
    for add, rem in (([BLACK, 0, 0], [UNBLACK, 0]), ([BLACK, 0, 1], [UNBLACK, 0]), ([BLACKC, 0, 0], [UNBLACKC, 0]), ([BLACKC, 0, 1], [UNBLACKC, 0])):
        for lapsed in (0, 1, 2):
            for pre in ([], login_a):
                out.append(case_of(SETUP2 + pre + [add, [RESTART, lapsed]] + after + [rem, msg(1, A), msg(1, A, key=-2)]))
        out.append(case_of(SETUP2 + [add, rem, [RESTART, 0]] + after))
        out.append(case_of(SETUP2 + [add, [RESTART, 0], [RESTART, 0]] + after))
    # both forms at once, one removed; a ban and failures before the restart; credential state changes before the restart
    out.append(case_of(SETUP2 + [[BLACK, 0, 1], [BLACKC, 0, 1], [UNBLACK, 0], [RESTART, 0]] + after))
    out.append(case_of(SETUP2 + [[BLACK, 1, 1], [BAN, 0], msg(2, A), [RESTART, 0]] + after))
    out.append(case_of(SETUP2 + [msg(1, A), msg(1, A, key=0), msg(1, A), msg(1, A, key=0), [RESTART, 0]] + after))
    out.append(case_of(SETUP2 + [[CORRUPT, A, 0], [DELETE, B], [REKEY, E], [RESTART, 1]] + after))
    out.append(case_of(SETUP2 + login_a + [msg(2, B), [RESTART, 0], msg(2, B, key=-2), msg(1, A, key=-2)] + after))
    return out


def case_of(ops, slots=(1, 2), addrs=(0, 1), fam=None):
    c = {"slots": list(slots), "addrs": list(addrs), "ops": ops}
    if fam:
        c["fam"] = {str(k): v for k, v in fam.items()}
    return c


PROBE_GATE = case_of(SETUP2 + [msg(1, A), msg(1, A, key=-2), msg(2, A, tun=1), msg(2, A, key=-2, tun=1), msg(2, B)])
PROBE_ANON = case_of([[REGISTER], [OPEN, 1, 0], [DELANON, 1], msg(1, 1)], slots=(1,), addrs=(0,))
PROBE_KEEP = case_of([[REGISTER], [OPEN, 1, 0], msg(1, UNKNOWN), msg(1, 0, new=1)], slots=(1,), addrs=(0,))


def exhaustive_cases(depth_full, depth_ctl):
    alpha_full = letters(1, True) + letters(2, True)
    alpha_ctl = letters(1, False) + letters(2, False)
    seen = set()
    for d in range(1, depth_full + 1):
        for seq in itertools.product(alpha_full, repeat=d):
            yield case_of(SETUP2 + [list(x) for x in seq])
    for d in range(depth_full + 1, depth_ctl + 1):
        for seq in itertools.product(alpha_ctl, repeat=d):
            yield case_of(SETUP2 + [list(x) for x in seq])


def random_case(rng, nconn=3, naddr=2, length=None):
    """mostly-valid flows (phase 1 then a response to it) interleaved with administrative events and noise"""
    ops = [[REGISTER], [REGISTER], [REGISTER], [EXPIRE, E]]
    addr_of = {k: rng.randrange(naddr) for k in range(1, nconn + 1)}
    fam = {a: rng.choice([0, 0, 1, 2, 1, 3, 4, 5]) for a in range(naddr)}
    shape = lambda a: rng.choice([0, 1, 2, 3] if fam[a] == 0 else [0, 1, 2])
    for k in range(1, nconn + 1):
        ops.append([OPEN, k, addr_of[k], shape(addr_of[k])])
    n = length or rng.choice([5, 8, 10, 12, 14, 16])
    ncli = 3
    gone = set()
    first_connects = 0
    for _ in range(n):
        r = rng.random()
        k = rng.randrange(1, nconn + 1)
        tun = 1 if rng.random() < 0.2 else (2 if rng.random() < 0.1 else 0)
        live = [x for x in range(1, ncli + 1)]
        if r < 0.22:
            x = rng.choice(live + [UNKNOWN, 0, ncli + 2])
            ops.append(msg(k, x, new=rng.choice([0, 0, 0, 1]), tun=tun))
        elif r < 0.50:
            x = rng.choice(live)
            kind = rng.random()
            if kind < 0.6:
                ops.append(msg(k, x, key=-2, tun=tun))                                    # valid for x over the latest challenge
            elif kind < 0.75:
                ops.append(msg(k, x, key=rng.randrange(1, ncli + 2), chal=0, tun=tun))    # somebody's key
            elif kind < 0.9:
                ops.append(msg(k, x, key=-2, chal=rng.randrange(1, 6), tun=tun))          # some (stale / foreign / future) challenge
            else:
                ops.append(msg(k, x, key=rng.choice((0,) + EXOTIC_KEYS + NEAR_MISSES[:8]), tun=tun))
        elif r < 0.60 and first_connects < 8:
            first_connects += 1
            ncli += 1
            ops.append(msg(k, 0, new=rng.choice([1, 1, 2]), key=rng.choice([-1, -1, 0]), tun=tun))
        elif r < 0.64:
            ops.append(msg(k, 0, new=0, key=rng.choice([-1, 0]), tun=tun))
        elif r < 0.70:
            c = rng.choice([BAN, BLACK, BLACK, BLACKC])
            ops.append([c, rng.randrange(naddr)] + ([rng.randrange(2)] if c != BAN else []))
        elif r < 0.75:
            ops.append([rng.choice([UNBAN, UNBLACK, UNBLACKC]), rng.randrange(naddr)])
        elif r < 0.76:
            ops.append([RESTART, rng.choice([0, 0, 0, 1, 2])])
            for kk in range(1, nconn + 1):
                if rng.random() < 0.8:
                    a = rng.randrange(naddr)
                    ops.append([OPEN, kk, a, shape(a)])
        elif r < 0.78:
            x = rng.choice(live)
            if x not in gone:
                ops.append([EXPIRE, x])
        elif r < 0.795:
            x = rng.choice(live)
            if x not in gone:
                ops.append([SETREC, x, rng.randrange(3), rng.randrange(3), rng.randrange(2)])
        elif r < 0.80:
            a = rng.randrange(naddr)
            ops.append([BANLAPSE, a, 0])
            if rng.random() < 0.5:
                ops.append([LAND, a])
        elif r < 0.83:
            x = rng.choice(live)
            if x not in gone:
                ops.append([DELETE, x])
                gone.add(x)
        elif r < 0.86:
            x = rng.choice(live)
            if x not in gone:
                ops.append([DELANON, x])
                gone.add(x)
        elif r < 0.88:
            x = rng.choice(live)
            if x not in gone:
                ops.append([REKEY, x])
        elif r < 0.90:
            x = rng.choice(live)
            if x not in gone:
                ops.append([CORRUPT, x, rng.randrange(5)])
        elif r < 0.92:
            ops.append([RATE, rng.randrange(2)])
        elif r < 0.95:
            ops.append([CLOSE, k])
        elif r < 0.97:
            a = rng.randrange(naddr)
            ops.append([OPEN, k, a, shape(a)])
        elif r < 0.975:
            ops.append([rng.choice([WHITE, UNWHITE]), rng.randrange(naddr), rng.randrange(2)])
        elif r < 0.98:
            c = rng.choice([BANPERM, TEMPLAPSE, BLACKW, UNBLACKW, BLACKLAPSE, CLEANUP, CLEANUP])
            ops.append([c, rng.randrange(naddr)] + ([rng.randrange(2)] if c == BLACKW else [rng.randrange(3), 0] if c == BLACKLAPSE else []))
        else:
            ops.append([BADJSON, k])
    # a first connection after the server lost count is not generated: ncli tracks only an upper bound, and the harness
    # resolves indices against the clients that really exist
    return case_of(ops, slots=tuple(range(1, nconn + 1)), addrs=tuple(range(naddr)), fam=fam)


def lockout_case(rng):
    """enough consecutive bad responses to cross MaxFailures, then a valid attempt, unban, retry"""
    ops = list(SETUP2)
    k = 1
    for _ in range(rng.choice([4, 5, 6])):
        ops.append(msg(k, A))
        ops.append(msg(k, A, key=0))
    ops += [msg(k, A), msg(k, A, key=-2), [UNBAN, 0], msg(k, A), msg(k, A, key=-2), msg(k, A, key=0), msg(2, B), msg(2, B, key=-2)]
    if rng.random() < 0.5:
        ops.insert(8, msg(k, 0, new=1))
    return case_of(ops)


def run_parallel(binary, cases, par=8, timeout=1500):
    if len(cases) < 400:
        return vlib.run_harness(binary, cases, timeout=timeout)
    chunks = [cases[i::par] for i in range(par)]
    res = [None] * par
    errs = []

    def work(i):
        try:
            res[i] = vlib.run_harness(binary, chunks[i], timeout=timeout)
        except vlib.Broken as b:
            errs.append(b)
    ths = [threading.Thread(target=work, args=(i,)) for i in range(par)]
    [t.start() for t in ths]
    [t.join() for t in ths]
    if errs:
        raise errs[0]
    out = [None] * len(cases)
    for i in range(par):
        for j, o in enumerate(res[i]):
            out[i + j * par] = o
    return out


def enc_ev(op, st):
    c = op[0]
    if c == MSG:
        _, k, cid, new, key, chal, tun = op
        r = st.get("r", [0, 0])
        return [0, k, cid, 1 if new in (1, 2) else 0, 0 if key == -1 else 1, r[0], r[1], 1 if tun == 1 else 0]
    if c == RATE:
        return [RATE, op[1]]
    if c == REGISTER:
        return [REGISTER]
    if c == OPEN:
        return [OPEN, op[1], op[2] + 50 * st.get("ea", 0)]     # a peer whose zone survives extractIP is another address for every gate
    if c in (WHITE, UNWHITE, BLACKLAPSE):
        return [c, op[1], op[2]]
    if c in (BANPERM, TEMPLAPSE, BLACKW, UNBLACKW, CLEANUP):
        return [c, op[1]]
    if c == BLACK:
        return [BLACK, op[1]]
    if c in (BLACKC, UNBLACKC, RESTART, BANLAPSE, LAND):
        return [c, op[1]]
    if c == SETREC:
        return [SETREC, op[1], 1 if op[3] == 2 else 0, op[2] * 2 + op[4]]
    if c == CORRUPT:
        return [CORRUPT, op[1], 1 if op[2] == 0 else 0]
    return [c, op[1]]


def case_value(case, out, variant):
    """events and observations in the order in which their effects took place: an overlapped handshake that passed its gate
    checks first (h=1) completes AFTER the ops that ran in between -> model events: inner ops..., EBody (nesting allowed)"""
    ops, steps = case["ops"], out["steps"]
    inflight = {}     # op index -> [(slot, connection observation before the overlap)]

    def lin(lo, hi):
        seq = []
        i = lo
        while i < hi:
            if ops[i][0] == OVERLAP:
                a, ilo, ihi = i + 1, i + 2, min(i + 2 + ops[i][1], hi)
                if steps[a].get("h"):
                    # the session layer registers the (unauthenticated) ControlConnection of an in-flight handshake when it begins; the
                    # model does so when it completes (EBody).  While the overlapping ops run, that one flag is taken as it was.
                    if ops[a][1] in case["slots"]:
                        slot = case["slots"].index(ops[a][1])
                        for j in range(ilo, ihi):
                            inflight.setdefault(j, []).append((slot, steps[i]["c"][slot]))
                    seq += lin(ilo, ihi) + [(a, True)]
                else:
                    seq += [(a, False)] + lin(ilo, ihi)
                i = ihi
            else:
                seq.append((i, False))
                i += 1
        return seq

    evs, obs = [], []
    for j, body in lin(0, len(ops)):
        e = enc_ev(ops[j], steps[j])
        if body:
            e = [BODY] + e[1:]
        evs.append(e)
        s = steps[j]
        cs = [list(c) for c in s["c"]]
        for slot, before in inflight.get(j, []):
            if before[1] == 0 and cs[slot][1:] == [1, 0, 0, 0]:
                cs[slot] = list(before)
        obs.append([s["o"][0], s["o"][1], s["o"][2], cs, s["i"], s["b"], s["k"], s["f"], s["n"]])
    return [list(variant), case["slots"], case["addrs"], evs, obs]


def shrink(binary, case, key):
    def fails(c):
        try:
            o = vlib.run_harness(binary, [c])[0]
            return any(v["kind"] == key for v in (o["viol"] or []))
        except vlib.Broken:
            return False
    cur = json.loads(json.dumps(case))
    nset = 0
    for _ in range(60):
        changed = False
        for i in range(len(cur["ops"]) - 1, nset - 1, -1):
            if cur["ops"][i][0] in (REGISTER, OPEN, CORRUPT, BANLAPSE, LAND, OVERLAP) or (i > 0 and cur["ops"][i - 1][0] == OVERLAP):
                continue
            t = dict(cur, ops=cur["ops"][:i] + cur["ops"][i + 1:])
            if fails(t):
                cur, changed = t, True
                break
        if not changed:
            break
    return cur


def load_corpus():
    d = os.path.join(vlib.VERIF, "corpus", "C03")
    out = []
    if os.path.isdir(d):
        for f in sorted(os.listdir(d)):
            if f.endswith(".json"):
                out.append(json.load(open(os.path.join(d, f)))["case"])
    return out


def detect_variant(binary):
    og, oa, ok = vlib.run_harness(binary, [PROBE_GATE, PROBE_ANON, PROBE_KEEP])
    gate = 0 if og["steps"][-1]["i"][0] == 2 else 1      # did the non-success phase 1 install connection 2 for client A?
    anon = 0 if oa["steps"][-1]["o"][1] == 3 else 1      # is a challenge still issued for the deleted client?
    # does a first connection leave the address's failure record alone (fixes/C18-anon-registration-keeps-failures.diff)?
    keep = 1 if ok["steps"][-1]["f"][0] == 1 else 0
    # the ban table never weakens a ban (fixes/C18-ban-never-weakened.diff, applied): the model is always the monotone one, so a
    # tree that overwrites a permanent ban shows up as a predicate violation AND a model mismatch
    return [gate, anon, keep, 1]


def run(ctx, only_cases=None):
    thorough = ctx.tier == "thorough"
    binary = vlib.build_harness("C03")
    gen_changed = vlib.write_if_changed(os.path.join(vlib.COQ, "Gen", "C03.v"), vlib.harness_text(binary, ["gen"]))
    broken = None
    try:
        pinfo = vlib.coq_properties("C03")
        vlib.proof_coverage(ctx, pinfo, "make -C coq Properties/C03.vo && coqc Properties/C03.v (Print Assumptions audit)",
                            extra_obligations=4)   # the regenerated side conditions in Proofs/SideC03.v
    except vlib.Broken as b:
        broken = b
    variant = detect_variant(binary)
    rng = ctx.rng
    exhaustive = False
    if only_cases is not None:
        cases = only_cases
        n_ex = 0
    else:
        cases = load_corpus()
        if thorough:
            ex = list(exhaustive_cases(3, 4)) + list(cred_cases(3, 2))
            exhaustive = True
        else:
            cl1 = cred_letters(1)
            cred = list(cred_cases(2, 0)) + [case_of(SETUP_CRED + [list(rng.choice(cl1)) for _ in range(3)]) for _ in range(800)]
            ex = cred + list(exhaustive_cases(2, 2))
            full3 = letters(1, True) + letters(2, True)
            ex += [case_of(SETUP2 + [list(rng.choice(full3)) for _ in range(rng.choice([3, 4, 4, 5]))]) for _ in range(2500)]
        n_ex = len(ex)
        cases += ex
        cases += [random_case(rng) for _ in range(20000 if thorough else 2500)]
        cases += [lockout_case(rng) for _ in range(40 if thorough else 10)]
        cases += restart_cases()
        cases += record_cases(thorough)
        cases += list_edit_cases(rng, thorough)
        cases += shape_cases()
        cases += overlap_cases()
        cases += covering_entry_cases()
        cases += near_miss_cases()
        # concurrent phase 1 on 16 connections + concurrent GenerateChallenge: all challenges pairwise distinct (Go-side predicate only)
        cases += [{"race": [16, 16 if thorough else 8], "slots": [], "addrs": [], "ops": []} for _ in range(8 if thorough else 4)]
        cases += v6_list_cases()
        cases += perm_ban_cases()
        cases += reban_cases(12 if thorough else 4)
    outs = run_parallel(binary, cases)

    # (iii) the property predicate, evaluated by the harness' specification monitor on the real code's state and outputs
    nfail = 0
    reported = {}
    for c, o in zip(cases, outs):
        for v in (o["viol"] or []):
            k = v["kind"]
            if k in reported:
                reported[k][1] += 1
                continue
            reported[k] = [c, 1, v]
    for k, (c, n, v) in sorted(reported.items()):
        small = shrink(binary, c, k) if k not in ctx.known else c
        so = vlib.run_harness(binary, [small])[0]
        vv = [x for x in (so["viol"] or []) if x["kind"] == k] or [v]
        if k not in KNOWN_KEYS or k not in ctx.known:
            nfail += 1
        ctx.violation(k, "real ServerAuthHandler+SessionManager: %s (event %d of the history; %d histories of this run)"
                      % (vv[0]["msg"], vv[0]["step"], n), {"case": small, "observed": so["steps"], "violations": so["viol"]})

    # (ii) model vs implementation
    terms = [case_value(c, o, variant) for c, o in zip(cases, outs)]
    mism = []
    try:
        res = vlib.model_eval("C03", terms)
        mism = [i for i, ok in enumerate(res) if not ok]
        small = list(range(0, len(cases), max(1, len(cases) // 30)))[:30]
        vm_bad = sorted(small[j] for j in vlib.vm_crosscheck("C03", [terms[i] for i in small]))
        ext_bad = sorted(i for i in small if not res[i])
        if vm_bad != ext_bad:
            raise vlib.Broken("extracted runner and vm_compute disagree on the C03 model", "vm=%s extracted=%s" % (vm_bad, ext_bad))
        ctx.coverage["vm_compute_crosschecked_cases"] = len(small)
    except vlib.Broken as b:
        broken = broken or b
    if mism and not ctx.violations:
        i = mism[0]
        _, pred = vlib.model_eval("C03", [terms[i]], predict=True)
        ctx.violation("model-mismatch", "Corr/C03.check: the Auth model and the real ServerAuthHandler+SessionManager disagree on a "
                      "history on which the Go-side predicate holds; the theorems of Properties/C03.v no longer speak about this code",
                      {"case": cases[i], "observed": outs[i]["steps"], "model_predicts": pred[0], "variant": variant}, found_input=False)

    # coverage
    distinct, nontrivial = set(), set()
    succ = chal = 0
    for c, o in zip(cases, outs):
        h = json.dumps(c["ops"])
        distinct.add(h)
        succ += o["successes"]
        chal += o["issued"]
        if o["successes"] >= 1 or o["issued"] >= 1:
            nontrivial.add(h)
    kinds = {}
    for c in cases:
        for op in c["ops"]:
            kinds[op[0]] = kinds.get(op[0], 0) + 1
    names = ["msg", "ban", "unban", "blacklist", "unblacklist", "expire", "delete", "rate", "close", "open", "rekey", "register", "badjson", "delete_anonymous", "corrupt_stored_credential", "restart", "blacklist_cidr", "unblacklist_cidr", "ban_lapse", "async_unban_lands", "set_record", "whitelist", "unwhitelist", "body", "overlap", "ban_permanent", "temporary_period_over", "blacklist_wide", "unblacklist_wide", "blacklist_entry_lapses", "cleanup_tick"]
    ctx.coverage.update({
        "evaluations": len(cases), "distinct_nontrivial": len(nontrivial),
        "exhaustive": bool(exhaustive),
        "rule": "histories = setup (3 registered clients, one expired, connections opened) + handshake messages / administrative events. "
                "thorough: ALL message sequences of length <=3 over the 36-letter alphabet {first-connect, phase-1(A|B|unknown|expired), "
                "phase-2(valid A|valid B|stale|garbage)} x {control,tunnel} x 2 connections and ALL sequences of length 4 over the 18 "
                "control-type letters; quick: all of length <=2 + a random sample of length 3-5; plus seeded random histories of 5-16 "
                "second world (credential states): 1 client with a usable credential + 5 clients whose stored credential is empty / not base64 / "
                "undecryptable / sealed under another master key / too short; letters = phase-1 for each of the 6, phase-2 naming each of the 6 with "
                "HMAC keyed by its original secret | the attacker's secret | \"\" | the stored string | the id string | the legacy plaintext field: "
                "ALL sequences of length <=2 on one connection in quick (every phase-1-for-X / phase-2-for-Y pair of credential states), length <=3 "
                "and all 2-connection sequences of length 2 in thorough. Random part: seeded histories of 5-16 "
                "events on 3 connections sharing 2 addresses with ban/blacklist/expire/delete/rekey/rate/close/reopen events and lockout "
                "scenarios. distinct = distinct event lists; non-trivial = at least one challenge issued or one Success response by the real server.",
        "samples": [{"case": cases[i], "observed": outs[i]["steps"][-1]} for i in (0, len(cases) // 2, len(cases) - 1) if i < len(cases)],
        "model_vs_impl_cases": len(terms), "model_vs_impl_mismatches": len(mism),
        "impl_property_failures": nfail, "tree_variant": {"success_gate": variant[0], "anon_delete": variant[1], "first_connection_keeps_failures": variant[2], "ban_monotone": variant[3]},
        "input_distribution": {"enumerated_or_sampled_alphabet_histories": n_ex, "events_by_kind": {names[k]: v for k, v in sorted(kinds.items())},
                               "success_responses": succ, "challenges_issued": chal, "distinct_histories": len(distinct)},
        "generated_file_changed": gen_changed,
    })
    ctx.assumptions += [
        "HMAC-SHA256 and AES-GCM are not modelled: a 'correct response' is literally resp = hmac(secret, challenge) (Section function, no assumption); "
        "unforgeability, nonce unpredictability and constant-time comparison are not carried",
        "client ids, secrets and challenges are abstracted to their order of creation; the harness checks equal numbers <=> equal strings on every history",
        "time is not modelled: expiry, unban and un-blacklisting are explicit events; the IP whitelist is empty; GenerateAnonymousCredentials / "
        "GenerateChallenge / storage do not fail; fewer than 5000 control connections",
        "a ControlConnection object is identified with its connection id while registered (harness compares object identity)",
        "the asynchronous unbanIfExpired goroutine is steered with GOMAXPROCS(1) between the lapse and the landing (no hook in /repo): the order "
        "'re-ban before landing' is then the usual but not a guaranteed schedule; both orders are legal and the model (landing = no-op) covers both",
        "overlapping handshakes: the model has EMsg (gates + body, atomic) and EBody (body of a handshake that passed the gates earlier); the real overlap is "
        "produced with a hook in CloudControlAPI.GetClientConfig / GenerateAnonymousCredentials of a wrapper around the real cloud control handed to the real "
        "ServerAuthHandler (the lookups the handler makes right after the gate checks); finer interleavings inside the body are not modelled",
        "restart = every server component rebuilt over the same storage (new fixture: IPManager, BruteForceProtector, RateLimiter, SessionManager, "
        "cloud control, SecretKeyManager with the same master key): persistent = client configs and the IP black/white lists (ip_manager_storage.go); "
        "in memory only = connections, registry, pending challenges, rate-limiter buckets and the brute-force failure records AND bans "
        "(BruteForceProtector has no storage): a restart lifts every brute-force ban, so 'banned addresses are never authenticated' is proved and checked "
        "for bans of the running process only; blacklist entries (exact IP and CIDR, permanent and unexpired) are proved and checked across restarts",
    ]
    if broken is not None:
        raise broken


def replay(ctx, path):
    r = json.load(open(path))
    run(ctx, only_cases=[r["replay"]["case"]])

"""C04 — tunnel data reaches only connections authorised for that mapping.

Every cell of (identity x named mapping x secret x resume token x state of the named mapping x tunnel state) is driven
through the REAL SessionManager.HandlePacket of a fully wired server fixture (exhaustive in both tiers); the Go harness
evaluates the property predicate on the real outputs, the extracted Coq model (Model/TunnelOpen.v) is run on the same
cells and the observables (ack, attachment role, the specification's verdict) are diffed."""
import json
import os

import vlib

IDS = ["none", "half", "listen", "target", "stranger"]
MIDS = ["none", "tunnel", "other"]
SECRETS = ["none", "right", "wrong"]
MSTATES = ["active", "revoked", "expired", "inactive", "missing"]
TSTATES = ["none", "waiting", "served", "remote"]

# witnesses of the recorded defects of the tree as found (Proofs/TunnelOpen.v w_cell_*): they also tell which tree this is
P_EXISTING = dict(id="none", mid="tunnel", secret="none", resume=False, mstate="missing", tstate="waiting")
P_CROSS = dict(id="none", mid="none", secret="none", resume=False, mstate="active", tstate="remote")
P_SECRET = dict(id="target", mid="tunnel", secret="right", resume=False, mstate="revoked", tstate="none")
# what a legitimate target connection sends (internal/client/tunnel_dialer.go): must still be attached
P_LEGIT = [dict(id="target", mid="tunnel", secret="right", resume=False, mstate="active", tstate="waiting"),
           dict(id="target", mid="tunnel", secret="right", resume=False, mstate="active", tstate="remote"),
           dict(id="listen", mid="tunnel", secret="right", resume=False, mstate="active", tstate="none"),
           dict(id="listen", mid="tunnel", secret="none", resume=False, mstate="active", tstate="none")]
PROBES = [P_EXISTING, P_CROSS, P_SECRET] + P_LEGIT

K_EXISTING = "pinned-existing-bridge-unvalidated"
K_CROSS = "pinned-cross-node-unvalidated"
K_SECRET = "pinned-secret-path-skips-isvalid"


def all_cells():
    return [dict(id=i, mid=m, secret=s, resume=r, mstate=ms, tstate=ts)
            for i in IDS for m in MIDS for s in SECRETS for r in (False, True) for ms in MSTATES for ts in TSTATES]


def cell_key(c):
    return "%s/%s/%s/%s/%s/%s" % (c["id"], c["mid"], c["secret"], "resume" if c["resume"] else "-", c["mstate"], c["tstate"])


def describe(c):
    who = {"none": "a connection that never sent a handshake", "half": "a connection that sent only the first handshake message",
           "listen": "the mapping's listening client", "target": "the mapping's target client",
           "stranger": "an authenticated client unrelated to the tunnel's mapping"}[c["id"]]
    names = {"none": "no mapping id", "tunnel": "the tunnel's mapping id", "other": "the id of another mapping (its own)"}[c["mid"]]
    sec = {"none": "no secret", "right": "the named mapping's secret", "wrong": "a wrong secret"}[c["secret"]]
    ts = {"none": "a tunnel id nobody uses", "waiting": "the id of a tunnel whose bridge waits for its target on this node",
          "served": "the id of a tunnel already connected end to end", "remote": "the id of a tunnel waiting on another node"}[c["tstate"]]
    return "%s sends TunnelOpen with %s, %s%s, %s (named/tunnel mapping is %s)" % (
        who, names, sec, ", a resume token" if c["resume"] else "", ts, c["mstate"])


def cell_codes(c):
    return [IDS.index(c["id"]), MIDS.index(c["mid"]), SECRETS.index(c["secret"]), c["resume"],
            MSTATES.index(c["mstate"]), TSTATES.index(c["tstate"])]


def load_corpus():
    d = os.path.join(vlib.VERIF, "corpus", "C04")
    out = []
    if os.path.isdir(d):
        for f in sorted(os.listdir(d)):
            if f.endswith(".json"):
                out.append(json.load(open(os.path.join(d, f))))
    return out


def classify(c, o, flags):
    """map a failing cell to the known defect it manifests (only while the witness of that defect reproduces on this tree)"""
    cls = o.get("class", "")
    if cls.startswith("existing-bridge:") and flags["existing"]:
        return K_EXISTING
    if cls.startswith("cross-node:") and flags["cross"]:
        return K_CROSS
    if cls.endswith(":invalid-mapping") and flags["secret"] and c["secret"] == "right" and not c["resume"]:
        return K_SECRET
    return None


def run(ctx, only_cases=None):
    thorough = ctx.tier == "thorough"
    binary = vlib.build_harness("C04")
    gen_changed = vlib.write_if_changed(os.path.join(vlib.COQ, "Gen", "C04.v"), vlib.harness_text(binary, ["gen"]))
    broken = None
    try:
        pinfo = vlib.coq_properties("C04")
        vlib.coq_make(["Proofs/SideC04.vo"])
        vlib.proof_coverage(ctx, pinfo, "make -C coq Properties/C04.vo Proofs/SideC04.vo && coqc Properties/C04.v (Print Assumptions audit)",
                            extra_obligations=5)  # the 5 regenerated side conditions in Proofs/SideC04.v
    except vlib.Broken as b:
        broken = b   # keep going: search the implementation for a concrete failing cell first

    rng = ctx.rng
    if only_cases is not None:
        cases = list(PROBES) + list(only_cases)
    else:
        table = all_cells()
        rng.shuffle(table)                       # arrival order varies with the seed: cells must not influence one another
        cases = list(PROBES) + load_corpus() + table
        if thorough:                             # the whole table again, three more arrival orders
            for _ in range(3):
                t2 = all_cells()
                rng.shuffle(t2)
                cases += t2
    outs = vlib.run_harness(binary, cases, timeout=900)

    def probe(p):
        return outs[PROBES.index(p)]
    flags = {"existing": probe(P_EXISTING)["role"] != 0, "cross": probe(P_CROSS)["role"] != 0, "secret": probe(P_SECRET)["ack"] == 1}
    vf, si = (not flags["existing"]), (not flags["secret"])
    ctx.coverage["tree_variant"] = {
        "validate_before_dispatch": vf, "secret_path_checks_IsValid": si, "cross_node_validated": not flags["cross"],
        "note": "current (both fixes applied)" if (vf and si and not flags["cross"]) else
                "pinned or partially repaired: fixes/C04-validate-before-attach.diff applied=%s, fixes/C04-secret-path-isvalid.diff applied=%s" % (vf, si)}

    # (iii) the property predicate evaluated on the real code's own outputs
    nfail = 0
    known_counts = {}
    reported = set()
    for c, o in zip(cases, outs):
        if o["prop_ok"]:
            continue
        key = classify(c, o, flags)
        if key is not None:
            known_counts[key] = known_counts.get(key, 0) + 1
            if key not in reported:
                reported.add(key)
                ctx.violation(key, "real SessionManager.HandlePacket: %s -> %s" % (describe(c), o["prop_msg"]),
                              {"case": c, "observed": o})
            continue
        nfail += 1
        key = "legit-refused" if o.get("class") == "setup" else "unentitled:" + o.get("class", "?") + ":" + cell_key(c)
        if key not in reported and len([k for k in reported if not k.startswith("pinned-")]) < 4:
            reported.add(key)
            ctx.violation(key, "real SessionManager.HandlePacket: %s -> %s" % (describe(c), o["prop_msg"]), {"case": c, "observed": o})
    # legitimate connections must still be attached (a repair that locks everybody out is not a repair)
    for p in P_LEGIT:
        o = probe(p)
        want_role = {"waiting": 2, "remote": 4, "none": 3}[p["tstate"]]
        if o["ack"] != 1 or o["role"] != want_role or (p["tstate"] != "none" and not o["got_bytes"]):
            nfail += 1
            ctx.violation("legit-refused:" + cell_key(p), "real SessionManager.HandlePacket: %s -> ack=%d role=%d got_bytes=%s "
                          "(a legitimate connection must be acknowledged, attached (role %d) and receive the other end's bytes)" % (
                              describe(p), o["ack"], o["role"], o["got_bytes"], want_role), {"case": p, "observed": o})

    # (ii) model vs implementation (the variant of the model is the one the witnesses identify)
    terms = [[[vf, si], cell_codes(c), [o["ack"], o["role"], o["entitled"]]] for c, o in zip(cases, outs)]
    mism = []
    try:
        res, pred = vlib.model_eval("C04", terms, predict=True)
        mism = [i for i, ok in enumerate(res) if not ok]
        small = list(range(0, len(PROBES))) + [rng.randrange(len(cases)) for _ in range(30)]
        vm_bad = sorted(small[k] for k in vlib.vm_crosscheck("C04", [terms[i] for i in small]))
        ext_bad = sorted(i for i in small if not res[i])
        if sorted(set(vm_bad)) != sorted(set(ext_bad)):
            raise vlib.Broken("extracted runner and vm_compute disagree on the C04 model", "vm=%s extracted=%s" % (vm_bad, ext_bad))
        ctx.coverage["vm_compute_crosschecked_cases"] = len(small)
        for i in mism[:3]:
            if outs[i]["prop_ok"] or classify(cases[i], outs[i], flags) is not None:
                ctx.violation("model-mismatch", "Corr/C04.check: Model/TunnelOpen.v (validate_first=%s, secret_isvalid=%s) and the real "
                              "dispatcher disagree on the cell [%s]: model predicts [ack, role, entitled]=%s, observed ack=%d role=%d entitled=%s; "
                              "the theorems of Properties/C04.v no longer speak about this code" % (
                                  vf, si, describe(cases[i]), pred[i], outs[i]["ack"], outs[i]["role"], outs[i]["entitled"]),
                              {"case": cases[i], "observed": outs[i], "model": pred[i]}, found_input=False)
    except vlib.Broken as b:
        broken = broken or b

    # coverage
    distinct = {}
    for c, o in zip(cases, outs):
        distinct[cell_key(c)] = (c, o)
    nontrivial = [k for k, (c, o) in distinct.items() if c["tstate"] != "none" or o["ack"] == 1]
    dist = {"cells_per_identity": {i: sum(1 for k, (c, _) in distinct.items() if c["id"] == i) for i in IDS},
            "cells_per_tunnel_state": {t: sum(1 for k, (c, _) in distinct.items() if c["tstate"] == t) for t in TSTATES},
            "cells_per_mapping_state": {t: sum(1 for k, (c, _) in distinct.items() if c["mstate"] == t) for t in MSTATES},
            "entitled_cells": sum(1 for k, (c, o) in distinct.items() if o["entitled"]),
            "observed_ack_role": {}}
    for k, (c, o) in distinct.items():
        kk = "ack=%d,role=%d" % (o["ack"], o["role"])
        dist["observed_ack_role"][kk] = dist["observed_ack_role"].get(kk, 0) + 1
    samples = []
    for p in (P_EXISTING, P_LEGIT[0], P_CROSS):
        o = probe(p)
        samples.append({"cell": p, "reads": describe(p), "observed": {k: o[k] for k in ("ack", "role", "got_bytes", "marker_at", "entitled", "prop_ok")}})
    ctx.coverage.update({
        "evaluations": len(cases), "distinct_nontrivial": len(nontrivial), "exhaustive": only_cases is None,
        "rule": "the full table identity(5: none/half-handshaken/listen/target/stranger) x named mapping(3: none/the tunnel's/another one owned by "
                "the requester) x secret(3) x resume token(2) x state of the named mapping(5) x tunnel state at arrival(4: no bridge / bridge "
                "waiting locally / bridge already served / waiting on another node via the routing table) = 1800 cells, every one driven through "
                "the real SessionManager.HandlePacket on fresh connections, mappings and tunnel ids of a fully wired server fixture (real "
                "handshakes, real bridge, real routing table and dedicated cross-node connection to a fake peer node); witnesses and corpus "
                "first, arrival order shuffled from VERIF_SEED (thorough: four orders). distinct = distinct cells; non-trivial = a tunnel "
                "existed at arrival or the request was acknowledged with success.",
        "samples": samples,
        "model_vs_impl_cases": len(terms), "model_vs_impl_mismatches": len(mism),
        "impl_property_failures": nfail, "impl_known_defect_cells": known_counts,
        "input_distribution": dist, "generated_file_changed": gen_changed,
    })
    ctx.assumptions += [
        "transport: stream connections whose reader carries no client identity (TCP-like): extractClientID(stream)=0, no temporary control connection",
        "authentication of a connection (handshake) is taken as given per request: c_registered / c_client are inputs of the model (C03/C07 own them)",
        "resume tokens: the cloud control wired into ServerTunnelHandler does not implement ValidateTunnelResumeToken (regenerated side condition ResumeSupported=false)",
        "cross-node: node-to-node trust (CrossNodeListener accepting TargetReady frames from peers) is outside the property; the peer node is a fake TCP listener",
        "handleLocalBridgeWait (routing entry pointing at this node without a local bridge) is modelled (WaitLocal) and covered by the theorems but not driven on the real code (5 s polling loop)",
        "no-bridge cells run on a fixture without routing table (a legitimate target with no bridge anywhere otherwise polls the routing table for 10 s)",
        "concurrent TunnelOpen packets for the same tunnel id are serialised in the model (one open is atomic)",
    ]
    if broken is not None:
        raise broken


def replay(ctx, path):
    r = json.load(open(path))
    run(ctx, only_cases=[r["replay"]["case"]])

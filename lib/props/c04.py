"""C04 — tunnel data reaches only connections authorised for that mapping.

Every cell of (identity x named mapping x secret x resume token x state of the named mapping x tunnel state) is driven
through the REAL SessionManager.HandlePacket of a fully wired server fixture (exhaustive in both tiers); the Go harness
evaluates the property predicate on the real outputs, the extracted Coq model (Model/TunnelOpen.v) is run on the same
cells and the observables (ack, attachment role, the specification's verdict) are diffed."""
import json
import os
import re

import vlib

IDS = ["none", "half", "listen", "target", "stranger"]
MIDS = ["none", "tunnel", "other"]
SECRETS = ["none", "right", "wrong", "prefix1", "prefixall", "suffix", "plus", "case", "onechar", "other"]
BOUNDARY = SECRETS[3:]
MSTATES = ["active", "revoked", "expired", "inactive", "missing", "exp25s", "exp10s", "exp2s", "exp1ms", "soon60s"]
TSTATES = ["none", "waiting", "served", "remote"]
PARTIES = ["normal", "listen0", "target0", "nosecret"]

# witnesses of the recorded defects of the tree as found (Proofs/TunnelOpen.v w_cell_*): they also tell which tree this is
P_EXISTING = dict(id="none", mid="tunnel", secret="none", resume=False, mstate="missing", tstate="waiting")
P_CROSS = dict(id="none", mid="none", secret="none", resume=False, mstate="active", tstate="remote")
P_SECRET = dict(id="target", mid="tunnel", secret="right", resume=False, mstate="revoked", tstate="none")
# what a legitimate target connection sends (internal/client/tunnel_dialer.go): must still be attached
P_LEGIT = [dict(id="target", mid="tunnel", secret="right", resume=False, mstate="active", tstate="waiting"),
           dict(id="target", mid="tunnel", secret="right", resume=False, mstate="active", tstate="remote"),
           dict(id="listen", mid="tunnel", secret="right", resume=False, mstate="active", tstate="none"),
           dict(id="listen", mid="tunnel", secret="none", resume=False, mstate="active", tstate="none")]
PROBES = [P_EXISTING, P_CROSS, P_SECRET] + P_LEGIT

K_EXISTING = "pinned-existing-bridge-unvalidated"
K_CROSS = "pinned-cross-node-unvalidated"
K_SECRET = "pinned-secret-path-skips-isvalid"


SECRET_TEXT = {"none": "no secret", "right": "the named mapping's secret", "wrong": "an unrelated wrong secret",
               "prefix1": "the FIRST CHARACTER of the named mapping's secret", "prefixall": "the named mapping's secret WITHOUT ITS LAST CHARACTER",
               "suffix": "the named mapping's secret without its first character", "plus": "the named mapping's secret plus one character",
               "case": "the named mapping's secret with the case flipped", "onechar": "the named mapping's secret with its last character changed",
               "other": "the right secret of ANOTHER mapping"}


def all_cells():
    """the full table for ordinary mappings + the mapping-party dimension (stored listening client id 0 = server-side listener,
    stored target client id 0) on a sub-table — exactly Model.TunnelOpen.all_cells"""
    out = [dict(id=i, mid=m, secret=s, resume=r, mstate=ms, tstate=ts, party="normal")
           for i in IDS for m in MIDS for s in SECRETS for r in (False, True) for ms in MSTATES for ts in TSTATES]
    for p in ("listen0", "target0"):
        out += [dict(id=i, mid=m, secret=s, resume=False, mstate=ms, tstate=ts, party=p)
                for i in IDS for m in MIDS for s in ("none", "right", "wrong", "prefix1") for ms in ("active", "revoked", "missing")
                for ts in ("none", "waiting", "remote")]
    # mappings that store NO secret (ActivateConnectionCode creates them so): presented secrets none / unrelated non-empty
    out += [dict(id=i, mid=m, secret=s, resume=False, mstate=ms, tstate=ts, party="nosecret")
            for i in IDS for m in MIDS for s in ("none", "wrong") for ms in ("active", "revoked", "missing") for ts in ("none", "waiting", "remote")]
    return out


def cell_key(c):
    k = "%s/%s/%s/%s/%s/%s" % (c["id"], c["mid"], c["secret"], "resume" if c["resume"] else "-", c["mstate"], c["tstate"])
    return k if c.get("party", "normal") == "normal" else k + "/" + c["party"]


def describe(c):
    who = {"none": "a connection that never sent a handshake", "half": "a connection that sent only the first handshake message",
           "listen": "the mapping's listening client", "target": "the mapping's target client",
           "stranger": "an authenticated client unrelated to the tunnel's mapping"}[c["id"]]
    names = {"none": "no mapping id", "tunnel": "the tunnel's mapping id", "other": "the id of another mapping (its own)"}[c["mid"]]
    sec = SECRET_TEXT[c["secret"]]
    ts = {"none": "a tunnel id nobody uses", "waiting": "the id of a tunnel whose bridge waits for its target on this node",
          "served": "the id of a tunnel already connected end to end", "remote": "the id of a tunnel waiting on another node"}[c["tstate"]]
    party = {"normal": "", "listen0": "; the mappings have a SERVER-SIDE listener (stored listening client id 0)",
             "target0": "; the mappings have no target client (stored target client id 0)",
             "nosecret": "; the mappings store NO secret (empty SecretKey, as connection-code mappings)"}[c.get("party", "normal")]
    return ("%s sends TunnelOpen with %s, %s%s, %s (named/tunnel mapping is %s)" + party) % (
        who, names, sec, ", a resume token" if c["resume"] else "", ts, c["mstate"])


def cell_codes(c):
    return [IDS.index(c["id"]), MIDS.index(c["mid"]), SECRETS.index(c["secret"]), c["resume"],
            MSTATES.index(c["mstate"]), TSTATES.index(c["tstate"]), PARTIES.index(c.get("party", "normal"))]


def load_corpus():
    d = os.path.join(vlib.VERIF, "corpus", "C04")
    out = []
    if os.path.isdir(d):
        for f in sorted(os.listdir(d)):
            if f.endswith(".json"):
                out.append(json.load(open(os.path.join(d, f))))
    return out


# ------------------------------------------------------------------------------------------------------------------
# multi-step histories (harness/cmd/c04/hist.go; model: Corr/C04.v h_run over Model.TunnelOpen.step)
# ------------------------------------------------------------------------------------------------------------------
WHO = ["none", "half", "L", "T", "S", "X"]
HMID = ["none", "m1", "m2", "m3", "m4"]   # m4: (L -> T) storing NO secret;     # m3: server-side listener (stored listening client id 0), target client T
HSTATES = MSTATES + ["aged-revoked", "aged-inactive"]   # revoked / deactivated, then the MAIN record aged out of the store (TTL)


def O(who, mid, secret, tun=0):
    return {"op": "open", "who": who, "mid": mid, "secret": secret, "tun": tun}


def SM(m, state):
    return {"op": "setm", "m": m, "state": state}


def RT(tun, node, m="m1"):
    return {"op": "route", "tun": tun, "node": node, "m": m}


def CL(tun):
    return {"op": "close", "tun": tun}


def SRV(tun):
    return {"op": "srv", "tun": tun}


def SL(ms):
    return {"op": "sleep", "ms": ms}


def H(routing, *steps):
    return {"mode": "hist", "routing": routing, "steps": list(steps)}


def step_str(st):
    if st["op"] == "open":
        return "open(%s,%s,%s,t%d%s)" % (st["who"], st["mid"], st["secret"], st["tun"], ",same-connection-as-step-%d" % (st["reuse"] - 1) if st.get("reuse") else "")
    if st["op"] == "setm":
        return "set(%s,%s)" % (st["m"], st["state"])
    if st["op"] == "route":
        return "route(t%d,%s,%s)" % (st["tun"], st["node"], st["m"])
    if st["op"] == "close":
        return "close(t%d)" % st["tun"]
    if st["op"] == "srv":
        return "server-starts-tunnel(m3,t%d)" % st["tun"]
    return "sleep(%dms)" % st["ms"]


def hist_str(h):
    return ("routing: " if h["routing"] else "single-node: ") + "; ".join(step_str(s) for s in h["steps"])


def hist_valid(h):
    """generator constraints: nothing happens on a tunnel id after its bridge was closed (the real lifecycle goroutine removes
    map and routing entries asynchronously), no change of a deleted mapping, route steps only with a routing table"""
    closed, gone, used = set(), set(), set()
    for st in h["steps"]:
        if st["op"] in ("open", "route", "close", "srv") and st["tun"] in closed:
            return False
        if st["op"] == "srv" and (st["tun"] in used or "m3" in gone):
            return False      # the server chooses a fresh tunnel id: must be the first use of that slot
        if st["op"] in ("open", "route", "close", "srv"):
            used.add(st["tun"])
        if st["op"] == "close":
            closed.add(st["tun"])
        if st["op"] == "setm":
            if st["m"] in gone:
                return False
            if st["state"] == "missing" or st["state"].startswith("aged-"):
                gone.add(st["m"])
        if st["op"] == "route" and not h["routing"]:
            return False
    return True


def directed_histories():
    out = []
    legit_src = [O("L", "m1", "none"), O("L", "m1", "right")]
    # (a) accepted open -> the mapping becomes invalid -> the same client opens again (new connection, both credential
    #     paths), immediately and after a short delay; also the target on the bridge that already exists
    for first in legit_src:
        for st in [x for x in HSTATES[1:] if x != "soon60s"]:
            for again in legit_src + [O("T", "m1", "right")]:
                a2 = dict(again, tun=1)
                out.append(H(False, first, SM("m1", st), a2))
                out.append(H(False, first, SM("m1", st), SL(25), a2))
                out.append(H(False, first, SM("m1", st), dict(again, tun=0)))       # the live tunnel id
            out.append(H(False, first, O("T", "m1", "right"), SM("m1", st), O("T", "m1", "right"), O("L", "m1", "none", 1)))
    for st in HSTATES[1:4]:   # ... and back to active: must work again
        out.append(H(False, O("L", "m1", "none"), SM("m1", st), O("L", "m1", "none", 1), SM("m1", "active"), O("L", "m1", "none", 1)))
    # a revoked / deactivated mapping that nobody touches any more until its main record ages out of the store stays unusable
    # (the index lists keep the copy written at creation, which says "active, not revoked")
    for st in ("aged-revoked", "aged-inactive"):
        for again in (O("L", "m1", "none"), O("L", "m1", "right"), O("T", "m1", "right")):
            out.append(H(False, SM("m1", st), again, dict(again, tun=1)))
            out.append(H(False, O("L", "m1", "right"), SM("m1", st), again, dict(again, tun=1)))
        out.append(H(True, SM("m2", st), O("S", "m2", "none"), O("X", "m2", "right"), O("L", "m1", "none")))
    # expiring in a minute is NOT expired: everything still works
    out.append(H(False, O("L", "m1", "none"), SM("m1", "soon60s"), O("L", "m1", "none", 1), O("T", "m1", "right", 1), O("T", "m1", "right")))
    # the same on a node with a routing table (the second open of a target parks instead of failing at once)
    for st in HSTATES[1:]:
        out.append(H(True, O("L", "m1", "none"), SM("m1", st), O("L", "m1", "none", 1), O("T", "m1", "right", 1)))
        out.append(H(True, O("L", "m1", "right"), SM("m1", st), SL(25), O("L", "m1", "right", 1)))
    # (b) a request parked BEFORE the tunnel exists, then the tunnel appears for a DIFFERENT mapping
    early_other = [O("X", "m2", "right"), O("T", "m1", "right")]
    out.append(H(True, O("X", "m2", "right"), O("L", "m1", "right")))
    out.append(H(True, O("X", "m2", "right"), O("L", "m1", "none")))
    out.append(H(True, O("X", "m2", "right"), O("L", "m1", "right"), O("T", "m1", "right")))
    out.append(H(True, O("X", "m2", "right"), RT(0, "other", "m1")))
    out.append(H(True, O("T", "m1", "right"), O("S", "m2", "right")))
    out.append(H(True, O("T", "m1", "right"), O("S", "m2", "none")))
    out.append(H(True, O("T", "m1", "right"), RT(0, "other", "m2")))
    out.append(H(True, O("X", "m2", "right", 1), O("L", "m1", "right", 0), O("L", "m1", "right", 1)))
    out.append(H(True, O("X", "m2", "right"), SL(260), O("L", "m1", "right")))          # poll interval already at its maximum
    out.append(H(True, O("X", "m2", "right"), SM("m2", "revoked"), O("L", "m1", "right")))
    # (c) the parked request IS entitled: it must still be attached / forwarded and read the other end's bytes
    out.append(H(True, O("T", "m1", "right"), O("L", "m1", "right")))
    out.append(H(True, O("T", "m1", "right"), O("L", "m1", "none")))
    out.append(H(True, O("T", "m1", "right"), RT(0, "other", "m1")))
    out.append(H(True, O("X", "m2", "right"), O("S", "m2", "right")))
    out.append(H(True, O("X", "m2", "right"), RT(0, "other", "m2")))
    out.append(H(True, O("T", "m1", "right"), SL(260), O("L", "m1", "right")))
    out.append(H(True, O("T", "m1", "right", 1), O("L", "m1", "right", 0), O("L", "m1", "right", 1)))
    out.append(H(True, RT(0, "other", "m1"), O("T", "m1", "right"), O("X", "m2", "right"), RT(0, "none"), O("none", "m1", "none")))
    # server-side listener (stored listening client id 0): an unauthenticated / phase-1-only connection (client id 0) is NOT that party
    for who in ("none", "half"):
        for sec in ("none", "right", "prefix1"):
            out.append(H(False, O(who, "m3", sec), O("T", "m3", "right")))
            out.append(H(False, SRV(0), O(who, "m3", sec), O("T", "m3", "right")))
            out.append(H(True, SRV(0), O(who, "m3", sec), O(who, "m3", sec, 1)))
    out.append(H(False, SRV(0), O("T", "m3", "right"), O("X", "m3", "right"), O("L", "m3", "none")))
    out.append(H(True, O("T", "m3", "right"), SRV(0)))
    out.append(H(False, SRV(0), SM("m3", "revoked"), O("T", "m3", "right"), O("half", "m3", "none")))
    # handleLocalBridgeWait: a record says "tunnel on THIS node" while no bridge is here; the request waits; the record goes away;
    # a bridge appears under the same client-chosen id — of ANOTHER mapping (must be dropped) / of its own mapping (must attach)
    for who, m, other_open, own_open in (("X", "m2", O("L", "m1", "right"), O("S", "m2", "right")),
                                         ("T", "m1", O("S", "m2", "none"), O("L", "m1", "none")),
                                         ("S", "m2", O("L", "m1", "right"), O("S", "m2", "right"))):
        out.append(H(True, RT(0, "self", m), O(who, m, "right"), RT(0, "none"), other_open))
        out.append(H(True, RT(0, "self", m), O(who, m, "right"), RT(0, "none"), own_open))
        out.append(H(True, RT(0, "self", m), O(who, m, "right"), RT(0, "none"), other_open, O(who, m, "right")))
    out.append(H(True, RT(0, "self", "m1"), O("X", "m2", "right"), O("none", "m1", "none")))
    # several refused requests on ONE connection, then a legitimate one on the same connection: EVERY refusal is acknowledged
    def RO(step, who, mid, secret, tun=0):
        return dict(O(who, mid, secret, tun), reuse=step + 1)
    out.append(H(False, O("L", "m1", "wrong"), RO(0, "L", "m1", "prefix1"), RO(1, "L", "m2", "none"), RO(2, "L", "m1", "none")))
    out.append(H(False, O("L", "m1", "none"), O("T", "m1", "wrong"), RO(1, "T", "m1", "onechar"), RO(2, "T", "m2", "right"), RO(3, "T", "m1", "right")))
    out.append(H(True, O("X", "m1", "right"), RO(0, "X", "m2", "wrong"), RO(1, "X", "m1", "none"), O("S", "m2", "none"), RO(2, "X", "m2", "right")))
    out.append(H(True, RT(0, "other", "m1"), O("T", "m2", "right"), RO(1, "T", "m1", "wrong"), RO(2, "T", "m1", "right")))
    out.append(H(False, O("half", "m1", "none"), RO(0, "half", "m1", "right"), RO(1, "half", "m3", "none")))
    # a live local bridge whose record was replaced by ANOTHER mapping's (the bridge's own mapping decides, not the record)
    out.append(H(True, O("L", "m1", "right"), RT(0, "other", "m2"), O("X", "m2", "right"), O("S", "m2", "none"), O("T", "m1", "right")))
    out.append(H(True, O("L", "m1", "none"), RT(0, "none"), RT(0, "other", "m2"), O("S", "m2", "right")))
    # a mapping that stores NO secret: any non-empty presented secret is wrong, for every identity, on new and live tunnels
    for who in ("L", "T", "X", "half"):
        out.append(H(False, O(who, "m4", "wrong"), O("L", "m4", "none"), O(who, "m4", "wrong"), O(who, "m4", "wrong", 1)))
        out.append(H(True, O("L", "m4", "none"), O(who, "m4", "wrong"), O(who, "m4", "none", 1)))
    out.append(H(True, RT(0, "other", "m4"), O("T", "m4", "wrong"), O("L", "m4", "wrong"), O("L", "m4", "none")))
    # boundary secrets in every family: after a legitimate open / on a live tunnel / parked early / on a routing record
    for k in ["wrong"] + BOUNDARY:
        out.append(H(False, O("L", "m1", "right"), O("T", "m1", k), O("L", "m1", k, 1), O("T", "m1", "right")))
        out.append(H(False, O("L", "m1", k), O("T", "m1", k), O("S", "m2", k, 1)))
        out.append(H(True, O("T", "m1", k), O("L", "m1", "right"), O("T", "m1", "right")))
        out.append(H(True, RT(0, "other", "m1"), O("T", "m1", k), O("L", "m1", k, 1)))
    return [h for h in out if hist_valid(h)]


def race_cases(rng, thorough):
    """two TunnelOpen requests for ONE tunnel id: B is parked (gate n>0: at its n-th storage read of the mapping it names; 0: at
    its acknowledgement write, i.e. after the tunnelBridges lookup and before create/attach; -1: not at all), A runs to
    completion, B is released.  Every ordered pair of the request list = both orders."""
    reqs = [("L", "m1", "right"), ("L", "m1", "none"), ("T", "m1", "right"), ("S", "m2", "right"), ("S", "m2", "none"),
            ("X", "m2", "right"), ("X", "m1", "right"), ("T", "m2", "right"), ("none", "m1", "none"),
            ("T", "m1", "prefixall"), ("X", "m2", "other"), ("L", "m1", "prefix1"),
            ("half", "m3", "none"), ("none", "m3", "right"), ("T", "m3", "right")]
    out = []
    for a in reqs:
        for b in reqs:
            for g in (-1, 0, 1, 2, 3, 4):
                if g > 0 and a[1] == b[1]:
                    continue     # reads of ONE mapping key are coalesced by the repository's singleflight: parking one parks both
                out.append({"mode": "race", "a": dict(who=a[0], mid=a[1], secret=a[2]), "b": dict(who=b[0], mid=b[1], secret=b[2]), "gate": g})
    if not thorough:
        keep = [c for c in out if c["gate"] in (0, -1)]
        rest = [c for c in out if c["gate"] not in (0, -1)]
        rng.shuffle(rest)
        out = keep + rest[:200]
    return out


def XO(node, who, mid, secret, tun=0, gate=False):
    return {"op": "open", "node": node, "who": who, "mid": mid, "secret": secret, "tun": tun, "gate": gate}


def XR(i):
    return {"op": "release", "step": i}


X_SOURCES = [("L", "m1", "right"), ("L", "m1", "none"), ("S", "m2", "right"), ("S", "m2", "none"), ("L", "m2", "right"),
             ("S", "m1", "none"), ("L", "m1", "prefixall"), ("none", "m1", "none")]
X_REMOTES = [("T", "m1", "right"), ("X", "m2", "right"), ("X", "m1", "right"), ("T", "m2", "right"), ("T", "m1", "prefix1"),
             ("none", "m2", "none"), ("X", "m2", "other"), ("half", "m1", "right")]


def xrace_case(p, q, r, gated):
    """two source-side requests P, Q for ONE tunnel id on node A (gated: P parked after its lookups while Q runs), then a
    target-side request R on node B"""
    if gated:
        steps = [XO("A", *p, 0, True), XO("A", *q), XR(0), XO("B", *r)]
    else:
        steps = [XO("A", *p), XO("A", *q), XO("B", *r)]
    return {"mode": "xnode", "tids": ["short"], "steps": steps, "shape": {"p": p, "q": q, "r": r, "gated": gated}}


def xnode_cases(rng, thorough):
    directed = []
    # the loser of the race for a tunnel id must not touch the record; then its own target arrives on the other node
    for gated in (True, False):
        directed.append(xrace_case(("S", "m2", "right"), ("L", "m1", "right"), ("X", "m2", "right"), gated))
        directed.append(xrace_case(("S", "m2", "none"), ("L", "m1", "none"), ("X", "m2", "right"), gated))
        directed.append(xrace_case(("L", "m1", "right"), ("S", "m2", "right"), ("T", "m1", "right"), gated))
        directed.append(xrace_case(("L", "m1", "right"), ("S", "m2", "right"), ("X", "m2", "right"), gated))
        directed.append(xrace_case(("L", "m1", "right"), ("L", "m1", "right"), ("T", "m1", "right"), gated))
    allx = [xrace_case(p, q, r, g) for p in X_SOURCES for q in X_SOURCES for r in X_REMOTES for g in (True, False)]
    if not thorough:
        rng.shuffle(allx)
        allx = allx[:160]
    # tunnel ids that are prefixes of one another around the 16-byte frame-header id: victim tunnel #0, the attacker's own
    # legitimate tunnel #1 = id #0 + "-x" on the same node, the attacker's target arrives on the other node for #1
    ids = []
    for shape in ("16", "15", "17", "short", "long"):
        for first in (0, 1):
            v, a = XO("A", "L", "m1", "right", 0), XO("A", "S", "m2", "right", 1)
            opens = [v, a] if first == 0 else [a, v]
            ids.append({"mode": "xnode", "tids": [shape, "+x"], "steps": opens + [XO("B", "X", "m2", "right", 1), XO("B", "T", "m1", "right", 0)]})
            ids.append({"mode": "xnode", "tids": [shape, "+x"], "steps": opens + [XO("B", "T", "m1", "right", 0), XO("B", "X", "m2", "right", 1)]})
            ids.append({"mode": "xnode", "tids": [shape, "+x"], "steps": opens + [XO("B", "X", "m2", "right", 0), XO("B", "T", "m1", "right", 1)]})
    # legitimate cross-node flows in both directions, and boundary secrets / mapping states are NOT softened by the extra hop
    legit = [{"mode": "xnode", "tids": ["long"], "steps": [XO("A", "L", "m1", "right"), XO("B", "T", "m1", "right")]},
             {"mode": "xnode", "tids": ["short"], "steps": [XO("B", "S", "m2", "none"), XO("A", "X", "m2", "right")]},
             {"mode": "xnode", "tids": ["16"], "steps": [XO("B", "L", "m1", "none"), XO("A", "T", "m1", "right"), XO("A", "X", "m2", "right")]}]
    for k in BOUNDARY + ["wrong", "none"]:
        legit.append({"mode": "xnode", "tids": ["short"], "steps": [XO("A", "L", "m1", "right"), XO("B", "T", "m1", k), XO("B", "T", "m1", "right")]})
    # long tunnel ids sharing a long prefix (the routing key must be the FULL id): the victim's tunnel #0 is older than its record
    # (expire), the attacker's own tunnel #1 = first N bytes of #0 + "-x" lives on the same node, its target asks for #0 elsewhere
    for vlen in ("65", "100", "64", "63"):
        for cut in ("cut63+x", "cut64+x", "cut65+x"):
            if int(cut[3:5]) > int(vlen):
                continue
            v, a = XO("A", "L", "m1", "right", 0), XO("A", "S", "m2", "right", 1)
            legit.append({"mode": "xnode", "tids": [vlen, cut], "steps": [v, {"op": "expire", "tun": 0}, a, XO("B", "X", "m2", "right", 0)]})
            legit.append({"mode": "xnode", "tids": [vlen, cut], "steps": [v, a, XO("B", "X", "m2", "right", 0), XO("B", "X", "m2", "right", 1), XO("B", "T", "m1", "right", 0)]})
    # a client-chosen tunnel id that contains the separator of the TargetReady message ("victim|x")
    for shape in ("short", "16", "long"):
        legit.append({"mode": "xnode", "tids": [shape, "+|x"], "sep": True,
                      "steps": [XO("A", "L", "m1", "right", 0), XO("A", "S", "m2", "right", 1), XO("B", "X", "m2", "right", 1)]})
        legit.append({"mode": "xnode", "tids": [shape, "+|x"], "sep": True,
                      "steps": [XO("A", "S", "m2", "right", 1), XO("B", "X", "m2", "right", 1), XO("A", "L", "m1", "right", 0), XO("B", "T", "m1", "right", 0)]})
    # a dedicated cross-node connection must lead to the node the record names NOW: tunnel id #0 (mapping 1) on node A with a forward
    # from node B still open; its record expires; the same client-chosen id is registered under mapping 2 on node C; mapping 2's target
    # arrives on node B
    for first_target in (("T", "m1", "right"), ("L", "m1", "none")):
        for late in (("X", "m2", "right"), ("S", "m2", "none")):
            legit.append({"mode": "xnode", "tids": ["short"], "reuse": True,
                          "steps": [XO("A", "L", "m1", "right"), XO("B", *first_target), {"op": "expire", "tun": 0},
                                    XO("C", "S", "m2", "right"), XO("B", *late)]})
    legit.append({"mode": "xnode", "tids": ["long"], "steps": [XO("C", "S", "m2", "none"), XO("A", "X", "m2", "right"), XO("B", "X", "m2", "right")]})
    # the OWNER of a live bridge is the mapping it was created for, whatever a later record under the same id says: bridge (T, M1) on A,
    # record expired, T opened under M2 on node C (record now says M2), then M2's parties present (T, M2) on node A
    for late in (("X", "m2", "right"), ("S", "m2", "none"), ("S", "m2", "right")):
        legit.append({"mode": "xnode", "tids": ["short"], "steps": [XO("A", "L", "m1", "right"), {"op": "expire", "tun": 0},
                                                                     XO("C", "S", "m2", "right"), XO("A", *late), XO("A", "T", "m1", "right")]})
    # server-side listener on node A (the server starts the tunnel itself), requesters on the other node
    srv = []
    for who, sec in (("half", "none"), ("half", "right"), ("none", "none"), ("none", "right"), ("X", "right"), ("T", "prefix1")):
        srv.append({"mode": "xnode", "tids": ["short"], "steps": [{"op": "srv", "tun": 0}, XO("B", who, "m3", sec), XO("B", "T", "m3", "right")]})
        srv.append({"mode": "xnode", "tids": ["short"], "steps": [XO("B", who, "m3", sec), XO("A", who, "m3", sec)]})
    return directed + ids + legit + srv + allx


def xnode_str(c):
    def one(s):
        if s["op"] == "release":
            return "release(step %d)" % s["step"]
        if s["op"] == "srv":
            return "server-starts-tunnel@A(m3,id#%d)" % s["tun"]
        if s["op"] == "expire":
            return "record-of-id#%d-expires" % s["tun"]
        return "%sopen@%s(%s,%s,%s,id#%d)" % ("GATED " if s.get("gate") else "", s["node"], s["who"], s["mid"], s["secret"], s["tun"])
    return "two nodes, tunnel ids %s: %s" % (c["tids"], "; ".join(one(s) for s in c["steps"]))


def xnode_value(vf_si, c, o):
    sh = c.get("shape")
    if not sh or o.get("class") == "setup":
        return None
    enc = lambda r: [WHO.index(r[0]), HMID.index(r[1]), SECRETS.index(r[2])]
    t = o["tuns"][0]
    r_idx = len(c["steps"]) - 1
    return [list(vf_si), [97, False], enc(sh["p"]), enc(sh["q"]), enc(sh["r"]), [sh["gated"]],
            [t["a"][1] if t["a"][0] else 0, t["a"][2] if t["a"][0] else 0, t["rec"][2] if t["rec"][0] else 0,
             1 if o["opens"][r_idx][1] == 4 else 0]]


def replace_cases():
    """bridge replacement: PRE opens the tunnel id first (normally creating the bridge), B does its lookup / agreement test and is
    parked at its acknowledgement write, the registered bridge ENDS (ended=True), A (normally the listener of ANOTHER mapping) runs
    to completion and registers a new bridge under the same client-chosen id, B is released"""
    pres = [("S", "m2", "right"), ("S", "m2", "none"), ("L", "m1", "right")]
    bs = [("X", "m2", "right"), ("S", "m2", "right"), ("S", "m2", "none"), ("T", "m1", "right"), ("L", "m1", "none"), ("X", "m2", "prefixall")]
    as_ = [("L", "m1", "right"), ("L", "m1", "none"), ("S", "m2", "right"), ("S", "m2", "none")]
    out = []
    for pre in pres:
        for b in bs:
            for a in as_:
                for ended in (True, False):
                    out.append({"mode": "race", "pre": dict(who=pre[0], mid=pre[1], secret=pre[2]), "a": dict(who=a[0], mid=a[1], secret=a[2]),
                                "b": dict(who=b[0], mid=b[1], secret=b[2]), "gate": 0, "end_pre": ended})
                if a[1] != b[1]:   # also parked at a storage read after the lookup (reads of ONE mapping key are coalesced: different mappings only)
                    out.append({"mode": "race", "pre": dict(who=pre[0], mid=pre[1], secret=pre[2]), "a": dict(who=a[0], mid=a[1], secret=a[2]),
                                "b": dict(who=b[0], mid=b[1], secret=b[2]), "gate": 2, "end_pre": True})
    return out


P_RACE = {"mode": "race", "a": dict(who="L", mid="m1", secret="right"), "b": dict(who="X", mid="m2", secret="right"), "gate": 0}
K_RACE = "race-late-attach-unvalidated"
K_STALE = "singleflight-stale-read-after-update"
K_SEP = "target-ready-separator-in-tunnel-id"
K_REUSE = "dedicated-connection-reused-across-nodes"


def race_str(c):
    g = {-1: "B runs entirely first", 0: "B parked at its acknowledgement write (after the tunnelBridges lookup, before create/attach)"}.get(
        c["gate"], "B parked at its read #%d of the mapping it names" % c["gate"])
    if c.get("pre"):
        return ("PRE=TunnelOpen(%s,%s,%s) first; B=TunnelOpen(%s,%s,%s) on the SAME tunnel id, %s; %sA=TunnelOpen(%s,%s,%s) runs to completion; B is released" % (
            c["pre"]["who"], c["pre"]["mid"], c["pre"]["secret"], c["b"]["who"], c["b"]["mid"], c["b"]["secret"], g,
            "the registered bridge ENDS; " if c.get("end_pre") else "", c["a"]["who"], c["a"]["mid"], c["a"]["secret"]))
    return "A=TunnelOpen(%s,%s,%s) B=TunnelOpen(%s,%s,%s) on ONE tunnel id; %s, A runs to completion, B is released" % (
        c["a"]["who"], c["a"]["mid"], c["a"]["secret"], c["b"]["who"], c["b"]["mid"], c["b"]["secret"], g)


def race_value(vf_si, late, c, o):
    enc0 = lambda r: [WHO.index(r["who"]), HMID.index(r["mid"]), SECRETS.index(r["secret"])]
    if c.get("pre"):
        if c["gate"] != 0 or not o["b_parked"] or (c.get("end_pre") and not o["ended"] and o["mid_mid"] != 0):
            return None
        return [list(vf_si), [96, late], enc0(c["a"]), enc0(c["b"]), enc0(c["pre"]), [bool(c.get("end_pre"))], [o["mid_end"], o["src"], o["tgt"]]]
    if not o["b_parked"]:
        sched = 0
    elif c["gate"] == 0:
        sched = 1
    elif c["gate"] == 1:
        sched = 2
    else:
        return None          # park point relative to the lookup depends on the credential path: predicate only
    enc = lambda r: [WHO.index(r["who"]), HMID.index(r["mid"]), SECRETS.index(r["secret"])]
    return [list(vf_si), [98, late, False], enc(c["a"]), enc(c["b"]), [sched], [o["mid_end"], o["src"], o["tgt"]]]


def random_history(rng, routing):
    n = rng.choice([2, 3, 3, 4, 4, 5, 6])
    steps = []
    for _ in range(n):
        k = rng.random()
        if k < 0.62:
            who = rng.choice(["L", "L", "T", "T", "S", "X", "X", "none", "half"])
            mid = rng.choice(["m1", "m1", "m1", "m2", "m2", "none", "m3", "m3"])
            secret = rng.choice(["none", "right", "right", "right", "wrong"] + BOUNDARY)
            if rng.random() < 0.06:
                mid, secret = "m4", rng.choice(["none", "wrong", "wrong", "right"])
            steps.append(O(who, mid, secret, rng.choice([0, 0, 0, 1])))
        elif k < 0.82:
            steps.append(SM(rng.choice(["m1", "m1", "m2", "m3"]), rng.choice(["active", "revoked", "expired", "inactive", "missing", "revoked", "exp25s", "exp10s", "exp2s", "exp1ms", "soon60s", "aged-revoked", "aged-inactive"])))
        elif k < 0.90 and routing:
            steps.append(RT(rng.choice([0, 0, 1]), rng.choice(["other", "other", "none", "self"]), rng.choice(["m1", "m2"])))
        elif k < 0.94:
            steps.append(CL(rng.choice([0, 1])))
        elif k < 0.97:
            steps.append(SRV(rng.choice([0, 1])))
        else:
            steps.append(SL(rng.choice([5, 30])))
    return H(routing, *steps)


def exhaustive_histories(routing, depth):
    if routing:
        alpha = [O("T", "m1", "right"), O("X", "m2", "right"), O("L", "m1", "right"), O("S", "m2", "none"), O("T", "m1", "prefixall"), O("half", "m3", "none"), SRV(0),
                 RT(0, "other", "m1"), RT(0, "none"), SM("m1", "revoked"), CL(0)]
    else:
        alpha = [O("L", "m1", "none"), O("L", "m1", "right"), O("T", "m1", "right"), O("X", "m2", "right"), O("none", "m1", "none"), O("T", "m1", "prefix1"), O("half", "m3", "none"), O("T", "m3", "right"), SRV(0),
                 SM("m1", "revoked"), SM("m1", "active"), SM("m1", "expired"), CL(0)]
    out = []

    def rec(prefix):
        if prefix:
            h = H(routing, *prefix)
            if not hist_valid(h):
                return
            if len(prefix) == depth:
                out.append(h)
                return
        for a in alpha:
            rec(prefix + [a])
    rec([])
    return out


def hist_value(flags_vf_si, h, o):
    steps = []
    conn_of = {}
    for i, (st, so) in enumerate(zip(h["steps"], o["steps"])):
        if st["op"] == "open":
            conn_of[i] = conn_of.get(st.get("reuse", 0) - 1, i + 1) if st.get("reuse") else i + 1
            steps.append([0, WHO.index(st["who"]), HMID.index(st["mid"]), SECRETS.index(st["secret"]), st["tun"], so["registered"],
                          conn_of[i] if st.get("reuse") else 0])
        elif st["op"] == "setm":
            steps.append([1, HMID.index(st["m"]), HSTATES.index(st["state"])])
        elif st["op"] == "route":
            steps.append([2, st["tun"], {"none": 0, "other": 1, "self": 2}[st["node"]], HMID.index(st["m"])])
        elif st["op"] == "close":
            steps.append([3, st["tun"]])
        elif st["op"] == "srv":
            steps.append([5, st["tun"]])
        else:
            steps.append([4])
    obs = [[so["ack"], so["role"], list(so["snap"])] for so in o["steps"]]
    return [list(flags_vf_si), [99, h["routing"]], steps, obs]


def run_one(binary, cases, timeout):
    """like vlib.run_harness, but a harness that does not finish is asked for its goroutine dump (SIGQUIT) before it is killed"""
    import signal
    import subprocess
    inp = "".join(json.dumps(c, separators=(",", ":")) + "\n" for c in cases)
    p = subprocess.Popen([binary], stdin=subprocess.PIPE, stdout=subprocess.PIPE, stderr=subprocess.PIPE, text=True)
    try:
        so, se = p.communicate(inp, timeout=timeout)
    except subprocess.TimeoutExpired:
        p.send_signal(signal.SIGQUIT)
        try:
            so, se = p.communicate(timeout=20)
        except subprocess.TimeoutExpired:
            p.kill()
            so, se = p.communicate()
        n = len(so.splitlines())
        try:
            with open(os.path.join(vlib.BUILD, "c04_hang_dump.txt"), "w") as fh:
                fh.write("stuck on case %d: %s\n\n%s" % (n, json.dumps(cases[n]) if n < len(cases) else None, se))
        except OSError:
            pass
        raise vlib.Broken("harness verif_c04 did not finish %d cases within %ds" % (len(cases), timeout),
                          "stuck on case %d: %s\n%s" % (n, json.dumps(cases[n]) if n < len(cases) else None, se[-3000:]))
    if p.returncode != 0:
        raise vlib.Broken("harness verif_c04 exited %d" % p.returncode, (se or "")[-4000:])
    outs = [json.loads(l) for l in so.splitlines() if l.strip()]
    if len(outs) != len(cases):
        raise vlib.Broken("harness verif_c04 returned %d results for %d cases" % (len(outs), len(cases)), (se or "")[-2000:])
    return outs


def run_sharded(binary, cases, shards):
    """several harness processes side by side (histories with parked requests wait on the real 50-200 ms routing poll)"""
    import threading
    if not cases:
        return []
    shards = max(1, min(shards, len(cases)))
    parts = [cases[i::shards] for i in range(shards)]
    res = [None] * shards
    errs = []

    def work(i):
        try:
            res[i] = run_one(binary, parts[i], int(os.environ.get("C04_SHARD_TIMEOUT", "600")))
        except vlib.Broken as b:
            errs.append(b)
    ths = [threading.Thread(target=work, args=(i,)) for i in range(shards)]
    [t.start() for t in ths]
    [t.join() for t in ths]
    if errs:
        raise errs[0]
    outs = [None] * len(cases)
    for i in range(shards):
        for j, o in enumerate(res[i]):
            outs[i + j * shards] = o
    return outs


def shrink_hist(binary, h, cls):
    """greedy: drop steps while the Go-side predicate still fails with the same class"""
    def fails(x):
        if not x["steps"] or not hist_valid(x):
            return False
        try:
            o = vlib.run_harness(binary, [x], timeout=120)[0]
        except vlib.Broken:
            return False
        return (not o["prop_ok"]) and o.get("class", "").split(":")[0] == cls.split(":")[0]
    cur = h
    for _ in range(8):
        changed = False
        for i in range(len(cur["steps"])):
            t = dict(cur, steps=cur["steps"][:i] + cur["steps"][i + 1:])
            if fails(t):
                cur, changed = t, True
                break
        if not changed:
            break
    return cur

def build_private():
    """build the harness into a per-process directory: another `./check C04` running at the same time against ANOTHER tree
    (VERIF_REPO=<worktree with a candidate change>) would otherwise replace build/bin/verif_c04 under this run"""
    import atexit
    import shutil
    old = vlib.BUILD
    priv = os.path.join(old, "priv_c04_%d" % os.getpid())
    vlib.BUILD = priv
    try:
        binary = vlib.build_harness("C04")
    finally:
        vlib.BUILD = old
    atexit.register(shutil.rmtree, priv, True)
    return binary


def classify(c, o, flags):
    """map a failing cell to the known defect it manifests (only while the witness of that defect reproduces on this tree)"""
    cls = o.get("class", "")
    if cls.startswith("existing-bridge:") and flags["existing"]:
        return K_EXISTING
    if cls.startswith("cross-node:") and flags["cross"]:
        return K_CROSS
    if cls.endswith(":invalid-mapping") and flags["secret"] and c["secret"] == "right" and not c["resume"]:
        return K_SECRET
    return None


def search_tables(ctx):
    """A side condition broke: look in the regenerated expiry / revoke tables (outputs of the REAL PortMapping methods) for a
    concrete row on which the property's clause 'revoked / expired mappings never yield an attachment' fails."""
    import re
    try:
        txt = open(os.path.join(vlib.COQ, "Gen", "C04.v")).read()
    except OSError:
        return
    tb = lambda x: x == "true"
    m = re.search(r"Definition expiry_table.*?:= \[(.*?)\]\.", txt, re.S)
    for off, past, isexp, isvalid in re.findall(r"\((\d+), (true|false), \((true|false), (true|false)\)\)", m.group(1) if m else ""):
        if tb(isexp) != tb(past) or tb(isvalid) == tb(past):
            when = "no expiry" if off == "0" else "%s ms %s now" % (off, "before" if tb(past) else "after")
            ctx.violation("expiry-predicate", "real PortMapping with ExpiresAt %s (63900000000000 = the zero time.Time, 1700000000000 = Unix epoch): "
                          "IsExpired()=%s IsValid()=%s — an expired mapping is valid (or a live one is not)" % (when, isexp, isvalid),
                          {"case": {"mode": "expiry-row", "offset_ms": int(off), "past": tb(past)}, "observed": {"IsExpired": tb(isexp), "IsValid": tb(isvalid)}})
            break
    m = re.search(r"Definition revoke_table.*?:= \[(.*?)\]\.", txt, re.S)
    pat = r"\(\((\d), (true|false), (\d)\), \((true|false), (true|false), (true|false), \((true|false), (true|false), (true|false)\)\)\)"
    for st, ex, caller, ok, rev, valid, valid2, accl, acct in re.findall(pat, m.group(1) if m else ""):
        if tb(ok) and not (tb(rev) and not tb(valid) and not tb(valid2) and not tb(accl) and not tb(acct)):
            ctx.violation("revoke-not-effective", "real PortMapping.Revoke on a mapping with status %s%s by the %s client reports success, but afterwards "
                          "IsRevoked=%s IsValid=%s; with the status set back to active: IsValid=%s CanBeAccessedBy(listen)=%s CanBeAccessedBy(target)=%s "
                          "— a revoked mapping authorises tunnels" % (["active", "inactive", "error"][int(st)], " (expired)" if tb(ex) else "",
                                                                        ["", "listening", "target", "unrelated"][int(caller)], rev, valid, valid2, accl, acct),
                          {"case": {"mode": "revoke-row", "status": int(st), "expired": tb(ex), "caller": int(caller)},
                           "observed": {"ok": tb(ok), "IsRevoked": tb(rev), "IsValid": tb(valid), "IsValid_reactivated": tb(valid2)}})
            break


def run(ctx, only_cases=None):
    thorough = ctx.tier == "thorough"
    binary = build_private()
    gen_changed = vlib.write_if_changed(os.path.join(vlib.COQ, "Gen", "C04.v"), vlib.harness_text(binary, ["gen"]))
    broken = None
    try:
        pinfo = vlib.coq_properties("C04")
        # Proofs/SideC04.vo (the regenerated side conditions) is a dependency of Properties/C04.v: built and checked by the call above
        vlib.proof_coverage(ctx, pinfo, "make -C coq Properties/C04.vo Proofs/SideC04.vo && coqc Properties/C04.v (Print Assumptions audit)",
                            extra_obligations=9)  # the 9 regenerated side conditions in Proofs/SideC04.v
    except vlib.Broken as b:
        broken = b   # keep going: search the implementation for a concrete failing cell first
        search_tables(ctx)

    rng = ctx.rng
    hists = []
    if only_cases is not None:
        hists = [c for c in only_cases if c.get("mode") == "hist"]
        races = [P_RACE] + [c for c in only_cases if c.get("mode") == "race"]
        xcases = [c for c in only_cases if c.get("mode") == "xnode"]
        cases = list(PROBES) + [c for c in only_cases if c.get("mode") not in ("hist", "race", "xnode")]
    else:
        table = all_cells()
        rng.shuffle(table)                       # arrival order varies with the seed: cells must not influence one another
        cases = list(PROBES) + load_corpus() + table
        if thorough:                             # the whole table again, three more arrival orders
            for _ in range(3):
                t2 = all_cells()
                rng.shuffle(t2)
                cases += t2
        corpus_h = [c for c in cases if c.get("mode") == "hist"]
        races = [P_RACE] + [c for c in cases if c.get("mode") == "race"] + race_cases(rng, thorough) + replace_cases()
        xcases = [c for c in cases if c.get("mode") == "xnode"] + xnode_cases(rng, thorough)
        cases = [c for c in cases if c.get("mode") not in ("hist", "race", "xnode")]
        hists = corpus_h + directed_histories()
        hists += [random_history(rng, False) for _ in range(1500 if thorough else 350)]
        hists += [random_history(rng, True) for _ in range(400 if thorough else 110)]
        hists = [h for h in hists if hist_valid(h)]
        if thorough:
            hists += exhaustive_histories(False, 3) + exhaustive_histories(False, 4) + exhaustive_histories(True, 3)
    outs = vlib.run_harness(binary, cases[:len(PROBES)], timeout=900) + run_sharded(binary, cases[len(PROBES):], 8 if thorough else 5)
    h_local = [h for h in hists if not h["routing"]]
    h_route = [h for h in hists if h["routing"]]
    hists = h_local + h_route
    houts = run_sharded(binary, h_local, 2) + run_sharded(binary, h_route, 12 if thorough else 6)
    routs = vlib.run_harness(binary, races[:1], timeout=300) + run_sharded(binary, races[1:], 4)
    xouts = run_sharded(binary, [{k: v for k, v in c.items() if k not in ("shape", "sep", "reuse")} for c in xcases], 8 if thorough else 4)
    stale_cases = [{"mode": "stale", "change": ch, "secret": sec} for ch in ("revoked", "exp2s", "inactive") for sec in ("none", "right")]
    souts = run_one(binary, stale_cases, 300) if only_cases is None or any(c.get("mode") == "stale" for c in only_cases) else []
    stale_defect = any(o.get("class") == "stale-read" for o in souts)
    transient = []

    def confirmed(case):
        """a failing case is re-run alone three times when the stale-read defect is present on this tree: a deterministic
        breakage reproduces; a single manifestation of the (timing dependent) stale read does not"""
        if not stale_defect:
            return True
        try:
            again = run_one(binary, [{k: v for k, v in case.items() if k != "shape"}] * 3, 300)
        except vlib.Broken:
            return True
        if any(not o["prop_ok"] for o in again):
            return True
        transient.append(case)
        return False
    late_defect = routs[0]["tgt"] == 2          # witness of the interleaving defect: B (mapping 2's target) is target of mapping 1's bridge

    def probe(p):
        return outs[PROBES.index(p)]
    flags = {"existing": probe(P_EXISTING)["role"] != 0, "cross": probe(P_CROSS)["role"] != 0, "secret": probe(P_SECRET)["ack"] == 1}
    vf, si = (not flags["existing"]), (not flags["secret"])
    ctx.coverage["tree_variant"] = {
        "validate_before_dispatch": vf, "secret_path_checks_IsValid": si, "cross_node_validated": not flags["cross"],
        "note": "current (both fixes applied)" if (vf and si and not flags["cross"]) else
                "pinned or partially repaired: fixes/C04-validate-before-attach.diff applied=%s, fixes/C04-secret-path-isvalid.diff applied=%s" % (vf, si)}

    # (iii) the property predicate evaluated on the real code's own outputs
    nfail = 0
    known_counts = {}
    reported = set()
    for c, o in zip(cases, outs):
        if o["prop_ok"]:
            continue
        if o.get("class", "").endswith(":invalid-mapping") and not confirmed(c):
            continue
        key = classify(c, o, flags)
        if key is not None:
            known_counts[key] = known_counts.get(key, 0) + 1
            if key not in reported:
                reported.add(key)
                ctx.violation(key, "real SessionManager.HandlePacket: %s -> %s" % (describe(c), o["prop_msg"]),
                              {"case": c, "observed": o})
            continue
        nfail += 1
        key = "legit-refused" if o.get("class") == "setup" else "unentitled:" + o.get("class", "?") + ":" + cell_key(c)
        if key not in reported and len([k for k in reported if not k.startswith("pinned-")]) < 4:
            reported.add(key)
            ctx.violation(key, "real SessionManager.HandlePacket: %s -> %s" % (describe(c), o["prop_msg"]), {"case": c, "observed": o})
    # legitimate connections must still be attached (a repair that locks everybody out is not a repair)
    for p in P_LEGIT:
        o = probe(p)
        want_role = {"waiting": 2, "remote": 4, "none": 3}[p["tstate"]]
        if o["ack"] != 1 or o["role"] != want_role or (p["tstate"] != "none" and not o["got_bytes"]):
            nfail += 1
            ctx.violation("legit-refused:" + cell_key(p), "real SessionManager.HandlePacket: %s -> ack=%d role=%d got_bytes=%s "
                          "(a legitimate connection must be acknowledged, attached (role %d) and receive the other end's bytes)" % (
                              describe(p), o["ack"], o["role"], o["got_bytes"], want_role), {"case": p, "observed": o})

    # histories: the predicate at every attachment point
    hfail = 0
    for h, o in zip(hists, houts):
        if o["prop_ok"]:
            continue
        if any(st["op"] == "setm" for st in h["steps"]) and not confirmed(h):
            continue
        hfail += 1
        nfail += 1
        key = "hist:" + o.get("class", "?").split(":")[0] + ":" + hist_str(h)
        if len([k for k in reported if k.startswith("hist:")]) < 4 and key not in reported:
            reported.add(key)
            small = shrink_hist(binary, h, o.get("class", ""))
            so = vlib.run_harness(binary, [small])[0]
            if so["prop_ok"]:
                small, so = h, o
            ctx.violation("hist:" + so.get("class", "?").split(":")[0] + ":" + hist_str(small),
                          "real SessionManager.HandlePacket, history [%s]: %s" % (hist_str(small), so["prop_msg"]),
                          {"case": small, "observed": so})
    # stale read after a completed update (deterministic witness, gated storage)
    for c, o in zip(stale_cases, souts):
        if o["prop_ok"]:
            continue
        if o.get("class") == "stale-read":
            if K_STALE not in reported:
                reported.add(K_STALE)
                ctx.violation(K_STALE, "real code, gated storage double: %s" % o["prop_msg"], {"case": c, "observed": o})
        else:
            nfail += 1
            ctx.violation("stale-witness:" + o.get("class", "?"), "stale-read witness: %s" % o["prop_msg"], {"case": c, "observed": o})
    if transient and K_STALE not in reported:
        reported.add(K_STALE)
    # two-request interleavings: the predicate after both requests finished
    rfail = rknown = 0
    for c, o in zip(races, routs):
        if o["prop_ok"]:
            continue
        late = (o.get("class") == "race-attach" and late_defect and o["tgt"] != 0 and o["b_parked"] and
                "is the bridge's target" in o["prop_msg"] or (late_defect and "read bytes" in o["prop_msg"] and o["tgt"] != 0 and o["b_parked"]))
        if late:
            rknown += 1
            if K_RACE not in reported:
                reported.add(K_RACE)
                ctx.violation(K_RACE, "real SessionManager.HandlePacket, interleaving [%s]: %s" % (race_str(c), o["prop_msg"]), {"case": c, "observed": o})
            continue
        rfail += 1
        nfail += 1
        key = "race:" + o.get("class", "?") + ":" + ("replace-%s_" % ("ended" if c.get("end_pre") else "kept") if c.get("pre") else "") + "%s-%s-%s_vs_%s-%s-%s_gate%d" % (c["a"]["who"], c["a"]["mid"], c["a"]["secret"], c["b"]["who"], c["b"]["mid"], c["b"]["secret"], c["gate"])
        if len([k for k in reported if k.startswith("race:")]) < 3:
            reported.add(key)
            ctx.violation(key, "real SessionManager.HandlePacket, interleaving [%s]: %s" % (race_str(c), o["prop_msg"]), {"case": c, "observed": o})
    # two-node scenarios: the predicate across nodes
    xfail = 0
    for c, o in zip(xcases, xouts):
        if o["prop_ok"]:
            continue
        if c.get("sep") and o.get("class") == "xnode-attach" and "which it never named" in o.get("prop_msg", ""):
            if K_SEP not in reported:
                reported.add(K_SEP)
                ctx.violation(K_SEP, "real two-node cluster [%s]: %s" % (xnode_str(c), o["prop_msg"]),
                              {"case": {k: v for k, v in c.items() if k not in ("shape", "sep", "reuse")}, "observed": o})
            continue
        if c.get("reuse") and o.get("class") == "xnode-attach" and "has what it writes delivered" in o.get("prop_msg", ""):
            if K_REUSE not in reported:
                reported.add(K_REUSE)
                ctx.violation(K_REUSE, "real three-node cluster [%s]: %s" % (xnode_str(c), o["prop_msg"]),
                              {"case": {k: v for k, v in c.items() if k not in ("shape", "sep", "reuse")}, "observed": o})
            continue
        xfail += 1
        nfail += 1
        key = "xnode:" + o.get("class", "?") + ":" + re.sub(r"[^A-Za-z0-9]+", "_", xnode_str(c))[:110]
        if len([k for k in reported if k.startswith("xnode:")]) < 3:
            reported.add(key)
            ctx.violation(key, "real two-node cluster (two SessionManagers, CrossNodeListener, dedicated TCP forward) [%s]: %s" % (xnode_str(c), o["prop_msg"]),
                          {"case": {k: v for k, v in c.items() if k != "shape"}, "observed": o})
    for h, o in zip(hists, houts):
        for st, so in zip(h["steps"], o["steps"]):
            if st["op"] == "open" and not st.get("reuse") and so["registered"] != (st["who"] != "none"):
                broken = broken or vlib.Broken("C04 harness: control-connection record does not match the handshake the harness performed",
                                               "%s -> %s" % (hist_str(h), so))

    # (ii) model vs implementation (the variant of the model is the one the witnesses identify)
    hterms = [hist_value([vf, si], h, o) for h, o in zip(hists, houts) if o["prop_ok"] and not o["ambiguous"] and len(o["steps"]) == len(h["steps"])]
    hsrc = [(h, o) for h, o in zip(hists, houts) if o["prop_ok"] and not o["ambiguous"] and len(o["steps"]) == len(h["steps"])]
    rterms, rsrc = [], []
    for c, o in zip(races, routs):
        if o.get("class") == "setup":
            continue
        v = race_value([vf, si], not late_defect, c, o)
        if v is not None:
            rterms.append(v)
            rsrc.append((c, o))
    xterms, xsrc = [], []
    for c, o in zip(xcases, xouts):
        v = xnode_value([vf, si], c, o) if o["prop_ok"] else None
        if v is not None:
            xterms.append(v)
            xsrc.append((c, o))
    terms = [[[vf, si], cell_codes(c), [o["ack"], o["role"], o["entitled"]]] for c, o in zip(cases, outs)]
    # ONE evaluation of the extracted model over all four families, ONE vm_compute cross-check (every call goes through `make`)
    evaluated = {}
    try:
        allt = hterms + rterms + xterms + terms
        ares, apred = vlib.model_eval("C04", allt, predict=True) if allt else ([], [])
        off = 0
        for name, ts in (("h", hterms), ("r", rterms), ("x", xterms), ("c", terms)):
            evaluated[name] = (ares[off:off + len(ts)], apred[off:off + len(ts)])
            off += len(ts)
        hsmall = [i for i in range(len(hterms)) if len(hsrc[i][0]["steps"]) <= 4][:: max(1, len(hterms) // 12)][:12]
        small = list(range(0, min(len(PROBES), len(terms)))) + [rng.randrange(len(cases)) for _ in range(24)]
        rsmall = list(range(0, len(rterms), max(1, len(rterms) // 4)))[:4]
        xsmall = list(range(0, len(xterms), max(1, len(xterms) // 4)))[:4]
        vm_terms = [hterms[i] for i in hsmall] + [terms[i] for i in small] + [rterms[i] for i in rsmall] + [xterms[i] for i in xsmall]
        vm_expect = [evaluated["h"][0][i] for i in hsmall] + [evaluated["c"][0][i] for i in small] + \
                    [evaluated["r"][0][i] for i in rsmall] + [evaluated["x"][0][i] for i in xsmall]
        vm_bad = set(vlib.vm_crosscheck("C04", vm_terms)) if vm_terms else set()
        ext_bad = set(k for k, ok in enumerate(vm_expect) if not ok)
        if vm_bad != ext_bad:
            raise vlib.Broken("extracted runner and vm_compute disagree on the C04 model", "vm=%s extracted=%s" % (sorted(vm_bad), sorted(ext_bad)))
        ctx.coverage["vm_compute_crosschecked_cases"] = len(vm_terms)
    except vlib.Broken as b:
        broken = broken or b
        evaluated = {}
    hmism = []
    try:
        if hterms and "h" in evaluated:
            hres, hpred = evaluated["h"]
            hmism = [i for i, ok in enumerate(hres) if not ok]
            for i in hmism[:2]:
                ctx.violation("model-mismatch-history", "Corr/C04.check_hist: Model/TunnelOpen.v `run` and the real SessionManager disagree on the history "
                              "[%s]: model predicts per step [ack, role, snapshot]=%s, observed %s; the history theorems of Properties/C04.v no "
                              "longer speak about this code" % (hist_str(hsrc[i][0]), hpred[i], [[x["ack"], x["role"], x["snap"]] for x in hsrc[i][1]["steps"]]),
                              {"case": hsrc[i][0], "observed": hsrc[i][1], "model": hpred[i]}, found_input=False)
    except vlib.Broken as b:
        broken = broken or b
    rmism = []
    try:
        if rterms and "r" in evaluated:
            rres, rpred = evaluated["r"]
            rmism = [i for i, ok in enumerate(rres) if not ok]
            for i in rmism[:2]:
                ctx.violation("model-mismatch-interleaving", "Corr/C04.check_race: Model/TunnelRace.v (late_agree=%s) and the real SessionManager disagree on "
                              "[%s]: model predicts [bridge mapping, source, target]=%s, observed %s; the interleaving theorems of Properties/C04.v no "
                              "longer speak about this code" % (not late_defect, race_str(rsrc[i][0]), rpred[i], [rsrc[i][1]["mid_end"], rsrc[i][1]["src"], rsrc[i][1]["tgt"]]),
                              {"case": rsrc[i][0], "observed": rsrc[i][1], "model": rpred[i]}, found_input=False)
    except vlib.Broken as b:
        broken = broken or b
    xmism = []
    try:
        if xterms and "x" in evaluated:
            xres, xpred = evaluated["x"]
            xmism = [i for i, ok in enumerate(xres) if not ok]
            for i in xmism[:2]:
                ctx.violation("model-mismatch-two-node", "Corr/C04.check_cross: Model/TunnelCross.v and the real two-node cluster disagree on [%s]: model predicts "
                              "[bridge mapping, bridge source, record mapping, R forwarded]=%s, observed %s; the cross-node theorem of Properties/C04.v no "
                              "longer speaks about this code" % (xnode_str(xsrc[i][0]), xpred[i], xterms[i][6]),
                              {"case": {k: v for k, v in xsrc[i][0].items() if k != "shape"}, "observed": xsrc[i][1], "model": xpred[i]}, found_input=False)
    except vlib.Broken as b:
        broken = broken or b
    mism = []
    try:
        res, pred = evaluated.get("c", ([True] * len(terms), [None] * len(terms)))
        mism = [i for i, ok in enumerate(res) if not ok]
        for i in mism[:3]:
            if outs[i]["prop_ok"] or classify(cases[i], outs[i], flags) is not None:
                ctx.violation("model-mismatch", "Corr/C04.check: Model/TunnelOpen.v (validate_first=%s, secret_isvalid=%s) and the real "
                              "dispatcher disagree on the cell [%s]: model predicts [ack, role, entitled]=%s, observed ack=%d role=%d entitled=%s; "
                              "the theorems of Properties/C04.v no longer speak about this code" % (
                                  vf, si, describe(cases[i]), pred[i], outs[i]["ack"], outs[i]["role"], outs[i]["entitled"]),
                              {"case": cases[i], "observed": outs[i], "model": pred[i]}, found_input=False)
    except vlib.Broken as b:
        broken = broken or b

    # coverage
    distinct = {}
    for c, o in zip(cases, outs):
        distinct[cell_key(c)] = (c, o)
    nontrivial = [k for k, (c, o) in distinct.items() if c["tstate"] != "none" or o["ack"] == 1]
    dist = {"cells_per_identity": {i: sum(1 for k, (c, _) in distinct.items() if c["id"] == i) for i in IDS},
            "cells_per_tunnel_state": {t: sum(1 for k, (c, _) in distinct.items() if c["tstate"] == t) for t in TSTATES},
            "cells_per_mapping_state": {t: sum(1 for k, (c, _) in distinct.items() if c["mstate"] == t) for t in MSTATES},
            "entitled_cells": sum(1 for k, (c, o) in distinct.items() if o["entitled"]),
            "observed_ack_role": {}}
    for k, (c, o) in distinct.items():
        kk = "ack=%d,role=%d" % (o["ack"], o["role"])
        dist["observed_ack_role"][kk] = dist["observed_ack_role"].get(kk, 0) + 1
    h_nontrivial = set()
    h_parked = h_resolved_attached = h_attach = 0
    for h, o in zip(hists, houts):
        roles = [so["role"] for st, so in zip(h["steps"], o["steps"]) if st["op"] == "open"]
        h_parked += roles.count(6)
        h_attach += sum(1 for r in roles if r in (1, 2, 3, 4))
        prev_parked = 0
        for so in o["steps"]:
            if so["snap"][9] < prev_parked and (so["snap"][3] or so["snap"][7] or so["snap"][8]):
                h_resolved_attached += 1
            prev_parked = so["snap"][9]
        if sum(1 for r in roles if r != 0) >= 1 and len(h["steps"]) >= 2:
            h_nontrivial.add(hist_str(h))
    samples = []
    for p in (P_EXISTING, P_LEGIT[0], P_CROSS):
        o = probe(p)
        samples.append({"cell": p, "reads": describe(p), "observed": {k: o[k] for k in ("ack", "role", "got_bytes", "marker_at", "entitled", "prop_ok")}})
    ctx.coverage.update({
        "evaluations": len(cases) + len(hists) + len(races) + len(xcases) + len(souts), "distinct_nontrivial": len(nontrivial) + len(h_nontrivial), "exhaustive": only_cases is None,
        "stale_read_witness": {"driven": len(souts), "update_completed_then_open_accepted": sum(1 for o in souts if o.get("class") == "stale-read"),
                               "defect_present": stale_defect, "transient_failures_not_reproduced_in_3_reruns": len(transient),
                               "transient_cases": [hist_str(t) if t.get("mode") == "hist" else cell_key(t) for t in transient[:5]]},
        "two_node": {"driven": len(xcases), "forwarded_across_nodes": sum(1 for o in xouts for r in o["opens"] if r[1] == 4),
                     "cross_node_readers": sum(len(o["readers"] or []) for o in xouts), "gated_requests": sum(1 for c in xcases for st in c["steps"] if st.get("gate")),
                     "model_vs_impl": len(xterms), "model_vs_impl_mismatches": len(xmism), "predicate_failures": xfail,
                     "samples": [{"case": xnode_str(c), "observed": {k: o[k] for k in ("opens", "tuns", "readers")}} for c, o in list(zip(xcases, xouts))[:2]]},
        "interleavings": {"driven": len(races), "b_parked": sum(1 for o in routs if o["b_parked"]),
                          "parked_at_ack_write": sum(1 for c, o in zip(races, routs) if o["b_parked"] and c["gate"] == 0),
                          "both_attached_or_replaced": sum(1 for o in routs if o["src"] and o["tgt"]),
                          "bridge_replacement_cases": sum(1 for c in races if c.get("pre")), "bridges_ended_while_a_request_was_parked": sum(1 for o in routs if o.get("ended")),
                          "model_vs_impl": len(rterms), "model_vs_impl_mismatches": len(rmism), "predicate_failures": rfail,
                          "known_defect_cases": rknown, "late_agreement_check_present": not late_defect,
                          "samples": [{"case": race_str(c), "observed": {k: o[k] for k in ("b_parked", "ack_a", "ack_b", "mid_end", "src", "tgt", "readers")}}
                                      for c, o in list(zip(races, routs))[:2]]},
        "histories": {"driven": len(hists), "with_routing_table": len(h_route), "distinct_nontrivial": len(h_nontrivial),
                      "steps_total": sum(len(h["steps"]) for h in hists), "parked_requests": h_parked, "parked_then_attached_or_forwarded": h_resolved_attached,
                      "attachments_checked": h_attach, "ambiguous_skipped_in_diff": sum(1 for o in houts if o["ambiguous"]),
                      "model_vs_impl_histories": len(hterms), "model_vs_impl_mismatches": len(hmism), "predicate_failures": hfail,
                      "directed": len(directed_histories()), "exhaustive_small_alphabet": thorough and only_cases is None,
                      "samples": [{"history": hist_str(h), "observed": [[x["ack"], x["role"], x["snap"]] for x in o["steps"]], "readers": o["readers"]}
                                  for h, o in list(zip(hists, houts))[:: max(1, len(hists) // 3)][:3]]},
        "rule": "the full table identity(5: none/half-handshaken/listen/target/stranger) x named mapping(3: none/the tunnel's/another one owned by "
                "the requester) x secret(10) x resume token(2) x state of the named mapping(10) x tunnel state at arrival(4: no bridge / bridge "
                "waiting locally / bridge already served / waiting on another node via the routing table) = 12000 cells for ordinary mappings + a 270-cell sub-table of mappings that store NO secret + a 1080-cell sub-table with the mapping-party dimension (stored listening client id 0 = server-side listener, started by the server itself through StartServerTunnel; stored target client id 0) (mapping state: active / revoked / expired an hour, 25 s, 10 s, 2 s, 1 ms ago / expiring in 60 s / inactive / missing; secret: none / right / unrelated / first character / all but last / all but first / right+1 / case flipped / one character changed / another mapping's secret), every one driven through "
                "the real SessionManager.HandlePacket on fresh connections, mappings and tunnel ids of a fully wired server fixture (real "
                "handshakes, real bridge, real routing table and dedicated cross-node connection to a fake peer node); witnesses and corpus "
                "first, arrival order shuffled from VERIF_SEED (thorough: four orders). distinct = distinct cells; non-trivial = a tunnel "
                "existed at arrival or the request was acknowledged with success. PLUS multi-step histories through the same real dispatcher: "
                "directed ones (accepted open -> revoke/expire/deactivate/delete -> open again; a request parked in the routing poll before its "
                "tunnel exists -> the tunnel appears for another / for its own mapping, locally or as a routing record) and random ones from "
                "VERIF_SEED over opens by 6 identities x 3 mappings x 3 secrets on 2 tunnel ids, mapping state changes, routing records of "
                "another node, bridge closures and delays (thorough: also every history of depth 3-4 over a 9-letter single-node alphabet and of "
                "depth 3 over an 8-letter routing alphabet); the predicate is evaluated at every attachment point and every history is diffed "
                "step by step against Model.TunnelOpen.run. distinct non-trivial history = distinct step list with >= 2 steps in which some open "
                "was acknowledged, attached or parked.",
        "samples": samples,
        "model_vs_impl_cases": len(terms), "model_vs_impl_mismatches": len(mism),
        "impl_property_failures": nfail, "impl_known_defect_cells": known_counts,
        "input_distribution": dist, "generated_file_changed": gen_changed,
    })
    ctx.assumptions += [
        "transport: stream connections whose reader carries no client identity (TCP-like): extractClientID(stream)=0, no temporary control connection",
        "authentication of a connection (handshake) is taken as given per request: c_registered / c_client are inputs of the model (C03/C07 own them)",
        "resume tokens: the cloud control wired into ServerTunnelHandler does not implement ValidateTunnelResumeToken (regenerated side condition ResumeSupported=false)",
        "cross-node: node-to-node trust (CrossNodeListener accepting TargetReady frames from peers) is outside the property; the peer node is a fake TCP listener",
        "handleLocalBridgeWait (routing entry pointing at this node without a local bridge) is modelled (WaitLocal) and covered by the theorems but not driven on the real code (5 s polling loop)",
        "no-bridge cells run on a fixture without routing table (a legitimate target with no bridge anywhere otherwise polls the routing table for 10 s)",
        "concurrent TunnelOpen packets for the same tunnel id are serialised in the model (one open is atomic); histories in which two requests are parked on one tunnel id at once are checked by the predicate but not diffed (resolution order is the scheduler's)",
        "histories never touch a tunnel id again after its bridge was closed (the real lifecycle goroutine removes map and routing entries asynchronously) and never re-use a connection for a second TunnelOpen",
        "nodes: a real three-node cluster inside one process (three SessionManagers over one storage, real routing table, TunnelConnectionManager and CrossNodeListener over loopback TCP); node-to-node frames are trusted by design (the bridge node compares nothing), which is why the record/bridge agreement is checked as an invariant of its own",
        "expiry boundary: the code reads time.Now() directly, so ExpiresAt is set 25 s / 10 s / 2 s / 1 ms before (or 60 s after) the moment the mapping is stored; the request follows within milliseconds",
        "interleavings: request A is atomic with respect to request B (B is parked at ONE point: its n-th storage read of its mapping, or its acknowledgement write), both orders; the model (Base/Threads) covers every schedule of any number of requests at the granularity lookup / create-attach",
        "a parked request is recognised by the harness as: success ack written, no routing record visible, call still inside HandlePacket after 120 ms",
    ]
    if broken is not None:
        raise broken


def replay(ctx, path):
    r = json.load(open(path))
    if r["replay"].get("case", {}).get("mode") in ("expiry-row", "revoke-row"):
        # rows of the regenerated tables: regenerate them from the current tree and look again
        vlib.write_if_changed(os.path.join(vlib.COQ, "Gen", "C04.v"), vlib.harness_text(build_private(), ["gen"]))
        search_tables(ctx)
        return
    run(ctx, only_cases=[r["replay"]["case"]])

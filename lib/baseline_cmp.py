#!/usr/bin/env python3
"""baseline_cmp.py <go test -json output>: pass/fail counts and failing tests outside BASELINE.json's always_fail/flaky"""
import json, sys
b = json.load(open('/root/.vp/BASELINE.json'))
known = set(b.get('always_fail', [])) | set(b.get('flaky', []))
p = f = 0
bad = []
for l in open(sys.argv[1]):
    try:
        e = json.loads(l)
    except Exception:
        continue
    if e.get('Test') and e.get('Action') in ('pass', 'fail'):
        if e['Action'] == 'pass':
            p += 1
        else:
            f += 1
            n = e['Package'] + '::' + e['Test']
            if n not in known:
                bad.append(n)
print('pass', p, 'fail', f, 'unexpected failures:', bad)

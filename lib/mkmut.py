#!/usr/bin/env python3
"""mkmut.py Cnn — create a scratch worktree + prompt for an independent seeding agent"""
import json, subprocess, sys, os
pid = sys.argv[1]
props = {json.loads(l)['id']: json.loads(l) for l in open('/verif/properties.jsonl')}
base = open('/verif/lib/MUT_PROMPT.txt').read()
wt = '/tmp/mut_%s' % pid.lower()
subprocess.run(['git', '-C', '/repo', 'worktree', 'add', '-q', wt, 'HEAD'], check=True)
p = props[pid]
txt = json.dumps({k: p[k] for k in ('id', 'title', 'statement', 'quantifier', 'anchors')}, indent=1, ensure_ascii=False)
open(wt + '_prop.json', 'w').write(txt)
os.makedirs('/verif/build/prompts', exist_ok=True)
open('/verif/build/prompts/mut_%s.txt' % pid, 'w').write(base.replace('WT', wt).replace('OUT', wt + '_out').replace('PROPTEXT', txt))
print(wt)

#!/usr/bin/env python3
"""mkmut.py Cnn — create a scratch worktree + prompt for an independent seeding agent"""
import json, subprocess, sys, os
pid = sys.argv[1]
round_tag = sys.argv[2] if len(sys.argv) > 2 else ''
props = {json.loads(l)['id']: json.loads(l) for l in open('/verif/properties.jsonl')}
base = open('/verif/lib/MUT_PROMPT.txt').read()
wt = '/tmp/mut_%s%s' % (pid.lower(), round_tag)
subprocess.run(['git', '-C', '/repo', 'worktree', 'add', '-q', wt, 'HEAD'], check=True)
p = props[pid]
txt = json.dumps({k: p[k] for k in ('id', 'title', 'statement', 'quantifier', 'anchors')}, indent=1, ensure_ascii=False)
open(wt + '_prop.json', 'w').write(txt)
os.makedirs('/verif/build/prompts', exist_ok=True)
import glob
avoid = []
for m in sorted(glob.glob('/verif/seeded/%s-*/meta.json' % pid)):
    avoid.append('- ' + json.load(open(m))['summary'])
extra = ''
if avoid:
    extra = '\n\nThese ideas have ALREADY been used by earlier rounds — produce three DIFFERENT ones (different functions, mechanisms or trigger conditions):\n' + '\n'.join(avoid) + '\n'
open('/verif/build/prompts/mut_%s%s.txt' % (pid, round_tag), 'w').write(base.replace('WT', wt).replace('OUT', wt + '_out').replace('PROPTEXT', txt + extra))
print(wt)

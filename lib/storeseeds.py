#!/usr/bin/env python3
"""storeseeds.py <json-file>: [{"pid":"C17","src":"/tmp/mut_c17r3_out/1","summary":..,"needs":..,"caught_by":..}, ...] -> seeded/Cnn-k (next free k)"""
import json, os, shutil, sys, glob, re
V = ("written by an independent sub-agent given only the property text (+ the list of ideas already used) and a scratch worktree; patch applies "
     "to the /repo HEAD of its round with git apply; go build ./... and the affected packages' existing tests pass with it; demo test fails with "
     "and passes without (agent's report); integrator ran ./check %s on a scratch copy of /repo HEAD with the patch applied (lib/seedtest.sh) "
     "and on the unchanged tree.")
for e in json.load(open(sys.argv[1])):
    pid = e["pid"]
    ks = [int(re.search(r'-(\d+)$', d).group(1)) for d in glob.glob('/verif/seeded/%s-*' % pid)]
    k = max(ks + [0]) + 1
    dst = '/verif/seeded/%s-%d' % (pid, k)
    os.makedirs(dst)
    for f in os.listdir(e["src"]):
        shutil.copy(os.path.join(e["src"], f), dst)
    json.dump({"property": pid, "summary": e["summary"], "needs": e["needs"], "caught_by": e["caught_by"], "verified": V % pid},
              open(dst + '/meta.json', 'w'), indent=1)
    print(dst)

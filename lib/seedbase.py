#!/usr/bin/env python3
"""seedbase.py: record in every seeded/*/meta.json the newest /repo commit its patch applies to (applies_to) and whether that is HEAD"""
import glob, json, os, subprocess
def sh(*a, cwd=None):
    return subprocess.run(a, cwd=cwd, stdout=subprocess.PIPE, stderr=subprocess.PIPE, text=True)
head = sh('git', '-C', '/repo', 'rev-parse', '--short', 'HEAD').stdout.strip()
commits = sh('git', '-C', '/repo', 'log', '--format=%h', '-n', '120').stdout.split()
W = '/tmp/seedbase_wt'
sh('git', '-C', '/repo', 'worktree', 'remove', '--force', W)
stale = []
for d in sorted(glob.glob('/verif/seeded/*/')):
    p = os.path.join(d, 'patch.diff')
    m = json.load(open(os.path.join(d, 'meta.json')))
    if sh('git', '-C', '/repo', 'apply', '--check', p).returncode == 0:
        m['applies_to'] = head + ' (HEAD when last checked)'
    else:
        stale.append((d, p, m))
        continue
    json.dump(m, open(os.path.join(d, 'meta.json'), 'w'), indent=1)
if stale:
    sh('git', '-C', '/repo', 'worktree', 'add', '--detach', W, 'HEAD')
    for d, p, m in stale:
        found = None
        for c in commits:
            sh('git', 'checkout', '-q', '--detach', c, cwd=W)
            if sh('git', 'apply', '--check', p, cwd=W).returncode == 0:
                found = c
                break
        m['applies_to'] = (found or 'unknown') + ' (no longer applies textually to HEAD %s: a later fix: commit rewrote the same lines)' % head
        json.dump(m, open(os.path.join(d, 'meta.json'), 'w'), indent=1)
        print(os.path.basename(d.rstrip('/')), m['applies_to'])
    sh('git', '-C', '/repo', 'worktree', 'remove', '--force', W)

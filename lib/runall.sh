#!/bin/bash
# run every claimed quick check once and print one line per property
cd /verif
for p in $(cat lib/claimed.txt | sort); do ./check $p 2>&1 | grep -E "^(VIOLATION|OK|FAIL)" | head -2 | tr '\n' ' '; echo; done

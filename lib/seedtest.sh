#!/bin/bash
# seedtest.sh Cnn <dir-with-1,2,3/patch.diff> — run ./check Cnn on scratch copies of /repo HEAD with each patch applied (never touches /repo)
P=$1; D=$2
for k in 1 2 3; do
  [ -f $D/$k/patch.diff ] || continue
  W=/tmp/st_${P}_$k
  git -C /repo worktree remove --force $W 2>/dev/null; rm -rf $W
  git -C /repo worktree add -q $W HEAD || continue
  if git -C $W apply $D/$k/patch.diff; then
    VERIF_REPO=$W timeout 1500 /verif/check $P > /tmp/st_${P}_$k.log 2>&1
    echo "$P-$k rc=$? $(grep -E '^(VIOLATION|OK|FAIL)' /tmp/st_${P}_$k.log | head -4 | tr '\n' ' ')"
  else echo "$P-$k patch does not apply"; fi
  git -C /repo worktree remove --force $W; rm -rf $W
done

#!/usr/bin/env python3
"""fixmark.py Cnn 'substr=hash' ... [--drop-known key1,key2|ALL]: set fixed: hashes and drop known: lines of repaired defects"""
import sys, re
pid = sys.argv[1]
pairs = [a.split('=', 1) for a in sys.argv[2:] if '=' in a and not a.startswith('--')]
drop = None
for a in sys.argv[2:]:
    if a.startswith('--drop-known='):
        drop = a.split('=', 1)[1]
p = '/verif/known_findings.d/%s.txt' % pid
out = []
for l in open(p):
    if l.startswith('known:') and drop:
        m = re.search(r'key=(\S+)', l)
        if drop == 'ALL' or (m and m.group(1) in drop.split(',')):
            continue
    if l.startswith('fixed:'):
        for sub, h in pairs:
            if sub in l:
                l = l.replace('PENDING', h)
    if l.startswith('#') and ('PENDING' in l or 'not yet applied' in l or 'DELETE the matching' in l or 'otherwise a later revert' in l or 'auto-detects' in l):
        continue
    out.append(l)
open(p, 'w').write(''.join(out))
print(''.join(out)[:1200])

#!/usr/bin/env python3
"""Regenerates MANIFEST.json from lib/manifest_entries.json (one entry per claimed property)."""
import json, os
HERE = os.path.dirname(os.path.dirname(os.path.abspath(__file__)))
import glob
ent = json.load(open(os.path.join(HERE, "lib", "manifest_entries.json")))
ent["claimed"] = {}
allow = set(open(os.path.join(HERE, "lib", "claimed.txt")).read().split())   # integrated and verified by the integrator
for f in sorted(glob.glob(os.path.join(HERE, "lib", "manifest.d", "C*.json"))):
    if os.path.basename(f)[:-5] in allow:
        ent["claimed"][os.path.basename(f)[:-5]] = json.load(open(f))
props = [json.loads(l)["id"] for l in open(os.path.join(HERE, "properties.jsonl"))]
checks = []
for pid in props:
    if pid not in ent["claimed"]:
        continue
    e = ent["claimed"][pid]
    checks.append({
        "property_id": pid,
        "quick_cmd": "./check %s --tier quick" % pid,
        "thorough_cmd": "./check %s --tier thorough" % pid,
        "evidence_file": "evidence/%s.json" % pid,
        "replay_cmd_template": "./check %s --replay {path}" % pid,
        "engine": "coq-model+go-correspondence",
        "level_claimed": {"category": "proof", "text": e["text"], "design_ref": "DESIGN.md section 2, %s" % pid},
        "level_note": e["note"],
        "technique": e["technique"],
    })
na = [{"property_id": p, "reason": ent["not_applicable"].get(p, "check not built yet in this round; see DESIGN.md section 3 for the plan")}
      for p in props if p not in ent["claimed"]]
m = {
    "version": 1,
    "setup_cmd": "./check setup",
    "hooks": {
        "guard": "verif",
        "enable": "go build -tags verif -overlay build/overlay_<prop>.json (harness and export shims live under /verif/harness and are mapped into the module; no file is added to /repo)",
        "baseline_off_cmd": "cd /repo && go test -mod=mod -json -vet=off -count=1 -timeout 25m ./...",
        "source_commits": [],
        "add_only": True,
    },
    "engines": [{"name": "coq-model+go-correspondence", "path": "coq/ lib/ harness/ runner/",
                 "serves_properties": [c["property_id"] for c in checks],
                 "kind_free_text": "Coq 8.16 theorems about executable Gallina models; models tied to /repo by regenerated constants/tables (Gen/*.v + re-proved side conditions) and by a differential correspondence run (real Go code vs extracted model, vm_compute cross-check)"}],
    "checks": checks,
    "not_applicable": na,
    "notes": ent.get("notes", ""),
}
json.dump(m, open(os.path.join(HERE, "MANIFEST.json"), "w"), indent=1)
print("MANIFEST.json: %d checks, %d not claimed" % (len(checks), len(na)))

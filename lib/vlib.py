"""Shared machinery for the tunnox-core verification checks (see DESIGN.md section 1)."""
import glob
import hashlib
import json
import os
import random
import re
import shutil
import subprocess
import sys
import time

VERIF = os.path.dirname(os.path.dirname(os.path.abspath(__file__)))
REPO = os.environ.get("VERIF_REPO", "/repo")
COQ = os.path.join(VERIF, "coq")
BUILD = os.path.join(VERIF, "build")
HARNESS = os.path.join(VERIF, "harness")
GUARD = "verif"

GOENV = dict(os.environ)
GOENV.update({"GOFLAGS": "-mod=mod", "GOPROXY": "off", "CGO_ENABLED": "0"})
GOENV.pop("GOTOOLCHAIN", None) if os.environ.get("GOTOOLCHAIN") == "local" else None

ALLOWED_AXIOMS = {
    # axioms declared by Coq's standard library that DESIGN.md section 4 names; none is currently used
    "functional_extensionality_dep", "eq_rect_eq", "JMeq_eq", "proof_irrelevance", "classic",
}

FORBIDDEN = re.compile(
    r"\b(Admitted|admit|Axiom|Axioms|Parameter|Parameters|Conjecture|Conjectures|Abort All)\b"
    r"|Unset\s+Guard|bypass_check|type-in-type|impredicative-set|Admit\s+Obligations|Unset\s+Positivity"
    r"|Unset\s+Universe\s+Checking|native_compute")


class Broken(Exception):
    """A proof obligation, the translator or the correspondence harness no longer checks."""

    def __init__(self, what, detail=""):
        super().__init__(what)
        self.what = what
        self.detail = detail


def sh(cmd, cwd=None, env=None, timeout=None, inp=None):
    p = subprocess.run(cmd, cwd=cwd, env=env, input=inp, stdout=subprocess.PIPE, stderr=subprocess.PIPE,
                       timeout=timeout, text=True, shell=isinstance(cmd, str))
    return p.returncode, p.stdout, p.stderr


# ----------------------------------------------------------------------------------------------
# Go harness (compiled INTO the repo's module with -overlay; /repo is never written)
# ----------------------------------------------------------------------------------------------

def _repo_tag():
    """separate build outputs per source tree, so concurrent runs with different VERIF_REPO do not overwrite each other"""
    return "" if REPO == "/repo" else "_" + hashlib.sha256(REPO.encode()).hexdigest()[:8]


def overlay_for(prop):
    """harness/common/*.go + harness/cmd/<prop>/*.go -> /repo/cmd/verif_<prop>/ ;
    harness/cmd/<prop>/shims/<pkg path>/*.go -> /repo/<pkg path>/zz_verif_<prop>_*.go (only for that property's binary)"""
    rep = {}
    name = prop.lower()
    vdir = os.path.join(REPO, "cmd", "verif_" + name)
    for f in sorted(glob.glob(os.path.join(HARNESS, "common", "*.go"))):
        rep[os.path.join(vdir, "zz_common_" + os.path.basename(f))] = f
    for f in sorted(glob.glob(os.path.join(HARNESS, "cmd", name, "*.go"))):
        rep[os.path.join(vdir, os.path.basename(f))] = f
    shim_root = os.path.join(HARNESS, "cmd", name, "shims")
    for root, _, files in os.walk(shim_root):
        for fn in files:
            if fn.endswith(".go"):
                rel = os.path.relpath(root, shim_root)
                rep[os.path.join(REPO, rel, "zz_verif_%s_%s" % (name, fn))] = os.path.join(root, fn)
    # optional shared server fixture (real wiring of SessionManager + handlers): opt in with a USE_FIXTURE marker file
    if os.path.exists(os.path.join(HARNESS, "cmd", name, "USE_FIXTURE")):
        fx_root = os.path.join(HARNESS, "fixture")
        for root, _, files in os.walk(fx_root):
            for fn in files:
                if fn.endswith(".go"):
                    rel = os.path.relpath(root, fx_root)
                    rep[os.path.join(REPO, rel, "zz_verif_fixture_" + fn)] = os.path.join(root, fn)
    os.makedirs(BUILD, exist_ok=True)
    path = os.path.join(BUILD, "overlay_%s%s.json" % (name, _repo_tag()))
    with open(path, "w") as fh:
        json.dump({"Replace": rep}, fh, indent=1)
    return path


def build_harness(prop):
    name = prop.lower()
    ov = overlay_for(prop)
    out = os.path.join(BUILD, "bin", "verif_" + name + _repo_tag())
    os.makedirs(os.path.dirname(out), exist_ok=True)
    rc, so, se = sh(["go", "build", "-tags", GUARD, "-overlay", ov, "-o", out, "./cmd/verif_" + name],
                    cwd=REPO, env=GOENV, timeout=900)
    if rc != 0:
        raise Broken("harness build (go build -tags verif -overlay) for %s" % prop, (so + se)[-4000:])
    return out


def run_harness(binary, cases, args=(), timeout=600, env=None):
    """cases: list of JSON-able dicts, one per line; returns list of decoded output lines."""
    inp = "".join(json.dumps(c, separators=(",", ":")) + "\n" for c in cases)
    e = dict(os.environ)
    if env:
        e.update(env)
    try:
        p = subprocess.run([binary] + list(args), input=inp, stdout=subprocess.PIPE, stderr=subprocess.PIPE,
                           text=True, timeout=timeout, env=e)
    except subprocess.TimeoutExpired as ex:
        raise Broken("harness %s timed out after %ss" % (os.path.basename(binary), timeout), str(ex)[-2000:])
    if p.returncode != 0:
        raise Broken("harness %s exited %d" % (os.path.basename(binary), p.returncode), (p.stderr or "")[-4000:])
    outs = [json.loads(l) for l in p.stdout.splitlines() if l.strip()]
    if len(outs) != len(cases):
        raise Broken("harness %s returned %d results for %d cases" % (os.path.basename(binary), len(outs), len(cases)),
                     (p.stderr or "")[-2000:])
    return outs


def harness_text(binary, args, timeout=120):
    rc, so, se = sh([binary] + list(args), timeout=timeout)
    if rc != 0:
        raise Broken("harness %s %s exited %d" % (os.path.basename(binary), " ".join(args), rc), se[-3000:])
    return so


# ----------------------------------------------------------------------------------------------
# Coq
# ----------------------------------------------------------------------------------------------

def coq_files():
    fs = []
    for d in ("Base", "Gen", "Model", "Proofs", "Properties", "Corr"):
        fs += sorted(glob.glob(os.path.join(COQ, d, "*.v")))
    return [os.path.relpath(f, COQ) for f in fs]


def coq_prepare():
    files = coq_files()
    proj = "-R . TX\n-arg -w -arg -notation-overridden,-deprecated-hint-without-locality,-deprecated-instance-without-locality\n" + "\n".join(files) + "\n"
    pp = os.path.join(COQ, "_CoqProject")
    old = open(pp).read() if os.path.exists(pp) else None
    if old != proj or not os.path.exists(os.path.join(COQ, "Makefile")):
        with open(pp, "w") as fh:
            fh.write(proj)
        rc, so, se = sh(["coq_makefile", "-f", "_CoqProject", "-o", "Makefile"], cwd=COQ)
        if rc != 0:
            raise Broken("coq_makefile", so + se)


def write_if_changed(path, text):
    os.makedirs(os.path.dirname(path), exist_ok=True)
    if os.path.exists(path) and open(path).read() == text:
        return False
    tmp = "%s.tmp%d" % (path, os.getpid())   # atomic: a concurrent coqdep/make of another property never sees half a file
    with open(tmp, "w") as fh:
        fh.write(text)
    os.replace(tmp, path)
    return True


class _CoqLock:
    """one Coq build at a time across concurrently running checks (they share coq/ and its Makefile / .Makefile.d);
    re-entrant within a process"""
    depth = 0
    fh = None

    def __enter__(self):
        if _CoqLock.depth == 0:
            os.makedirs(BUILD, exist_ok=True)
            _CoqLock.fh = open(os.path.join(BUILD, "coq.lock"), "w")
            import fcntl
            fcntl.flock(_CoqLock.fh, fcntl.LOCK_EX)
        _CoqLock.depth += 1

    def __exit__(self, *a):
        _CoqLock.depth -= 1
        if _CoqLock.depth == 0:
            import fcntl
            fcntl.flock(_CoqLock.fh, fcntl.LOCK_UN)
            _CoqLock.fh.close()
            _CoqLock.fh = None


def coq_lock():
    return _CoqLock()


def coq_make(targets, timeout=1500, jobs=16):
    with coq_lock():
        coq_prepare()
        rc, so, se = sh(["make", "-j%d" % jobs] + list(targets), cwd=COQ, timeout=timeout)
    if rc != 0:
        m = re.findall(r'File "\./([^"]+)", line (\d+)[^\n]*\n((?:.*\n){0,12})', so + se)
        where = "; ".join("%s:%s" % (a, b) for a, b, _ in m[:3]) or "make failed"
        raise Broken("Coq build: %s" % where, (so + se)[-4000:])
    return so


def coq_closure(roots):
    """transitive TX-internal dependencies of the given .v files (relative to coq/)"""
    seen, todo = [], list(roots)
    while todo:
        f = todo.pop()
        if f in seen or not os.path.exists(os.path.join(COQ, f)):
            continue
        seen.append(f)
        txt = re.sub(r"\(\*.*?\*\)", "", open(os.path.join(COQ, f)).read(), flags=re.S)
        for m in re.finditer(r"From\s+TX\s+Require\s+(?:Import\s+|Export\s+)?([^.]*(?:\.[A-Za-z_][^.]*)*)\.\s", txt):
            for mod in m.group(1).split():
                todo.append(mod.replace(".", "/") + ".v")
        for m in re.finditer(r"Require\s+(?:Import\s+|Export\s+)?((?:TX\.[\w.]+\s*)+)\.", txt):
            for mod in m.group(1).split():
                todo.append(mod[3:].replace(".", "/") + ".v")
    return sorted(seen)


def coq_audit(prop=None):
    """No Admitted/admit/Axiom/Parameter/... in the development this property depends on
    (whole development when prop is None)."""
    bad = []
    files = coq_files() if prop is None else coq_closure(
        ["Properties/%s.v" % prop, "Corr/%s.v" % prop, "Extract/%s.v" % prop, "Proofs/Side%s.v" % prop])
    for f in files:
        txt = open(os.path.join(COQ, f)).read()
        txt = re.sub(r"\(\*.*?\*\)", "", txt, flags=re.S)
        for i, line in enumerate(txt.splitlines(), 1):
            if FORBIDDEN.search(line):
                bad.append("%s:%d: %s" % (f, i, line.strip()))
    if bad:
        raise Broken("forbidden construct in the Coq development", "\n".join(bad))


def coq_properties(prop):
    """Compile Properties/<prop>.v (after its dependencies) and audit its Print Assumptions output.
    Returns dict(theorems=[names], closed=n, axioms=[...], log=str)."""
    rel = "Properties/%s.v" % prop
    src = open(os.path.join(COQ, rel)).read()
    nocom = re.sub(r"\(\*.*?\*\)", "", src, flags=re.S)
    # hygiene: only statements closed by `exact`, plus Print Assumptions
    thms = re.findall(r"^\s*(?:Theorem|Corollary)\s+(\w+)", nocom, flags=re.M)
    proofs = re.findall(r"^\s*(?:Theorem|Corollary)\s+\w+.*?Proof\.(.*?)Qed\.", nocom, flags=re.S | re.M)
    if len(proofs) != len(thms):
        raise Broken("Properties/%s.v: %d theorems but %d Proof..Qed blocks" % (prop, len(thms), len(proofs)))
    if re.search(r"^\s*(Lemma|Definition\s+\w+[^.]*:=\s*ltac|Fixpoint|Ltac|Hint|Instance)\b", nocom, flags=re.M):
        raise Broken("Properties/%s.v contains something other than statements" % prop)
    for body in proofs:
        b = body.strip()
        if not re.fullmatch(r"(intros[^.]*\.\s*)?(exact|apply)\s[^.]*(\.[A-Za-z_][^.]*)*\.", b, flags=re.S):
            raise Broken("Properties/%s.v contains a proof that is not a single `exact`" % prop, b[:300])
    prints = re.findall(r"Print Assumptions\s+(\w+)", nocom)
    missing = [t for t in thms if t not in prints]
    if missing:
        raise Broken("Properties/%s.v: no Print Assumptions for %s" % (prop, missing))
    deps_target = "Properties/%s.vo" % prop
    with coq_lock():
        coq_make([deps_target])
        # run coqc again on the property file itself to capture the Print Assumptions output
        rc, so, se = sh(["coqc", "-R", ".", "TX", "-w", "-notation-overridden", rel], cwd=COQ, timeout=600)
    if rc != 0:
        raise Broken("coqc %s" % rel, (so + se)[-3000:])
    closed = len(re.findall(r"Closed under the global context", so))
    axioms = []
    for blk in re.findall(r"Axioms:\n((?:.+\n?)+?)(?=\n|\Z|Closed|Axioms:)", so):
        for m in re.finditer(r"^(\S+)\s*:", blk, flags=re.M):
            axioms.append(m.group(1))
    bad_ax = [a for a in axioms if a.split(".")[-1] not in ALLOWED_AXIOMS]
    if bad_ax:
        raise Broken("Properties/%s.v depends on axioms outside the trusted base: %s" % (prop, bad_ax), so[-2000:])
    n_reports = closed + len(re.findall(r"Axioms:", so))
    if n_reports != len(prints):
        raise Broken("Properties/%s.v: %d Print Assumptions commands but %d reports" % (prop, len(prints), n_reports), so[-2000:])
    return {"theorems": thms, "closed": closed, "axioms": sorted(set(axioms)), "log": so}


def coqchk(prop, timeout=2400):
    """thorough tier: re-check the compiled property file and everything it depends on with the independent
    checker; result cached per hash of the .vo closure (coqchk does not modify the .vo files)."""
    files = [f[:-2] + ".vo" for f in coq_closure(["Properties/%s.v" % prop])]
    h = hashlib.sha256()
    for f in files:
        h.update(f.encode())
        h.update(open(os.path.join(COQ, f), "rb").read())
    cache = os.path.join(BUILD, "coqchk_%s_%s.txt" % (prop, h.hexdigest()[:16]))
    if os.path.exists(cache):
        out = open(cache).read()
    else:
        rc, so, se = sh(["coqchk", "-silent", "-o", "-R", ".", "TX", "TX.Properties.%s" % prop], cwd=COQ, timeout=timeout)
        out = so + se
        if rc != 0:
            raise Broken("coqchk TX.Properties.%s" % prop, out[-3000:])
        with open(cache, "w") as fh:
            fh.write(out)
    m = re.search(r"\* Axioms:\s*(.*?)\n\s*\n", out, flags=re.S)
    axioms = m.group(1).strip() if m else "?"
    for tag in ("type-in-type", "unsafe (co)fixpoints", "positivity is assumed"):
        mm = re.search(re.escape(tag) + r":\s*(.*?)\n", out)
        if mm and mm.group(1).strip() != "<none>":
            raise Broken("coqchk reports %s: %s" % (tag, mm.group(1)))
    if axioms not in ("<none>",):
        bad = [a for a in re.findall(r"^\s*(\S+)", axioms, flags=re.M) if a.split(".")[-1] not in ALLOWED_AXIOMS]
        if bad:
            raise Broken("coqchk reports axioms outside the trusted base: %s" % bad)
    return {"coqchk_axioms": axioms, "coqchk_files": len(files)}


def nlist(bs):
    """bytes -> Coq list N literal"""
    return "[" + ";".join(str(b) for b in bs) + "]"


def natlist(xs):
    return "[" + ";".join("%d%%nat" % x for x in xs) + "]"


def coq_eval_cases(prop, prelude, case_terms, check_fn, shard=250, timeout=900, extra_defs=""):
    """Evaluate `check_fn : case -> bool` (defined in Corr/<prop>.v) on every case term with vm_compute,
    sharded over parallel coqc processes.  Returns sorted list of indices whose check is false."""
    coq_make(["Corr/%s.vo" % prop])
    d = os.path.join(BUILD, "cases", prop)
    shutil.rmtree(d, ignore_errors=True)
    os.makedirs(d)
    procs = []
    for k in range(0, len(case_terms), shard):
        chunk = case_terms[k:k + shard]
        fn = os.path.join(d, "cases_%d.v" % k)
        with open(fn, "w") as fh:
            fh.write(prelude + "\n" + extra_defs + "\n")
            fh.write("Definition cases := [\n" + ";\n".join(chunk) + "\n].\n")
            fh.write("Definition bad : list nat := Eval vm_compute in\n"
                     "  (map fst (filter (fun ic => negb (%s (snd ic))) (combine (seq 0 (length cases)) cases))).\n" % check_fn)
            fh.write("Print bad.\n")
        procs.append((k, fn))
    bad = []
    running = []
    maxpar = 14
    pending = list(procs)
    results = {}
    while pending or running:
        while pending and len(running) < maxpar:
            k, fn = pending.pop(0)
            p = subprocess.Popen(["coqc", "-R", COQ, "TX", "-w", "-notation-overridden", fn], cwd=d,
                                 stdout=subprocess.PIPE, stderr=subprocess.PIPE, text=True)
            running.append((k, fn, p, time.time()))
        still = []
        for k, fn, p, t0 in running:
            if p.poll() is None:
                if time.time() - t0 > timeout:
                    p.kill()
                    raise Broken("model evaluation (coqc %s) timed out" % os.path.basename(fn))
                still.append((k, fn, p, t0))
            else:
                so, se = p.communicate()
                if p.returncode != 0:
                    raise Broken("model evaluation (coqc %s) failed" % os.path.basename(fn), (so + se)[-3000:])
                m = re.search(r"bad\s*=\s*(\[.*?\])\s*:\s*list nat", so, flags=re.S)
                if not m:
                    raise Broken("model evaluation output not understood", so[-1000:])
                results[k] = [int(x) for x in re.findall(r"\d+", m.group(1))]
        running = still
        if running:
            time.sleep(0.05)
    for k in sorted(results):
        bad += [k + i for i in results[k]]
    return sorted(bad)


# ----------------------------------------------------------------------------------------------
# known findings, violations, evidence
# ----------------------------------------------------------------------------------------------

def known_findings(prop):
    """lines:  known: property=Cnn key=<key> <text>     fixed: property=Cnn <commit> <text>"""
    out = {}
    paths = [os.path.join(VERIF, "KNOWN_FINDINGS.txt")] + sorted(glob.glob(os.path.join(VERIF, "known_findings.d", "*.txt")))
    for p in paths:
        if not os.path.exists(p):
            continue
        for line in open(p):
            line = line.strip()
            m = re.match(r"known:\s+property=(\S+)\s+key=(\S+)\s+(.*)", line)
            if m and m.group(1) == prop:
                out[m.group(2)] = m.group(3)
    return out


class Ctx:
    def __init__(self, prop, tier, seed):
        self.prop = prop
        self.tier = tier
        self.seed = seed
        self.rng = random.Random((seed << 8) ^ int(hashlib.sha256(prop.encode()).hexdigest()[:8], 16))
        self.t0 = time.time()
        self.violations = []      # (key, description, replay dict, found_input: bool)
        self.known_hits = {}      # key -> description
        self.coverage = {}
        self.assumptions = []
        self.known = known_findings(prop)

    def violation(self, key, desc, replay, found_input=True):
        """key identifies the failing input / call site / history class (matched against KNOWN_FINDINGS.txt)."""
        if key in self.known:
            self.known_hits.setdefault(key, self.known[key])
            return
        self.violations.append((key, desc, replay, found_input))

    def finish(self):
        os.makedirs(os.path.join(VERIF, "evidence"), exist_ok=True)
        os.makedirs(os.path.join(VERIF, "replays"), exist_ok=True)
        for key, text in sorted(self.known_hits.items()):
            print("KNOWN-FINDING: property=%s %s [%s]" % (self.prop, text, key))
        rc = 0
        seen = set()
        for key, desc, replay, found in self.violations:
            if key in seen:
                continue
            seen.add(key)
            safe = re.sub(r"[^A-Za-z0-9_.-]+", "_", key)[:80]
            path = os.path.join("replays", "%s_%s.json" % (self.prop, safe))
            with open(os.path.join(VERIF, path), "w") as fh:
                json.dump({"property": self.prop, "key": key, "description": desc, "seed": self.seed,
                           "tier": self.tier, "failing_input_found": found, "replay": replay}, fh, indent=1, default=str)
            tail = "" if found else " no-failing-input-found"
            print("VIOLATION property=%s replay=%s%s" % (self.prop, path, tail))
            print("  -> %s" % desc[:500])
            rc = 1
        ev = {
            "property_id": self.prop, "tier": self.tier, "seed": self.seed, "level": "proof",
            "coverage": self.coverage, "assumptions": self.assumptions,
            "wall_s": round(time.time() - self.t0, 2), "violations": len(seen),
        }
        ev["coverage"]["known_findings_reported"] = sorted(self.known_hits)
        with open(os.path.join(VERIF, "evidence", "%s.json" % self.prop), "w") as fh:
            json.dump(ev, fh, indent=1, default=str)
        return rc


TRUSTED_BASE = [
    "Coq 8.16.1 kernel (coqc; vm_compute used for finite sweeps, witnesses and case evaluation; native_compute not used)",
    "no axioms declared by the development; Print Assumptions of every property theorem audited on each run",
    "hand-written Gallina model of the Go code (tied by the correspondence run, not proved)",
    "Go harness + export shims compiled into the repo module with go build -overlay -tags verif",
    "python driver: case generators, Coq term printer, differ",
]


def proof_coverage(ctx, pinfo, checker_cmd, extra_obligations=0):
    n = len(pinfo["theorems"]) + extra_obligations
    if ctx.tier == "thorough":
        ctx.coverage.update(coqchk(ctx.prop))
        checker_cmd += " && coqchk -silent -o -R . TX TX.Properties.%s" % ctx.prop
    ctx.coverage.update({
        "obligations": n, "discharged": n,
        "checker_cmd": checker_cmd,
        "trusted_base": list(TRUSTED_BASE),
        "theorems": pinfo["theorems"],
        "axioms_reported_by_Print_Assumptions": pinfo["axioms"] or ["none: every theorem is closed under the global context"],
    })


# ----------------------------------------------------------------------------------------------
# extracted model runner (ExtrOcamlBasic only; N/positive stay the extracted inductives)
# ----------------------------------------------------------------------------------------------

def venc(x):
    """python value -> compact universal value syntax understood by runner/driver.ml (and vterm below)"""
    if isinstance(x, bool):
        return "n1" if x else "n0"
    if isinstance(x, int):
        if x < 0:
            raise ValueError("negative number in case value")
        return "n%d" % x
    if isinstance(x, (bytes, bytearray)):
        return "b" + bytes(x).hex()
    if x is None:
        return "[]"
    if isinstance(x, (list, tuple)):
        return "[" + " ".join(venc(y) for y in x) + "]"
    raise TypeError("cannot encode %r" % (x,))


def vterm(x):
    """python value -> Coq term of type tval (for the vm_compute cross-check)"""
    if isinstance(x, bool):
        return "VN 1" if x else "VN 0"
    if isinstance(x, int):
        return "VN %d" % x
    if isinstance(x, (bytes, bytearray)):
        return "VB " + nlist(x)
    if x is None:
        return "VL []"
    return "VL [" + "; ".join("(%s)" % vterm(y) if not isinstance(y, (list, tuple, type(None))) else vterm(y) for y in x) + "]"


def build_runner(prop):
    """make Corr/<prop>.vo, extract (coq/Extract/<prop>.v) and compile with runner/driver.ml"""
    coq_make(["Corr/%s.vo" % prop])
    d = os.path.join(BUILD, "runner", prop)
    os.makedirs(d, exist_ok=True)
    src = open(os.path.join(COQ, "Extract", "%s.v" % prop)).read()
    stamp_src = hashlib.sha256()
    stamp_src.update(src.encode())
    stamp_src.update(open(os.path.join(VERIF, "runner", "driver.ml"), "rb").read())
    # stamp = content of the sources the extraction depends on (not the mtimes of every .vo: another property's rebuild
    # must not force a re-extraction of this one)
    for f in coq_closure(["Corr/%s.v" % prop]):
        stamp_src.update(f.encode())
        stamp_src.update(open(os.path.join(COQ, f), "rb").read())
    stamp = stamp_src.hexdigest()
    sp = os.path.join(d, "stamp")
    binp = os.path.join(d, "runner")
    if os.path.exists(sp) and os.path.exists(binp) and open(sp).read() == stamp:
        return binp
    with open(os.path.join(d, "extract_tmp.v"), "w") as fh:
        fh.write(src)
    with coq_lock():
        rc, so, se = sh(["coqc", "-R", COQ, "TX", "-w", "-notation-overridden,-extraction", "extract_tmp.v"], cwd=d, timeout=600)
    if rc != 0:
        raise Broken("extraction of the %s model" % prop, (so + se)[-3000:])
    shutil.copy(os.path.join(VERIF, "runner", "driver.ml"), os.path.join(d, "driver.ml"))
    rc, so, se = sh(["ocamlfind", "ocamlopt", "-O2", "-w", "-a", "model.mli", "model.ml", "driver.ml", "-o", "runner"],
                    cwd=d, timeout=600)
    if rc != 0:
        raise Broken("ocaml build of the %s model runner" % prop, (so + se)[-3000:])
    with open(sp, "w") as fh:
        fh.write(stamp)
    return binp


def model_eval(prop, values, predict=False, timeout=900, par=8):
    """values: list of python case values. Returns list of bools (and predicted tval strings if predict)."""
    binp = build_runner(prop)
    lines = [venc(v) for v in values]
    n = len(lines)
    if n == 0:
        return [] if not predict else ([], [])
    par = max(1, min(par, n // 50 + 1))
    chunks = [lines[i::par] for i in range(par)]
    procs = []
    for ch in chunks:
        p = subprocess.Popen([binp] + (["-p"] if predict else []), stdin=subprocess.PIPE, stdout=subprocess.PIPE,
                             stderr=subprocess.PIPE, text=True)
        procs.append(p)
    import threading
    outs = [None] * par

    def feed(i):
        try:
            outs[i] = procs[i].communicate("\n".join(chunks[i]) + "\n", timeout=timeout)
        except subprocess.TimeoutExpired:
            procs[i].kill()
            outs[i] = ("", "timeout")
    ths = [threading.Thread(target=feed, args=(i,)) for i in range(par)]
    [t.start() for t in ths]
    [t.join() for t in ths]
    res = [None] * n
    pred = [None] * n
    for i in range(par):
        so, se = outs[i]
        ls = so.splitlines()
        if procs[i].returncode != 0 or len(ls) != len(chunks[i]):
            raise Broken("model runner for %s failed (rc=%s, %d/%d lines)" % (prop, procs[i].returncode, len(ls), len(chunks[i])),
                         (se or "")[-2000:])
        for j, l in enumerate(ls):
            res[i + j * par] = l.startswith("1")
            if predict:
                pred[i + j * par] = l[2:]
    return (res, pred) if predict else res


def vm_crosscheck(prop, values, check_fn="check"):
    """evaluate the same cases inside Coq with vm_compute (no extraction, no OCaml): returns bad indices"""
    terms = [vterm(v) for v in values]
    prelude = "From TX Require Import Base.Val Corr.%s.\nOpen Scope N_scope.\n" % prop
    return coq_eval_cases(prop, prelude, terms, check_fn, shard=max(1, len(terms)))

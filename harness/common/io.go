//go:build verif

package main

// Shared JSON-lines plumbing for the verification harness binaries (mapped into every
// cmd/verif_<prop> directory by the overlay).

import (
	"bufio"
	"encoding/hex"
	"encoding/json"
	"fmt"
	"os"
)

func hx(b []byte) string { return hex.EncodeToString(b) }
func unhx(s string) []byte {
	b, err := hex.DecodeString(s)
	if err != nil {
		panic(fmt.Sprintf("bad hex %q: %v", s, err))
	}
	return b
}

// forEachCase reads one JSON document per line from stdin, calls f, and writes the result as one JSON line.
func forEachCase(f func(raw json.RawMessage) interface{}) {
	in := bufio.NewReaderSize(os.Stdin, 1<<20)
	out := bufio.NewWriterSize(os.Stdout, 1<<20)
	defer out.Flush()
	enc := json.NewEncoder(out)
	for {
		line, err := in.ReadBytes('\n')
		if len(line) > 1 {
			res := f(json.RawMessage(line))
			if e := enc.Encode(res); e != nil {
				panic(e)
			}
		}
		if err != nil {
			return
		}
	}
}

func must(err error) {
	if err != nil {
		panic(err)
	}
}

//go:build verif

package server

// Verification fixture: wires a SessionManager with the same handlers the real server installs
// (components_session.go HandlersComponent + connection_code_commands_setup.go), over a caller-supplied
// storage and without listeners.  Add-only; compiled only into harnesses that opt in (USE_FIXTURE marker).

import (
	"context"
	"encoding/base64"
	"time"

	"tunnox-core/internal/cloud/factories"
	"tunnox-core/internal/cloud/managers"
	"tunnox-core/internal/cloud/repos"
	"tunnox-core/internal/cloud/services"
	"tunnox-core/internal/core/idgen"
	"tunnox-core/internal/core/storage"
	"tunnox-core/internal/protocol/session"
	"tunnox-core/internal/security"
	"tunnox-core/internal/utils"
)

type VerifFixture struct {
	Ctx            context.Context
	Cancel         context.CancelFunc
	Storage        storage.Storage
	IDManager      *idgen.IDManager
	Repo           *repos.Repository
	Cloud          *managers.BuiltinCloudControl
	Session        *session.SessionManager
	Auth           *ServerAuthHandler
	Tunnel         *ServerTunnelHandler
	BruteForce     *security.BruteForceProtector
	IPManager      *security.IPManager
	RateLimiter    *security.RateLimiter
	SecretKeys     *security.SecretKeyManager
	ConnCode       *services.ConnectionCodeService
	HTTPDomainRepo repos.IHTTPDomainMappingRepository
	NodeID         string
}

type VerifFixtureOptions struct {
	NodeID       string
	BruteForce   *security.BruteForceConfig // nil = defaults
	WithRouting  bool                       // install TunnelRoutingTable + ConnectionStateStore
	ConnStateTTL time.Duration
	RoutingTTL   time.Duration
}

func VerifNewFixture(parent context.Context, st storage.Storage, opt VerifFixtureOptions) (*VerifFixture, error) {
	ctx, cancel := context.WithCancel(parent)
	if opt.NodeID == "" {
		opt.NodeID = "node-verif"
	}
	f := &VerifFixture{Ctx: ctx, Cancel: cancel, Storage: st, NodeID: opt.NodeID}
	f.IDManager = idgen.NewIDManager(st, ctx)
	f.Repo = repos.NewRepository(st)
	cfg := managers.DefaultConfig()
	cfg.NodeID = opt.NodeID
	f.Cloud = factories.NewBuiltinCloudControlWithRepo(ctx, cfg, st, f.Repo)
	f.Session = session.NewSessionManager(f.IDManager, ctx)

	f.BruteForce = security.NewBruteForceProtector(opt.BruteForce, ctx)
	f.IPManager = security.NewIPManager(st, ctx)
	f.RateLimiter = security.NewRateLimiter(nil, nil, ctx)
	key := make([]byte, 32)
	for i := range key {
		key[i] = byte(i*7 + 3)
	}
	skm, err := security.NewSecretKeyManager(&security.SecretKeyConfig{MasterKey: base64.StdEncoding.EncodeToString(key)})
	if err != nil {
		cancel()
		return nil, err
	}
	f.SecretKeys = skm
	f.Cloud.SetSecretKeyManager(skm)

	connCodeRepo := repos.NewConnectionCodeRepository(f.Repo)
	pms := f.Cloud.GetPortMappingService()
	pmRepo := repos.NewPortMappingRepo(f.Repo)
	f.HTTPDomainRepo = repos.NewHTTPDomainMappingRepository(f.Repo, []string{"tunnox.net", "tunnel.test.local"})
	f.ConnCode = services.NewConnectionCodeService(connCodeRepo, pms, pmRepo, nil, ctx)

	f.Auth = NewServerAuthHandler(f.Cloud, f.Session, f.BruteForce, f.IPManager, f.RateLimiter, skm)
	f.Tunnel = NewServerTunnelHandler(f.Cloud, f.ConnCode)
	f.Session.SetAuthHandler(f.Auth)
	f.Session.SetTunnelHandler(f.Tunnel)
	f.Session.SetCloudControl(session.NewCloudControlAdapter(f.Cloud))
	f.Session.SetNodeID(opt.NodeID)
	tsm := session.NewTunnelStateManager(st, "")
	f.Session.SetTunnelStateManager(tsm)
	f.Session.SetMigrationManager(session.NewTunnelMigrationManager(tsm, f.Session))
	if opt.WithRouting {
		rt := opt.RoutingTTL
		if rt == 0 {
			rt = 30 * time.Second
		}
		ct := opt.ConnStateTTL
		if ct == 0 {
			ct = 5 * time.Minute
		}
		f.Session.SetTunnelRoutingTable(session.NewTunnelRoutingTable(st, rt))
		f.Session.SetConnectionStateStore(session.NewConnectionStateStore(st, opt.NodeID, ct))
	}

	// command stack exactly as Server.setupConnectionCodeCommands installs it
	srv := &Server{
		session:         f.Session,
		authHandler:     f.Auth,
		connCodeService: f.ConnCode,
		httpDomainRepo:  f.HTTPDomainRepo,
		serviceManager:  utils.NewServiceManager(nil),
	}
	if err := srv.setupConnectionCodeCommands(); err != nil {
		cancel()
		return nil, err
	}
	return f, nil
}

func (f *VerifFixture) Close() {
	f.Cancel()
}

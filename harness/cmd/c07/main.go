//go:build verif

// verif_c07: drives the real SessionManager + ClientRegistry + TunnelRegistry through operation
// sequences over fake transports that record Close, reports the projected registry state after
// every operation and evaluates the C07 invariant directly on the real code's answers.
package main

import (
	"context"
	"encoding/json"
	"errors"
	"fmt"
	"go/ast"
	"go/parser"
	"go/token"
	"io"
	"net"
	"os"
	"path/filepath"
	"runtime"
	"sort"
	"strings"
	"sync"
	"time"

	"tunnox-core/internal/cloud/models"
	"tunnox-core/internal/cloud/stats"
	corelog "tunnox-core/internal/core/log"
	"tunnox-core/internal/core/types"
	"tunnox-core/internal/packet"
	"tunnox-core/internal/protocol/adapter"
	"tunnox-core/internal/protocol/session"
	"tunnox-core/internal/stream"
)

var _ stream.PackageStreamer = (*pstream)(nil)

// ---------------------------------------------------------------------------------------------
// operation codes (shared with Model/Registry.v `op` and lib/props/c07.py)
// ---------------------------------------------------------------------------------------------
const (
	opAccept      = 0  // c            AcceptConnection with a transport whose GetConnectionID() = c
	opHandshake   = 1  // c kind x ctl HandlePacket(Handshake); auth handler: kind 0 = authenticate as x, 1 = challenge, 2 = reject
	opHeartbeat   = 2  // c            HandlePacket(Heartbeat)
	opCloseConn   = 3  // c            CloseConnection (adapter cleanupConnection)
	opRemoveCtl   = 4  // c            RemoveControlConnection
	opUnregister  = 5  // c            ClientRegistry.Unregister
	opKick        = 6  // x newc       KickOldControlConnection
	opSweep       = 7  //              cleanupStaleConnections
	opTick        = 8  // d            d logical hours pass
	opRegRaw      = 9  // c pre        RegisterControlConnection(NewControlConnection(session conn c)), pre>0: pre-authenticated
	opAuthRaw     = 10 // c x          UpdateControlConnectionAuth
	opToTunnel    = 11 // c t          removeFromControlConnMap + RegisterTunnelConnection (TunnelOpen conversion)
	opBreakWrites = 12 // c            the transport starts failing writes (peer reset) without being closed
	opReReg       = 13 // c pre        RegisterControlConnection(NewControlConnection(session conn c)) even if c already has a record (same stream)
	opReRegNew    = 14 // c pre        the same with a FRESH stream object (raw registry API only; not in the Coq model)
	opRegClaim    = 15 // c k          Register a control connection whose ClientID is pre-filled with k but which is NOT authenticated
	opAdAccept    = 16 // c p          the real BaseAdapter.handleConnection is started on a transport (p=1: IsPersistent()) and blocks in its read loop
	opAdEnd       = 17 // c kind       the transport's pending Read returns EOF (0) / an error (1), or (2) the ADAPTER that owns the connection is closed
	//                                    (listener stopped) while the SessionManager keeps running: read loop ends, deferred cleanupConnection runs
)

const hour = time.Hour

type transport struct {
	id         string
	closed     bool
	failWrites bool
}

func (t *transport) Read(p []byte) (int, error) { return 0, io.EOF }
func (t *transport) Write(p []byte) (int, error) {
	if t.closed || t.failWrites {
		return 0, errors.New("transport: write failed")
	}
	return len(p), nil
}
func (t *transport) Close() error            { t.closed = true; return nil }
func (t *transport) GetConnectionID() string { return t.id }

// pstream: the transport presented to the server as a ready-made PackageStreamer (as the WebSocket adapter does), so that
// every WritePacket / Close the server performs on it is ONE I/O call.  Before and after every such call that is not
// made under the registry mutex the world may run another operation to completion (interleaving point).
type pstream struct {
	t *transport
	n int
	w *world
}

func (p *pstream) Read(b []byte) (int, error)  { return 0, io.EOF }
func (p *pstream) Write(b []byte) (int, error) { return p.t.Write(b) }
func (p *pstream) GetReader() io.Reader        { return p }
func (p *pstream) GetWriter() io.Writer        { return p }
func (p *pstream) GetConnectionID() string     { return p.t.id }
func (p *pstream) ReadPacket() (*packet.TransferPacket, int, error) {
	return nil, 0, io.EOF
}
func (p *pstream) ReadExact(length int) ([]byte, error) { return nil, io.EOF }
func (p *pstream) WriteExact(data []byte) error {
	_, err := p.t.Write(data)
	return err
}
func (p *pstream) WritePacket(pkt *packet.TransferPacket, useCompression bool, rate int64) (int, error) {
	p.w.point(p.n)
	var err error
	if p.t.closed || p.t.failWrites {
		err = errors.New("transport: write failed")
	}
	p.w.point(p.n)
	if err != nil {
		return 0, err
	}
	return 1, nil
}
func (p *pstream) Close() {
	p.w.point(p.n)
	p.t.closed = true
	p.w.point(p.n)
}

// injection: at the `at`-th interleaving point of the host operation run `op` to completion
type injSpec struct {
	at    int
	op    []int
	seen  int
	done  bool
	fired bool
}

// wconn: the writer half handed to AcceptConnection next to a pstream; it is a net.Conn, so the session keeps it as the
// connection's RawConn and handleHandshake asks it for RemoteAddr() BETWEEN fetching the base connection record and
// registering the control record — the one interleaving point inside section A of the handshake (injection point 9).
type wconn struct {
	t *transport
	n int
	w *world
}

type vaddr string

func (a vaddr) Network() string { return "verif" }
func (a vaddr) String() string  { return string(a) }

func (c *wconn) Read(b []byte) (int, error)         { return 0, io.EOF }
func (c *wconn) Write(b []byte) (int, error)        { return c.t.Write(b) }
func (c *wconn) Close() error                       { c.t.closed = true; return nil }
func (c *wconn) LocalAddr() net.Addr                { return vaddr("server") }
func (c *wconn) SetDeadline(t time.Time) error      { return nil }
func (c *wconn) SetReadDeadline(t time.Time) error  { return nil }
func (c *wconn) SetWriteDeadline(t time.Time) error { return nil }
func (c *wconn) RemoteAddr() net.Addr {
	c.w.pointAddr(c.n)
	return vaddr(c.t.id)
}

func (w *world) pointAddr(conn int) {
	in := w.inj
	if in == nil || in.done || in.at != 9 || w.sm.VerifClientRegistry().VerifLocked() {
		return
	}
	in.done = true
	if c := arg(in.op, 0); (c == opHandshake || c == opHeartbeat) && arg(in.op, 1) == conn {
		return
	}
	in.fired = true
	w.inj = nil
	w.stampNew()
	w.lateReg = conn                // a close injected here is followed by the registration: the connection is not "closed for good" yet
	sk, sx := w.auth.kind, w.auth.x // the host's auth handler has not run yet: keep its script
	w.apply(in.op)
	w.auth.kind, w.auth.x = sk, sx
	w.lateReg = -1
	w.stampNew()
	w.inj = in
}

func (w *world) point(conn int) {
	in := w.inj
	if in == nil || in.done || w.sm.VerifClientRegistry().VerifLocked() {
		return
	}
	i := in.seen
	in.seen++
	if i != in.at {
		return
	}
	in.done = true
	// packets of the connection whose stream is performing this I/O call are handled by the goroutine that is
	// performing it (one read loop per connection): they cannot arrive here
	if c := arg(in.op, 0); (c == opHandshake || c == opHeartbeat) && arg(in.op, 1) == conn {
		return
	}
	in.fired = true
	w.inj = nil
	w.stampNew()
	w.apply(in.op)
	w.stampNew()
	w.inj = in
}

// scripted auth handler: what the next HandleHandshake does is set by the operation
type authHandler struct {
	kind int
	x    int64
}

func (h *authHandler) HandleHandshake(conn session.ControlConnectionInterface, req *packet.HandshakeRequest) (*packet.HandshakeResponse, error) {
	switch h.kind {
	case 0:
		if h.x <= 0 {
			return &packet.HandshakeResponse{Success: false, Error: "bad id"}, errors.New("bad id")
		}
		conn.SetClientID(h.x)
		conn.SetAuthenticated(true)
		return &packet.HandshakeResponse{Success: true, Message: "ok"}, nil
	case 1:
		conn.SetPendingChallenge("challenge")
		return &packet.HandshakeResponse{Success: false, NeedResponse: true, Challenge: "challenge"}, nil
	default:
		return &packet.HandshakeResponse{Success: false, Error: "rejected"}, errors.New("rejected")
	}
}
func (h *authHandler) GetClientConfig(conn session.ControlConnectionInterface) (string, error) {
	return "", nil
}

type cfgIn struct {
	MaxConn int `json:"maxConn"`
	MaxCtl  int `json:"maxCtl"`
	Tmo     int `json:"tmo"` // logical hours; real HeartbeatTimeout = tmo h + 30 min
	// cloud-control double: CC=1 installs it; per method 0 = never fails, 1 = the first call fails, 2 = every call fails;
	// DiscFalse=1: DisconnectClientIfMatch answers "not matched" (client already reconnected elsewhere)
	CC         int `json:"cc"`
	DiscFail   int `json:"discFail"`
	EnsureFail int `json:"ensureFail"`
	DiscFalse  int `json:"discFalse"`
}

// cloudDouble: the CloudControlAPI the session manager notifies; records every call, fails as configured
type cloudDouble struct {
	cfg   cfgIn
	nDisc int
	nEns  int
	calls [][3]int // method (1 DisconnectClientIfMatch, 2 EnsureClientOnline), client id, connection
}

func failNow(mode, n int) bool { return mode == 2 || (mode == 1 && n == 1) }

func (d *cloudDouble) GetPortMapping(mappingID string) (*models.PortMapping, error) {
	return nil, errors.New("cloud double: no mappings")
}
func (d *cloudDouble) UpdatePortMappingStats(mappingID string, ts *stats.TrafficStats) error {
	return nil
}
func (d *cloudDouble) GetClientPortMappings(clientID int64) ([]*models.PortMapping, error) {
	return nil, nil
}
func (d *cloudDouble) TouchClient(clientID int64)            {}
func (d *cloudDouble) DisconnectClient(clientID int64) error { return nil }
func (d *cloudDouble) DisconnectClientIfMatch(clientID int64, nodeID, connID string) (bool, error) {
	d.nDisc++
	d.calls = append(d.calls, [3]int{1, int(clientID), cnum(connID)})
	if failNow(d.cfg.DiscFail, d.nDisc) {
		return false, errors.New("cloud double: store unavailable")
	}
	return d.cfg.DiscFalse == 0, nil
}
func (d *cloudDouble) EnsureClientOnline(clientID int64, nodeID, connID, ip, protocol, version string) error {
	d.nEns++
	d.calls = append(d.calls, [3]int{2, int(clientID), cnum(connID)})
	if failNow(d.cfg.EnsureFail, d.nEns) {
		return errors.New("cloud double: store unavailable")
	}
	return nil
}

// gconn: the transport handed to the real adapter; its Read blocks until the harness ends the connection
type gconn struct {
	t           *transport
	persistent  bool
	readStarted chan struct{}
	release     chan error
	done        chan struct{}
	started     bool
	ad          *adapter.VerifAdapter // every adapter-driven connection has its own protocol adapter (listener)
}

func (g *gconn) Read(p []byte) (int, error) {
	if !g.started {
		g.started = true
		close(g.readStarted)
	}
	return 0, <-g.release
}
func (g *gconn) Write(p []byte) (int, error) { return g.t.Write(p) }
func (g *gconn) Close() error                { return g.t.Close() }
func (g *gconn) GetConnectionID() string     { return g.t.id }
func (g *gconn) IsPersistent() bool          { return g.persistent }

type caseIn struct {
	Mode     string  `json:"mode"` // "" = one sequence | "ex" = exhaustive enumeration
	Cfg      cfgIn   `json:"cfg"`
	Ops      [][]int `json:"ops"`
	Prefix   [][]int `json:"prefix"`
	Alphabet [][]int `json:"alphabet"`
	Depth    int     `json:"depth"`
	Stride   int     `json:"stride"`
	Offset   int     `json:"offset"`
	A        []int   `json:"a"` // "lock" mode: two registry-level operations started while the harness holds the registry mutex
	B        []int   `json:"b"`
	Reps     int     `json:"reps"`
	InjFrom  *int    `json:"injfrom"` // first position that may host an injection (default: after the prefix)
	Inject   [][]int `json:"inject"`  // "ex" mode: also run every word with every one of these operations injected at every interleaving point of one handshake/close/kick
}

type stepObs struct {
	Err    int      `json:"err"`
	N      int      `json:"n"`
	Fired  int      `json:"fired"`
	Calls  [][3]int `json:"calls"` // cloud-control calls made during this operation (method, client id, connection), sorted
	Sess   []int    `json:"sess"`
	Reg    [][4]int `json:"reg"` // c, cid, auth, stale
	Idx    [][2]int `json:"idx"` // x, c
	Closed []int    `json:"closed"`
	Tun    [][2]int `json:"tun"`  // c, t
	Tmap   [][2]int `json:"tmap"` // t, c
	Cnt    [3]int   `json:"cnt"`  // total, control, tunnel
	La     []int    `json:"la"`
}
type viol struct {
	Step  int    `json:"step"`
	Kind  string `json:"kind"`
	Msg   string `json:"msg"`
	Known bool   `json:"known_shape"` // exactly the shape of a recorded defect
	Key   string `json:"known_key,omitempty"`
}
type caseOut struct {
	Steps []stepObs `json:"steps"`
	Viol  []viol    `json:"viol"`
	Attr  bool      `json:"attributable"` // all violations stem from one recorded defect ...
	Key   string    `json:"attr_key"`     // ... namely this one
}
type exOut struct {
	Total    int            `json:"total"`
	Steps    int            `json:"steps_total"`
	Viol     []exViol       `json:"viol"`
	NViol    int            `json:"nviol"`
	NKnown   int            `json:"nknown"`
	NKnownBy map[string]int `json:"nknown_by"`
	Fired    int            `json:"fired"` // interleaved runs in which the injected operation actually ran
	KnownEx  []exViol       `json:"known_examples"`
	Emitted  []exEmit       `json:"emitted"`
}
type exViol struct {
	Ops  [][]int `json:"ops"`
	Viol []viol  `json:"viol"`
}
type exEmit struct {
	Ops   [][]int   `json:"ops"`
	Steps []stepObs `json:"steps"`
	Viol  []viol    `json:"viol"`
	Attr  bool      `json:"attributable"`
	Key   string    `json:"attr_key"`
}

// ---------------------------------------------------------------------------------------------
// world
// ---------------------------------------------------------------------------------------------
type world struct {
	sm            *session.SessionManager
	cancel        context.CancelFunc
	auth          *authHandler
	tr            map[int]*transport
	seen          map[*session.ControlConnection]int
	seq           int
	epoch         time.Time
	conns         []int // universe of connection numbers
	clients       []int
	tunnels       []int
	dead          map[int]bool
	objTr         map[*session.ControlConnection]*transport // control connections created with their own (fresh) stream
	pk            bool                                      // transports are PackageStreamers (interleaving cases)
	inj           *injSpec
	cloud         *cloudDouble
	ad            *adapter.VerifAdapter
	gc            map[int]*gconn // adapter-driven connections whose read loop is running
	ctx           context.Context
	pure          bool   // only control-type logins / heartbeats / closes / kicks / sweeps: nothing that legitimately leaves an authenticated record un-indexed
	refused       *gconn // adapter-driven accept of the current operation that was refused
	lateReg       int
	mayUnregister bool // one of two concurrently started operations removes a record without closing its stream
}

func cname(c int) string { return fmt.Sprintf("c%d", c) }
func tname(t int) string {
	if t == 0 {
		return ""
	}
	return fmt.Sprintf("t%d", t)
}
func cnum(s string) int {
	var n int
	if _, err := fmt.Sscanf(s, "c%d", &n); err != nil {
		return -1
	}
	return n
}
func tnum(s string) int {
	if s == "" {
		return 0
	}
	var n int
	if _, err := fmt.Sscanf(s, "t%d", &n); err != nil {
		return -1
	}
	return n
}

func addUniq(l []int, v int) []int {
	for _, x := range l {
		if x == v {
			return l
		}
	}
	return append(l, v)
}

func hasInj(o []int) bool { return len(o) > 6 && o[5] > 0 }
func injOf(o []int) []int { return o[6:] }

func universe(ops0 [][]int) (conns, clients, tunnels []int) {
	clients = []int{0}
	ops := [][]int{}
	for _, o := range ops0 {
		ops = append(ops, o)
		if hasInj(o) {
			ops = append(ops, injOf(o))
		}
	}
	for _, o := range ops {
		g := func(i int) int {
			if i < len(o) {
				return o[i]
			}
			return 0
		}
		switch g(0) {
		case opAccept, opHeartbeat, opCloseConn, opRemoveCtl, opUnregister, opBreakWrites:
			conns = addUniq(conns, g(1))
		case opHandshake:
			conns = addUniq(conns, g(1))
			clients = addUniq(clients, g(3))
		case opKick:
			clients = addUniq(clients, g(1))
			conns = addUniq(conns, g(2))
		case opAdAccept, opAdEnd:
			conns = addUniq(conns, g(1))
		case opRegRaw, opAuthRaw, opReReg, opReRegNew, opRegClaim:
			conns = addUniq(conns, g(1))
			clients = addUniq(clients, g(2))
		case opToTunnel:
			conns = addUniq(conns, g(1))
			tunnels = addUniq(tunnels, g(2))
		}
	}
	sort.Ints(conns)
	sort.Ints(clients)
	sort.Ints(tunnels)
	return
}

// operations after which (on correct code) every registered, authenticated control connection with an open, working transport
// IS the indexed connection of its client: raw registry calls that index or pre-authenticate, and tunnel-type logins, are not
func pureOp(o []int) bool {
	switch arg(o, 0) {
	case opHandshake:
		return arg(o, 4) != 0 || arg(o, 2) != 0
	case opRegRaw, opReReg, opReRegNew:
		return arg(o, 2) == 0
	case opAuthRaw:
		return false
	}
	return true
}

func newWorld(cfg cfgIn, ops [][]int) *world {
	ctx, cancel := context.WithCancel(context.Background())
	sc := &session.SessionConfig{
		HeartbeatTimeout:      time.Duration(cfg.Tmo)*hour + 30*time.Minute,
		CleanupInterval:       100000 * hour, // the background sweeper never fires; Sweep calls the same function
		MaxConnections:        cfg.MaxConn,
		MaxControlConnections: cfg.MaxCtl,
	}
	sm := session.NewSessionManagerWithConfig(nil, ctx, sc)
	w := &world{sm: sm, cancel: cancel, auth: &authHandler{}, tr: map[int]*transport{},
		objTr: map[*session.ControlConnection]*transport{}, seen: map[*session.ControlConnection]int{}, epoch: time.Now().Add(-1000 * hour), dead: map[int]bool{}}
	sm.SetAuthHandler(w.auth)
	w.ctx = ctx
	w.lateReg = -1
	w.gc = map[int]*gconn{}
	if cfg.CC != 0 {
		w.cloud = &cloudDouble{cfg: cfg}
		sm.SetCloudControl(w.cloud)
		sm.SetNodeID("node-verif")
	}
	w.conns, w.clients, w.tunnels = universe(ops)
	w.pure = true
	for _, o := range ops {
		if hasInj(o) {
			w.pk = true
			if !pureOp(injOf(o)) {
				w.pure = false
			}
		}
		if !pureOp(o) {
			w.pure = false
		}
	}
	return w
}

func (w *world) close() {
	for _, g := range w.gc {
		g.release <- io.EOF
		<-g.done
	}
	w.sm.Close()
	w.cancel()
}

// snapshot of everything the real code answers
type snap struct {
	sess   map[int]bool
	reg    map[int]*session.ControlConnection
	idx    map[int]*session.ControlConnection
	stale  map[int]bool
	closed map[int]bool
	tun    map[int]int
	tmap   map[int]int
	la     []int
	cnt    [3]int
	count  int
	active int
	nList  int
	bad    []string // structural oddities found while taking the snapshot
}

func (w *world) snapshot() *snap {
	s := &snap{sess: map[int]bool{}, reg: map[int]*session.ControlConnection{}, idx: map[int]*session.ControlConnection{},
		stale: map[int]bool{}, closed: map[int]bool{}, tun: map[int]int{}, tmap: map[int]int{}}
	reg := w.sm.VerifClientRegistry()
	tmo := w.sm.VerifHeartbeatTimeout()
	for _, c := range w.sm.ListConnections() {
		s.sess[cnum(c.ID)] = true
	}
	list := reg.List()
	s.nList = len(list)
	for _, cc := range list {
		n := cnum(cc.ConnID)
		if _, dup := s.reg[n]; dup {
			s.bad = append(s.bad, fmt.Sprintf("List() returns connection %s twice", cc.ConnID))
		}
		s.reg[n] = cc
		s.stale[n] = cc.IsStale(tmo)
		if got := w.sm.GetControlConnection(cc.ConnID); got != cc {
			s.bad = append(s.bad, fmt.Sprintf("List() element %s is not what GetControlConnection returns", cc.ConnID))
		}
	}
	for _, c := range w.conns {
		if cc := w.sm.GetControlConnection(cname(c)); cc != nil {
			if s.reg[c] != cc {
				s.bad = append(s.bad, fmt.Sprintf("GetControlConnection(%s) returns a connection that List() does not contain", cname(c)))
				s.reg[c] = cc
			}
		}
		if tc := w.sm.GetTunnelConnectionByConnID(cname(c)); tc != nil {
			s.tun[c] = tnum(tc.TunnelID)
		}
	}
	for _, x := range w.clients {
		cc := w.sm.GetControlConnectionByClientID(int64(x))
		if cc != nil {
			s.idx[x] = cc
		}
		// "returns nothing" must mean == nil through every accessor, also the interface-typed one (no typed nil)
		iface := w.sm.GetControlConnectionInterface(int64(x))
		if (iface == nil) != (cc == nil) {
			s.bad = append(s.bad, fmt.Sprintf("GetControlConnectionInterface(%d) == nil is %v but GetControlConnectionByClientID(%d) == nil is %v (typed nil: callers' offline test fails)", x, iface == nil, x, cc == nil))
		} else if iface != nil && iface.GetConnID() != cc.ConnID {
			s.bad = append(s.bad, fmt.Sprintf("GetControlConnectionInterface(%d) returns %s, GetControlConnectionByClientID returns %s", x, iface.GetConnID(), cc.ConnID))
		}
	}
	for _, t := range w.tunnels {
		if t == 0 {
			continue
		}
		if tc := w.sm.GetTunnelConnectionByTunnelID(tname(t)); tc != nil {
			s.tmap[t] = cnum(tc.ConnID)
		}
	}
	for c, t := range w.tr {
		if t.closed {
			s.closed[c] = true
		}
	}
	for _, cc := range reg.ListAuthenticated() {
		s.la = append(s.la, cnum(cc.ConnID))
	}
	sort.Ints(s.la)
	st := w.sm.GetConnectionStats()
	s.cnt = [3]int{st.TotalConnections, st.ControlConnections, st.TunnelConnections}
	s.count = reg.Count()
	s.active = w.sm.GetActiveChannels()
	return s
}

func b2i(b bool) int {
	if b {
		return 1
	}
	return 0
}

func (s *snap) obs(err, n int) stepObs {
	o := stepObs{Err: err, N: n, Sess: []int{}, Reg: [][4]int{}, Idx: [][2]int{}, Closed: []int{}, Tun: [][2]int{}, Tmap: [][2]int{}, La: s.la, Cnt: s.cnt}
	if o.La == nil {
		o.La = []int{}
	}
	for c := range s.sess {
		o.Sess = append(o.Sess, c)
	}
	sort.Ints(o.Sess)
	for c, cc := range s.reg {
		o.Reg = append(o.Reg, [4]int{c, int(cc.ClientID), b2i(cc.Authenticated), b2i(s.stale[c])})
	}
	sort.Slice(o.Reg, func(i, j int) bool { return o.Reg[i][0] < o.Reg[j][0] })
	for x, cc := range s.idx {
		o.Idx = append(o.Idx, [2]int{x, cnum(cc.ConnID)})
	}
	sort.Slice(o.Idx, func(i, j int) bool { return o.Idx[i][0] < o.Idx[j][0] })
	for c := range s.closed {
		o.Closed = append(o.Closed, c)
	}
	sort.Ints(o.Closed)
	for c, t := range s.tun {
		o.Tun = append(o.Tun, [2]int{c, t})
	}
	sort.Slice(o.Tun, func(i, j int) bool { return o.Tun[i][0] < o.Tun[j][0] })
	for t, c := range s.tmap {
		o.Tmap = append(o.Tmap, [2]int{t, c})
	}
	sort.Slice(o.Tmap, func(i, j int) bool { return o.Tmap[i][0] < o.Tmap[j][0] })
	return o
}

func (w *world) closedOf(cc *session.ControlConnection) bool {
	if t := w.objTr[cc]; t != nil {
		return t.closed
	}
	t := w.tr[cnum(cc.ConnID)]
	return t != nil && t.closed
}

// after every operation: give freshly created ControlConnections a deterministic creation order
// (CreatedAt is only ever compared between control connections: findOldestConnectionLocked)
func (w *world) stampNew() {
	for _, cc := range w.sm.VerifClientRegistry().List() {
		if _, ok := w.seen[cc]; !ok {
			w.seq++
			w.seen[cc] = w.seq
			cc.CreatedAt = w.epoch.Add(time.Duration(w.seq) * time.Millisecond)
		}
	}
}

func arg(o []int, i int) int {
	if i < len(o) {
		return o[i]
	}
	return 0
}

// apply one operation to the real code; returns (error flag, count)
func (w *world) apply(o []int) (int, int) {
	sm := w.sm
	c := arg(o, 1)
	id := cname(c)
	switch arg(o, 0) {
	case opAccept:
		t := &transport{id: id}
		var err error
		if w.pk {
			ps := &pstream{t: t, n: c, w: w}
			_, err = sm.AcceptConnection(ps, &wconn{t: t, n: c, w: w})
		} else {
			_, err = sm.AcceptConnection(t, t)
		}
		if err != nil {
			return 1, 0
		}
		w.tr[c] = t
		return 0, 0
	case opHandshake:
		kind, x, ctl := arg(o, 2), arg(o, 3), arg(o, 4)
		w.auth.kind, w.auth.x = kind, int64(x)
		ct := "control"
		if ctl == 0 {
			ct = "tunnel"
		}
		reqID := int64(x)
		if ctl == 2 {
			reqID = 0 // first-time / anonymous registration: the request carries client_id 0, the auth handler ALLOCATES id x
		}
		payload, _ := json.Marshal(&packet.HandshakeRequest{ClientID: reqID, Version: "V3", Protocol: "tcp", ConnectionType: ct})
		err := sm.HandlePacket(&types.StreamPacket{ConnectionID: id, Timestamp: time.Now(),
			Packet: &packet.TransferPacket{PacketType: packet.Handshake, Payload: payload}})
		return b2i(err != nil), 0
	case opHeartbeat:
		err := sm.HandlePacket(&types.StreamPacket{ConnectionID: id, Timestamp: time.Now(),
			Packet: &packet.TransferPacket{PacketType: packet.Heartbeat}})
		return b2i(err != nil), 0
	case opCloseConn:
		err := sm.CloseConnection(id)
		if _, ok := w.tr[c]; ok && w.lateReg != c {
			w.dead[c] = true
		}
		return b2i(err != nil), 0
	case opRemoveCtl:
		sm.RemoveControlConnection(id)
	case opUnregister:
		sm.VerifClientRegistry().Unregister(id)
	case opKick:
		if arg(o, 3) != 0 {
			// registry-level API with a NIL kick callback (client_registry.go permits it): the kicked connection must still be closed
			sm.VerifClientRegistry().KickOldConnection(int64(arg(o, 1)), cname(arg(o, 2)), nil)
		} else {
			sm.KickOldControlConnection(int64(arg(o, 1)), cname(arg(o, 2)))
		}
	case opSweep:
		return 0, sm.VerifCleanupStale()
	case opTick:
		d := time.Duration(arg(o, 1)) * hour
		for _, cc := range sm.VerifClientRegistry().List() {
			cc.LastActiveAt = cc.LastActiveAt.Add(-d)
		}
	case opRegRaw:
		pre := arg(o, 2)
		conn, ok := sm.GetConnection(id)
		t := w.tr[c]
		if ok && conn.Stream != nil && t != nil && !t.closed && sm.GetControlConnection(id) == nil {
			cc := session.NewControlConnection(conn.ID, conn.Stream, nil, "tcp")
			if pre > 0 {
				cc.SetClientID(int64(pre))
				cc.SetAuthenticated(true)
			}
			sm.RegisterControlConnection(cc)
		}
	case opRegClaim:
		conn, ok := sm.GetConnection(id)
		t := w.tr[c]
		if ok && conn.Stream != nil && t != nil && !t.closed {
			cc := session.NewControlConnection(conn.ID, conn.Stream, nil, "tcp")
			cc.SetClientID(int64(arg(o, 2))) // claims the id, has not proven it
			sm.RegisterControlConnection(cc)
		}
	case opAdAccept:
		g := &gconn{ad: adapter.VerifNewAdapter(w.ctx, sm), t: &transport{id: id}, persistent: arg(o, 2) != 0, readStarted: make(chan struct{}), release: make(chan error, 1), done: make(chan struct{})}
		go func() {
			defer close(g.done)
			g.ad.VerifHandleConnection(g)
		}()
		select {
		case <-g.readStarted: // accepted, read loop running
			w.tr[c] = g.t
			w.gc[c] = g
			return 0, 0
		case <-g.done: // AcceptConnection failed, handleConnection returned
			w.refused = g
			return 1, 0
		}
	case opAdEnd:
		if g := w.gc[c]; g != nil {
			delete(w.gc, c)
			if arg(o, 2) == 2 {
				_ = g.ad.Close() // the listener goes away first; the session manager survives
				g.release <- io.EOF
			} else if arg(o, 2) == 0 {
				g.release <- io.EOF
			} else {
				g.release <- errors.New("transport: connection reset by peer")
			}
			<-g.done
			w.dead[c] = true
			return 0, 1 // n=1: the read loop of a live adapter connection ended
		}
	case opReReg, opReRegNew:
		pre := arg(o, 2)
		conn, ok := sm.GetConnection(id)
		t := w.tr[c]
		if ok && conn.Stream != nil && t != nil && !t.closed {
			var cc *session.ControlConnection
			if arg(o, 0) == opReReg {
				cc = session.NewControlConnection(conn.ID, conn.Stream, nil, "tcp")
			} else {
				nt := &transport{id: id}
				cc = session.NewControlConnection(conn.ID, &pstream{t: nt, n: c, w: w}, nil, "tcp")
				w.objTr[cc] = nt
			}
			if pre > 0 {
				cc.SetClientID(int64(pre))
				cc.SetAuthenticated(true)
			}
			sm.RegisterControlConnection(cc)
		}
	case opAuthRaw:
		x := arg(o, 2)
		t := w.tr[c]
		if x > 0 && !(t != nil && t.closed) {
			return b2i(sm.UpdateControlConnectionAuth(id, int64(x), "") != nil), 0
		}
	case opToTunnel:
		if conn, ok := sm.GetConnection(id); ok && conn.Stream != nil {
			sm.VerifRemoveFromControlConnMap(id)
			tc := session.NewTunnelConnection(id, conn.Stream, nil, "tcp")
			tc.TunnelID = tname(arg(o, 2))
			sm.RegisterTunnelConnection(tc)
		}
	case opBreakWrites:
		if t := w.tr[c]; t != nil {
			t.failWrites = true
		}
	}
	return 0, 0
}

// ---------------------------------------------------------------------------------------------
// the C07 predicate, evaluated on the real code's own answers
// ---------------------------------------------------------------------------------------------
func (w *world) check(step int, o []int, errFlag, n int, fired bool, pre, post *snap) []viol {
	var vs []viol
	addk := func(kind string, known bool, key string, f string, a ...interface{}) {
		v := viol{Step: step, Kind: kind, Msg: fmt.Sprintf(f, a...), Known: known}
		if known {
			v.Key = key
		}
		vs = append(vs, v)
	}
	add := func(kind string, known bool, f string, a ...interface{}) {
		addk(kind, known, "reauth-stale-index", f, a...)
	}
	code, c := arg(o, 0), arg(o, 1)
	for _, b := range post.bad {
		add("lists-inconsistent", false, "%s", b)
	}
	// (a) a lookup by client id returns nothing or a registered, authenticated, open connection of that client
	owner := map[*session.ControlConnection]int{}
	for x, cc := range post.idx {
		cn := cnum(cc.ConnID)
		if post.reg[cn] != cc {
			add("idx-not-registered", false, "GetControlConnectionByClientID(%d) returns %s which GetControlConnection(%s) does not return (removed connection still indexed)", x, cc.ConnID, cc.ConnID)
		}
		if !cc.Authenticated {
			add("idx-unauthenticated", false, "GetControlConnectionByClientID(%d) returns unauthenticated %s", x, cc.ConnID)
		}
		if int(cc.ClientID) != x {
			// the recorded defect: an authentication step on a connection that was (consistently) indexed under x re-binds it to another id
			isAuthOp := (code == opHandshake && arg(o, 2) == 0 && c == cn) || (code == opAuthRaw && c == cn)
			known := isAuthOp && pre.idx[x] == cc && int(cc.ClientID) == func() int {
				if code == opHandshake {
					return arg(o, 3)
				}
				return arg(o, 2)
			}()
			add("idx-cid-mismatch", known, "GetControlConnectionByClientID(%d) returns %s whose ClientID is %d", x, cc.ConnID, cc.ClientID)
		}
		if w.closedOf(cc) {
			// recorded defect of the tree as it is: Register of a ConnID that already has a record closes the stream the
			// (pre-authenticated) replacement shares with it
			known := code == opReReg && c == cn && pre.reg[c] != nil && arg(o, 2) == x
			addk("idx-closed", known, "register-replace-closes-shared-stream", "GetControlConnectionByClientID(%d) returns %s whose transport is closed", x, cc.ConnID)
		}
		if y, dup := owner[cc]; dup {
			add("two-ids-one-conn", false, "client ids %d and %d both resolve to %s", y, x, cc.ConnID)
		}
		owner[cc] = x
	}
	// at most one live authenticated control connection per client, and it is the indexed one (histories of control logins only)
	if w.pure {
		for cn, cc := range post.reg {
			t := w.tr[cn]
			if cc.Authenticated && cc.ClientID > 0 && t != nil && !t.closed && !t.failWrites && post.idx[int(cc.ClientID)] != cc {
				other := "nothing"
				if o2 := post.idx[int(cc.ClientID)]; o2 != nil {
					other = o2.ConnID
				}
				add("second-live-connection", false, "%s is registered, authenticated as client %d and its transport is open, but client %d resolves to %s: an older login was not evicted (control count %d)",
					cc.ConnID, cc.ClientID, cc.ClientID, other, post.cnt[1])
			}
		}
	}
	// lists and counts agree with each other
	if post.count != len(post.reg) || post.nList != post.count || post.cnt[1] != post.count {
		add("count-control", false, "Count=%d len(List)=%d stats.Control=%d distinct=%d", post.count, post.nList, post.cnt[1], len(post.reg))
	}
	if post.cnt[0] != len(post.sess) {
		add("count-total", false, "stats.Total=%d but ListConnections has %d", post.cnt[0], len(post.sess))
	}
	if post.cnt[2] != len(post.tun) || post.active != post.cnt[1]+post.cnt[2] {
		add("count-tunnel", false, "stats.Tunnel=%d tunnel conns found=%d active=%d", post.cnt[2], len(post.tun), post.active)
	}
	nauth := 0
	for cn, cc := range post.reg {
		if cc.Authenticated {
			nauth++
			found := false
			for _, a := range post.la {
				found = found || a == cn
			}
			if !found {
				add("listauth-missing", false, "authenticated %s missing from ListAuthenticated", cc.ConnID)
			}
		}
	}
	if nauth != len(post.la) {
		add("listauth-extra", false, "ListAuthenticated has %d entries, %d authenticated registered", len(post.la), nauth)
	}
	// (c) whatever left the registry (other than by Unregister / tunnel conversion) is closed
	if code != opUnregister && code != opToTunnel && !w.mayUnregister {
		for cn, cc := range pre.reg {
			// (a record replaced by a re-registration that wraps the same stream hands its open transport over to the replacement)
			if post.reg[cn] != cc && !w.closedOf(cc) && !((code == opReReg || code == opRegClaim) && cn == c && post.reg[cn] != nil) {
				add("evicted-not-closed", false, "%s left the registry during op %v but its transport is still open", cc.ConnID, o)
			}
		}
	}
	gone := func(cn int, why string) {
		if _, ok := post.reg[cn]; ok {
			add("still-registered", false, "%s: GetControlConnection(%s) still returns it", why, cname(cn))
		}
		for x, cc := range post.idx {
			if cnum(cc.ConnID) == cn {
				add("still-indexed", false, "%s: client id %d still resolves to %s", why, x, cname(cn))
			}
		}
		closed := post.closed[cn]
		if obj := pre.reg[cn]; obj != nil {
			closed = w.closedOf(obj) // the stream of the record that was registered (its own one if it was created with a fresh stream)
		}
		if w.tr[cn] != nil && !closed {
			add("not-closed", false, "%s: transport of %s not closed", why, cname(cn))
		}
	}
	same := func(what string) {
		if len(pre.sess) != len(post.sess) || len(pre.reg) != len(post.reg) || len(pre.tun) != len(post.tun) || len(pre.idx) != len(post.idx) || len(pre.closed) != len(post.closed) {
			add("frame", false, "%s changed a count: sess %d->%d reg %d->%d tun %d->%d idx %d->%d closed %d->%d", what,
				len(pre.sess), len(post.sess), len(pre.reg), len(post.reg), len(pre.tun), len(post.tun), len(pre.idx), len(post.idx), len(pre.closed), len(post.closed))
		}
	}
	pcode := code
	if fired {
		pcode = -1 // another operation ran inside this one: only the global invariant applies
	}
	switch pcode {
	case opAccept:
		if errFlag == 0 {
			if !post.sess[c] || post.cnt[0] != pre.cnt[0]+1 || post.cnt[1] != pre.cnt[1] || post.cnt[2] != pre.cnt[2] {
				add("accept-counts", false, "Accept(%s) ok but counts %v -> %v", cname(c), pre.cnt, post.cnt)
			}
		} else {
			same("failed Accept")
		}
	case opCloseConn:
		_, inReg := pre.reg[c]
		_, inTun := pre.tun[c]
		if pre.sess[c] || inReg {
			gone(c, "after CloseConnection")
		}
		if post.sess[c] {
			add("close-still-listed", false, "CloseConnection(%s): still in ListConnections", cname(c))
		}
		if _, ok := post.tun[c]; ok {
			add("close-still-tunnel", false, "CloseConnection(%s): still a tunnel connection", cname(c))
		}
		want := [3]int{pre.cnt[0] - b2i(pre.sess[c]), pre.cnt[1] - b2i(inReg), pre.cnt[2] - b2i(inTun)}
		if post.cnt != want {
			add("close-counts", false, "CloseConnection(%s): counts %v -> %v, expected %v", cname(c), pre.cnt, post.cnt, want)
		}
	case opRemoveCtl:
		if _, ok := pre.reg[c]; ok {
			gone(c, "after RemoveControlConnection")
		}
		if post.cnt[0] != pre.cnt[0] || post.cnt[2] != pre.cnt[2] {
			add("remove-counts", false, "RemoveControlConnection changed total/tunnel counts %v -> %v", pre.cnt, post.cnt)
		}
	case opKick:
		x, newc := arg(o, 1), arg(o, 2)
		if old := pre.idx[x]; old != nil && cnum(old.ConnID) != newc {
			gone(cnum(old.ConnID), "after KickOldControlConnection")
		}
	case opSweep:
		k := 0
		for cn := range pre.reg {
			if pre.stale[cn] {
				k++
				gone(cn, "after stale sweep")
				if post.sess[cn] {
					add("sweep-still-listed", false, "stale %s still in ListConnections", cname(cn))
				}
			} else if post.reg[cn] != pre.reg[cn] {
				add("sweep-removed-fresh", false, "sweep removed %s which was not stale", cname(cn))
			}
		}
		if k != n {
			add("sweep-count", false, "sweep returned %d but %d were stale", n, k)
		}
		// a live, fresh, indexed control connection is still the answer for its client after any sweep
		for x, cc := range pre.idx {
			cn := cnum(cc.ConnID)
			if pre.reg[cn] == cc && !pre.stale[cn] && post.idx[x] != cc {
				add("sweep-unindexed-fresh", false, "after the sweep client id %d no longer resolves to %s, which is registered, fresh and was the indexed connection", x, cc.ConnID)
			}
		}
	case opHandshake:
		if errFlag == 0 && arg(o, 2) == 0 && arg(o, 4) != 0 {
			x := arg(o, 3)
			if cc := post.idx[x]; cc == nil || cnum(cc.ConnID) != c {
				add("handshake-not-current", false, "successful control handshake of %s as %d but the id does not resolve to it", cname(c), x)
			}
			if old := pre.idx[x]; old != nil && cnum(old.ConnID) != c {
				gone(cnum(old.ConnID), "after being replaced by a new login")
			}
		}
	case opHeartbeat, opTick, opBreakWrites:
		same("Heartbeat/Tick")
	case opReReg, opRegClaim, opReRegNew:
		// Re-registration of a ConnID that already has a record is a REPLACEMENT: it never evicts anyone (also not at the
		// connection limit), the counts do not move, every other registered connection stays registered with its transport
		// open, and a replacement wrapping the same stream leaves that stream open.  (On a tree without
		// fixes/C07-register-replace-shared-stream.diff these are the recorded defect of that tree.)
		const rk = "register-replace-closes-shared-stream"
		if old := pre.reg[c]; old != nil && pre.sess[c] && !pre.closed[c] {
			for cn, cc := range pre.reg {
				if cn == c {
					continue
				}
				if post.reg[cn] != cc {
					addk("rereg-evicts", true, rk, "re-registration of %s (which already had a record) evicted %s; control count %d -> %d", cname(c), cname(cn), pre.cnt[1], post.cnt[1])
				} else if !pre.closed[cn] && post.closed[cn] {
					addk("rereg-closes-other", true, rk, "re-registration of %s closed the transport of %s", cname(c), cname(cn))
				}
			}
			if post.cnt != pre.cnt {
				addk("rereg-count", true, rk, "re-registration of %s (which already had a record) changed the counts %v -> %v", cname(c), pre.cnt, post.cnt)
			}
			if post.reg[c] == nil || post.reg[c] == old {
				add("rereg-not-replaced", false, "re-registration of %s: GetControlConnection does not return the replacement", cname(c))
			}
			if code != opReRegNew && post.closed[c] {
				addk("rereg-closes-own-stream", true, rk, "re-registration of %s closed the transport the replacement shares with the old record: GetControlConnection(%s) returns a connection whose transport is closed", cname(c), cname(c))
			}
		}
	}
	// removed connections are never returned again
	for d := range w.dead {
		if post.sess[d] {
			add("dead-returned", false, "closed %s is listed again", cname(d))
		}
		if _, ok := post.reg[d]; ok {
			add("dead-returned", false, "closed %s is a control connection again", cname(d))
		}
		if _, ok := post.tun[d]; ok {
			add("dead-returned", false, "closed %s is a tunnel connection again", cname(d))
		}
		for x, cc := range post.idx {
			if cnum(cc.ConnID) == d {
				add("dead-returned", false, "client id %d resolves to closed %s", x, cname(d))
			}
		}
		if !post.closed[d] {
			add("dead-open", false, "closed %s has an open transport", cname(d))
		}
	}
	return vs
}

func runSeq(cfg cfgIn, ops [][]int, wantObs bool) ([]stepObs, []viol) {
	w := newWorld(cfg, ops)
	defer w.close()
	var steps []stepObs
	var vs []viol
	pre := w.snapshot()
	for i, o := range ops {
		host := o
		fired := false
		if hasInj(o) {
			host = o[:5]
			w.inj = &injSpec{at: o[5] - 1, op: injOf(o)}
		}
		if w.cloud != nil {
			w.cloud.calls = nil
		}
		e, n := w.apply(host)
		if w.inj != nil {
			fired = w.inj.fired
			w.inj = nil
		}
		w.stampNew()
		post := w.snapshot()
		// the adapter-driven operations are judged as what they must amount to: accept / close of that connection
		judged := host
		switch arg(host, 0) {
		case opAdAccept:
			judged = []int{opAccept, arg(host, 1)}
		case opAdEnd:
			judged = []int{opTick, 0}
			if n == 1 {
				judged = []int{opCloseConn, arg(host, 1)}
			}
		}
		vs = append(vs, w.check(i, judged, e, n, fired, pre, post)...)
		if g := w.refused; g != nil {
			w.refused = nil
			// a refused connection leaves nothing behind: in no map (failed-Accept frame check above) and its transport closed
			// (a persistent transport is owned by its provider and is not closed by the adapter)
			if !g.persistent && !g.t.closed {
				vs = append(vs, viol{Step: i, Kind: "refused-not-closed", Msg: fmt.Sprintf("the adapter refused connection %s (AcceptConnection failed) but never closed its transport", g.t.id)})
			}
		}
		if wantObs {
			ob := post.obs(e, n)
			ob.Fired = b2i(fired)
			ob.Calls = [][3]int{}
			if w.cloud != nil {
				ob.Calls = append(ob.Calls, w.cloud.calls...)
				sort.Slice(ob.Calls, func(a, b int) bool {
					x, y := ob.Calls[a], ob.Calls[b]
					if x[0] != y[0] {
						return x[0] < y[0]
					}
					if x[2] != y[2] {
						return x[2] < y[2]
					}
					return x[1] < y[1]
				})
			}
			steps = append(steps, ob)
		}
		pre = post
	}
	return steps, vs
}

func runCase(raw json.RawMessage) interface{} {
	var c caseIn
	must(json.Unmarshal(raw, &c))
	if c.Mode == "ex" {
		return runExhaustive(&c)
	}
	if c.Mode == "lock" {
		return runLock(&c)
	}
	if c.Mode == "race" {
		return runRace(&c)
	}
	steps, vs := runSeq(c.Cfg, c.Ops, true)
	if vs == nil {
		vs = []viol{}
	}
	return &caseOut{Steps: steps, Viol: vs, Attr: attributable(vs), Key: attrKey(vs)}
}

// a sequence's violations are attributed to the recorded re-authentication defect iff its first violating
// step shows exactly that shape (plus its direct corollary "two ids resolve to one connection"); everything
// in later steps of the same sequence is a consequence of the already corrupted index
func attrKey(vs []viol) string {
	if !attributable(vs) {
		return ""
	}
	for _, v := range vs {
		if v.Step == vs[0].Step && v.Known {
			return v.Key
		}
	}
	return ""
}

func attributable(vs []viol) bool {
	if len(vs) == 0 {
		return false
	}
	first, hasKnown := vs[0].Step, false
	for _, v := range vs {
		if v.Step != first {
			continue
		}
		if v.Known {
			hasKnown = true
		} else if v.Kind != "two-ids-one-conn" {
			return false
		}
	}
	return hasKnown
}

// all sequences prefix ++ w, w over the alphabet with 1 <= |w| <= depth
func runExhaustive(c *caseIn) interface{} {
	out := &exOut{Viol: []exViol{}, KnownEx: []exViol{}, Emitted: []exEmit{}, NKnownBy: map[string]int{}}
	k := len(c.Alphabet)
	stride := c.Stride
	if stride < 1 {
		stride = 1
	}
	for d := 1; d <= c.Depth; d++ {
		idx := make([]int, d)
		for {
			ops := append([][]int{}, c.Prefix...)
			for _, i := range idx {
				ops = append(ops, c.Alphabet[i])
			}
			variants := [][][]int{ops}
			from := len(c.Prefix)
			if c.InjFrom != nil {
				from = *c.InjFrom
			}
			for i := from; i < len(ops) && len(c.Inject) > 0; i++ {
				pts := 0
				switch arg(ops[i], 0) {
				case opHandshake, opCloseConn:
					pts = 2
				case opKick:
					pts = 4
				}
				ats := []int{}
				for at := 0; at < pts; at++ {
					ats = append(ats, at)
				}
				if arg(ops[i], 0) == opHandshake {
					ats = append(ats, 9) // RemoteAddr(): between the base-record fetch and the registration of the control record
				}
				for _, at := range ats {
					for _, j := range c.Inject {
						v := append([][]int{}, ops...)
						h := append([]int{}, ops[i]...)
						for len(h) < 5 {
							h = append(h, 0)
						}
						h = append(h, at+1)
						h = append(h, j...)
						v[i] = h
						variants = append(variants, v)
					}
				}
			}
			for vi, vops := range variants {
				emit := (out.Total+c.Offset)%stride == 0
				steps, vs := runSeq(c.Cfg, vops, true)
				if vi > 0 {
					f := false
					for _, st := range steps {
						f = f || st.Fired == 1
					}
					if !f {
						continue // the injection point was not reached: same run as the plain word
					}
					out.Fired++
				}
				out.Total++
				out.Steps += len(vops)
				if len(vs) > 0 {
					if attributable(vs) {
						out.NKnown++
						out.NKnownBy[attrKey(vs)]++
						if out.NKnownBy[attrKey(vs)] <= 2 {
							out.KnownEx = append(out.KnownEx, exViol{Ops: vops, Viol: vs})
						}
					} else {
						out.NViol++
						if len(out.Viol) < 5 {
							out.Viol = append(out.Viol, exViol{Ops: vops, Viol: vs})
						}
					}
				}
				if emit {
					if vs == nil {
						vs = []viol{}
					}
					out.Emitted = append(out.Emitted, exEmit{Ops: vops, Steps: steps, Viol: vs, Attr: attributable(vs), Key: attrKey(vs)})
				}
			}
			// next word
			j := d - 1
			for j >= 0 {
				idx[j]++
				if idx[j] < k {
					break
				}
				idx[j] = 0
				j--
			}
			if j < 0 {
				break
			}
		}
	}
	return out
}

// ---------------------------------------------------------------------------------------------
// lock contention: A and B are started while the harness holds the registry mutex, so both queue on it; after the
// release they run in whatever order the runtime picks.  Every ClientRegistry method being ONE critical section, the
// outcome must satisfy the invariant and equal one of the two sequential outcomes (checked against the model).
// ---------------------------------------------------------------------------------------------
type lockOut struct {
	Runs   int       `json:"runs"`
	Viol   []exViol  `json:"viol"`
	NViol  int       `json:"nviol"`
	Finals []stepObs `json:"finals"` // distinct final states observed
	Pre    []stepObs `json:"pre"`    // states after every prefix operation (one run)
	Stuck  int       `json:"stuck"`
}

func runLock(c *caseIn) interface{} {
	defer runtime.GOMAXPROCS(runtime.GOMAXPROCS(1))
	out := &lockOut{Viol: []exViol{}, Finals: []stepObs{}, Pre: []stepObs{}}
	seen := map[string]bool{}
	all := append(append([][]int{}, c.Prefix...), c.A, c.B)
	for rep := 0; rep < c.Reps; rep++ {
		for order := 0; order < 2; order++ {
			w := newWorld(c.Cfg, all)
			var vs []viol
			pre := w.snapshot()
			for i, o := range c.Prefix {
				e, n := w.apply(o)
				w.stampNew()
				post := w.snapshot()
				vs = append(vs, w.check(i, o, e, n, false, pre, post)...)
				if rep == 0 && order == 0 {
					out.Pre = append(out.Pre, post.obs(e, n))
				}
				pre = post
			}
			first, second := c.A, c.B
			if order == 1 {
				first, second = c.B, c.A
			}
			for _, o := range [][]int{c.A, c.B} {
				if k := arg(o, 0); k == opUnregister || k == opToTunnel || k == opReReg {
					w.mayUnregister = true
				}
			}
			release := w.sm.VerifClientRegistry().VerifHold()
			var wg sync.WaitGroup
			wg.Add(2)
			go func() { defer wg.Done(); w.apply(first) }()
			time.Sleep(150 * time.Microsecond) // let it reach the mutex
			go func() { defer wg.Done(); w.apply(second) }()
			time.Sleep(150 * time.Microsecond)
			release()
			done := make(chan struct{})
			go func() { wg.Wait(); close(done) }()
			select {
			case <-done:
			case <-time.After(3 * time.Second):
				out.Stuck++
				vs = append(vs, viol{Step: len(c.Prefix), Kind: "lock-stuck", Msg: "the two operations did not return within 3 s"})
			}
			w.stampNew()
			post := w.snapshot()
			// only the global invariant applies to the pair
			vs = append(vs, w.check(len(c.Prefix), c.A, 0, 0, true, pre, post)...)
			out.Runs++
			ob := post.obs(0, 0)
			key, _ := json.Marshal(ob)
			if !seen[string(key)] {
				seen[string(key)] = true
				out.Finals = append(out.Finals, ob)
			}
			if len(vs) > 0 {
				out.NViol++
				if len(out.Viol) < 3 {
					out.Viol = append(out.Viol, exViol{Ops: append(append([][]int{}, c.Prefix...), first, second), Viol: vs})
				}
			}
			w.close()
		}
	}
	return out
}

// ---------------------------------------------------------------------------------------------
// free-running race: two logins of ONE client on two connections, started together on separate goroutines, no gating.
// handleHandshake's GetByClientID / Remove(old) / UpdateAuth are three critical sections; if both logins read the index
// before either writes it, neither evicts the other.  Counts how often that happens (contention loop, supplement only).
// ---------------------------------------------------------------------------------------------
type raceOut struct {
	Runs     int `json:"runs"`
	TwoLive  int `json:"two_live"`
	OtherBad int `json:"other_bad"`
}

func runRace(c *caseIn) interface{} {
	out := &raceOut{}
	ops := [][]int{{opAccept, 1}, {opAccept, 2}, {opHandshake, 1, 0, 7, 1}, {opHandshake, 2, 0, 7, 1}}
	for rep := 0; rep < c.Reps; rep++ {
		w := newWorld(c.Cfg, ops)
		w.apply(ops[0])
		w.apply(ops[1])
		var wg sync.WaitGroup
		start := make(chan struct{})
		for _, id := range []string{"c1", "c2"} {
			wg.Add(1)
			go func(id string) {
				defer wg.Done()
				payload, _ := json.Marshal(&packet.HandshakeRequest{ClientID: 7, Version: "V3", Protocol: "tcp", ConnectionType: "control"})
				<-start
				_ = w.sm.HandlePacket(&types.StreamPacket{ConnectionID: id, Timestamp: time.Now(),
					Packet: &packet.TransferPacket{PacketType: packet.Handshake, Payload: payload}})
			}(id)
		}
		w.auth.kind, w.auth.x = 0, 7
		close(start)
		wg.Wait()
		live := 0
		for _, cc := range w.sm.VerifClientRegistry().List() {
			if cc.Authenticated && cc.ClientID == 7 && !w.closedOf(cc) {
				live++
			}
		}
		out.Runs++
		if live == 2 {
			out.TwoLive++
		} else if live != 1 || w.sm.GetControlConnectionByClientID(7) == nil {
			out.OtherBad++
		}
		w.close()
	}
	return out
}

// ---------------------------------------------------------------------------------------------
// lock shape of every ClientRegistry method, read from the source with go/ast:
//
//	0 no acquisition and no access to the maps, or a *Locked helper (callers hold the mutex)
//	1 one Lock with a deferred Unlock, every access to connMap/clientIDMap after it
//	2 one Lock ... Unlock pair, every access to the maps between them
//	3 / 4 the same with RLock (read-only methods)
//	7 an access to the maps outside the locked region   8 access without any lock   9 the mutex is acquired more than once
//
// ---------------------------------------------------------------------------------------------
func lockShapes() (names []string, shapes map[string]int) {
	repo := os.Getenv("VERIF_REPO")
	if repo == "" {
		repo = "/repo"
	}
	fset := token.NewFileSet()
	f, err := parser.ParseFile(fset, filepath.Join(repo, "internal/protocol/session/client_registry.go"), nil, 0)
	must(err)
	shapes = map[string]int{}
	for _, d := range f.Decls {
		fd, ok := d.(*ast.FuncDecl)
		if !ok || fd.Recv == nil || len(fd.Recv.List) != 1 || fd.Body == nil {
			continue
		}
		star, ok := fd.Recv.List[0].Type.(*ast.StarExpr)
		if !ok {
			continue
		}
		if id, ok := star.X.(*ast.Ident); !ok || id.Name != "ClientRegistry" {
			continue
		}
		recv := ""
		if len(fd.Recv.List[0].Names) > 0 {
			recv = fd.Recv.List[0].Names[0].Name
		}
		isField := func(e ast.Expr, field string) bool {
			se, ok := e.(*ast.SelectorExpr)
			if !ok || se.Sel.Name != field {
				return false
			}
			id, ok := se.X.(*ast.Ident)
			return ok && id.Name == recv
		}
		type acq struct {
			pos  token.Pos
			read bool
		}
		var acqs []acq
		var unlocks []token.Pos
		deferred := false
		var accesses []token.Pos
		var visit func(n ast.Node, inDefer bool)
		visit = func(n ast.Node, inDefer bool) {
			ast.Inspect(n, func(m ast.Node) bool {
				switch x := m.(type) {
				case *ast.DeferStmt:
					if m != n {
						visit(x.Call, true)
						return false
					}
				case *ast.CallExpr:
					if se, ok := x.Fun.(*ast.SelectorExpr); ok && isField(se.X, "mu") {
						switch se.Sel.Name {
						case "Lock":
							acqs = append(acqs, acq{x.Pos(), false})
						case "RLock":
							acqs = append(acqs, acq{x.Pos(), true})
						case "Unlock", "RUnlock":
							if inDefer {
								deferred = true
							} else {
								unlocks = append(unlocks, x.Pos())
							}
						}
					}
				case *ast.SelectorExpr:
					if isField(x, "connMap") || isField(x, "clientIDMap") {
						accesses = append(accesses, x.Pos())
					}
				}
				return true
			})
		}
		visit(fd.Body, false)
		shape := 0
		switch {
		case len(acqs) == 0:
			if len(accesses) > 0 && !strings.HasSuffix(fd.Name.Name, "Locked") {
				shape = 8
			}
		case len(acqs) > 1:
			shape = 9
		default:
			lo, hi := acqs[0].pos, fd.Body.End()
			shape = 1
			if !deferred {
				shape = 2
				if len(unlocks) != 1 {
					shape = 9
				} else {
					hi = unlocks[0]
				}
			}
			if acqs[0].read && shape != 9 {
				shape += 2
			}
			for _, a := range accesses {
				if a < lo || a > hi {
					shape = 7
				}
			}
		}
		names = append(names, fd.Name.Name)
		shapes[fd.Name.Name] = shape
	}
	sort.Strings(names)
	return
}

// true iff Register of a ConnID that already has a record closes the stream which the replacement shares with that record
func probeRereg() bool {
	ops := [][]int{{opAccept, 1}, {opRegRaw, 1, 0}, {opReReg, 1, 9}}
	w := newWorld(cfgIn{Tmo: 2}, ops)
	defer w.close()
	for _, o := range ops {
		w.apply(o)
	}
	return w.tr[1].closed
}

// true iff UpdateAuth removes the connection the client id resolved to before (eviction and indexing in one critical section)
func probeUpdateAuthEvicts() bool {
	ops := [][]int{{opAccept, 1}, {opAccept, 2}, {opRegRaw, 1, 0}, {opRegRaw, 2, 0}, {opAuthRaw, 1, 7}, {opAuthRaw, 2, 7}}
	w := newWorld(cfgIn{Tmo: 2}, ops)
	defer w.close()
	for _, o := range ops {
		w.apply(o)
	}
	return w.sm.GetControlConnection("c1") == nil && w.tr[1].closed
}

func gen() {
	fmt.Println("(* generated by verif_c07 gen from /repo's working tree — do not edit *)")
	fmt.Println("From Coq Require Import NArith List. Import ListNotations. Open Scope N_scope.")
	d := session.DefaultSessionConfig()
	fmt.Printf("Definition DefaultHeartbeatTimeoutMs : N := %d.\n", d.HeartbeatTimeout.Milliseconds())
	fmt.Printf("Definition DefaultCleanupIntervalMs : N := %d.\n", d.CleanupInterval.Milliseconds())
	fmt.Printf("Definition DefaultMaxConnections : N := %d.\n", d.MaxConnections)
	fmt.Printf("Definition DefaultMaxControlConnections : N := %d.\n", d.MaxControlConnections)
	fmt.Printf("Definition PT_Handshake : N := %d.\n", int(packet.Handshake))
	fmt.Printf("Definition PT_Heartbeat : N := %d.\n", int(packet.Heartbeat))
	// behaviour probes of the real registry on fixed micro-histories (each is a pair: history id, answer)
	fmt.Printf("Definition probe_reauth_keeps_old_index : bool := %v.\n", probeReauth())
	fmt.Printf("Definition probe_limit_evicts_oldest : bool := %v.\n", probeEvict())
	fmt.Printf("Definition probe_rereg_closes_shared_stream : bool := %v.\n", probeRereg())
	fmt.Printf("Definition probe_updateauth_evicts_holder : bool := %v.\n", probeUpdateAuthEvicts())
	names, shapes := lockShapes()
	fmt.Println("(* lock shape of every ClientRegistry method (go/ast over client_registry.go): 0 no lock needed / *Locked helper, 1 Lock+defer Unlock,")
	fmt.Println("   2 one Lock..Unlock pair, 3/4 the same with RLock, 7 map access outside the locked region, 8 unprotected access, 9 mutex acquired more than once *)")
	for _, n := range names {
		fmt.Printf("Definition shape_%s : N := %d.\n", n, shapes[n])
	}
	fmt.Print("Definition registry_lock_shapes : list N := [")
	for i, n := range names {
		if i > 0 {
			fmt.Print("; ")
		}
		fmt.Printf("shape_%s", n)
	}
	fmt.Println("].")
}

// true iff the registry still resolves the OLD client id after the same connection re-authenticates under another id
func probeReauth() bool {
	ops := [][]int{{opAccept, 1}, {opRegRaw, 1, 0}, {opAuthRaw, 1, 100}, {opAuthRaw, 1, 200}}
	w := newWorld(cfgIn{Tmo: 2}, ops)
	defer w.close()
	for _, o := range ops {
		w.apply(o)
	}
	return w.sm.GetControlConnectionByClientID(100) != nil
}

// true iff registering beyond MaxControlConnections evicts the oldest control connection (and closes it)
func probeEvict() bool {
	ops := [][]int{{opAccept, 1}, {opAccept, 2}, {opAccept, 3}, {opRegRaw, 1, 0}, {opRegRaw, 2, 0}, {opRegRaw, 3, 0}}
	w := newWorld(cfgIn{Tmo: 2, MaxCtl: 2}, ops)
	defer w.close()
	for _, o := range ops {
		w.apply(o)
		w.stampNew()
	}
	return w.sm.GetControlConnection("c1") == nil && w.tr[1].closed && w.sm.GetControlConnection("c2") != nil && w.sm.GetControlConnection("c3") != nil
}

func main() {
	corelog.SetDefault(corelog.NewNopLogger())
	if len(os.Args) > 1 && os.Args[1] == "gen" {
		gen()
		return
	}
	forEachCase(runCase)
}

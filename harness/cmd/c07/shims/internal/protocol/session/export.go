//go:build verif

package session

import "time"

// Export shims for the C07 verification harness (compiled only with -tags verif via -overlay).

func (s *SessionManager) VerifClientRegistry() *ClientRegistry { return s.clientRegistry }
func (s *SessionManager) VerifTunnelRegistry() *TunnelRegistry { return s.tunnelRegistry }
func (s *SessionManager) VerifCleanupStale() int               { return s.cleanupStaleConnections() }
func (s *SessionManager) VerifHeartbeatTimeout() time.Duration { return s.config.HeartbeatTimeout }
func (s *SessionManager) VerifRemoveFromControlConnMap(connID string) {
	s.removeFromControlConnMap(connID, nil)
}

// VerifLocked reports whether the registry mutex is currently held (an I/O call made under it is not an
// interleaving point: every other registry method would block there).
func (r *ClientRegistry) VerifLocked() bool {
	if r.mu.TryLock() {
		r.mu.Unlock()
		return false
	}
	return true
}

// VerifHold takes the registry write lock and returns the function that releases it: the harness uses it to make
// two registry calls started meanwhile queue on the mutex (lock-contention scenarios).
func (r *ClientRegistry) VerifHold() func() {
	r.mu.Lock()
	return r.mu.Unlock
}

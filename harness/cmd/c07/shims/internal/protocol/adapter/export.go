//go:build verif

package adapter

import (
	"context"
	"errors"
	"io"

	"tunnox-core/internal/protocol/session"
)

// VerifAdapter is a minimal ProtocolAdapter (the interface has an unexported method, so it must live in this
// package) that lets the C07 harness run the REAL BaseAdapter.handleConnection — AcceptConnection, the read loop
// and the deferred cleanupConnection — on a transport it controls.
type VerifAdapter struct {
	BaseAdapter
}

func VerifNewAdapter(ctx context.Context, s session.Session) *VerifAdapter {
	a := &VerifAdapter{}
	a.SetName("verif")
	a.SetCtx(ctx, a.onClose)
	a.SetProtocolAdapter(a)
	a.SetSession(s)
	return a
}

func (a *VerifAdapter) Dial(addr string) (io.ReadWriteCloser, error) {
	return nil, errors.New("verif adapter: no dial")
}
func (a *VerifAdapter) Listen(addr string) error { return errors.New("verif adapter: no listen") }
func (a *VerifAdapter) Accept() (io.ReadWriteCloser, error) {
	return nil, errors.New("verif adapter: no accept")
}
func (a *VerifAdapter) getConnectionType() string { return "verif" }

// VerifHandleConnection runs handleConnection to completion (returns when the read loop has ended and the
// deferred cleanup has run).
func (a *VerifAdapter) VerifHandleConnection(conn io.ReadWriteCloser) { a.handleConnection(a, conn) }

//go:build verif

// verif_c15: real StorageIDGenerator instances (int64 and string ids) over ONE shared memory store seen
// through a gated, collision-amplifying double: every key of the id namespace is folded onto a small slot
// space (so every generation contends) and every storage call blocks until the scheduler releases that
// caller — a model schedule (list of caller indices, one storage action per entry) is replayed exactly.
package main

import (
	"go/ast"
	"go/parser"
	"go/token"
	"path/filepath"
	"strconv"
	"context"
	"encoding/json"
	"errors"
	"fmt"
	"hash/fnv"
	"os"
	"sort"
	"strings"
	"sync"
	"time"

	"tunnox-core/internal/core/idgen"
	"tunnox-core/internal/core/node"
	"tunnox-core/internal/core/storage"
	"tunnox-core/internal/core/storage/memory"
)

const slotPrefix = "verif:slot:"

type gate struct {
	arrive chan int      // caller index arrives at a storage call
	resume []chan struct{}
	free   bool // after the schedule: run without gating
	mu     sync.Mutex
}

type gatedStore struct {
	storage.Storage // underlying real memory store (ungated passthrough for everything not overridden)
	under  *memory.Storage
	idx    int
	g      *gate
	slots  int
	faults []bool
	cands  []int // slot of every SetNX attempt, in order
	noNX   bool
	trueOnFault []bool // per injected failure: report (true, err) instead of (false, err) — the shape hybrid's SetNX fallback returns when its marker Set fails
}

func (s *gatedStore) slotOf(key string) (string, int) {
	h := fnv.New32a()
	h.Write([]byte(key))
	k := int(h.Sum32() % uint32(s.slots))
	return fmt.Sprintf("%s%d", slotPrefix, k), k
}

func (s *gatedStore) wait() {
	s.g.mu.Lock()
	free := s.g.free
	s.g.mu.Unlock()
	if free {
		return
	}
	s.g.arrive <- s.idx
	<-s.g.resume[s.idx]
}

func (s *gatedStore) SetNX(key string, value any, ttl time.Duration) (bool, error) {
	sk, k := s.slotOf(key)
	s.wait()
	s.cands = append(s.cands, k)
	if len(s.faults) > 0 {
		f := s.faults[0]
		s.faults = s.faults[1:]
		if f {
			tr := false
			if len(s.trueOnFault) > 0 {
				tr = s.trueOnFault[0]
				s.trueOnFault = s.trueOnFault[1:]
			}
			return tr, errors.New("verif: injected storage failure")
		}
	}
	return s.under.SetNX(sk, value, ttl)
}
func (s *gatedStore) CompareAndSwap(key string, o, n any, ttl time.Duration) (bool, error) {
	return s.under.CompareAndSwap(key, o, n, ttl)
}
func (s *gatedStore) Delete(key string) error {
	sk, _ := s.slotOf(key)
	s.wait()
	return s.under.Delete(sk)
}
// reads of the id namespace are folded onto the slot space too (ungated: not a step of the model)
func (s *gatedStore) Get(key string) (any, error) {
	sk, _ := s.slotOf(key)
	return s.under.Get(sk)
}
func (s *gatedStore) Exists(key string) (bool, error) {
	sk, _ := s.slotOf(key)
	s.wait()
	return s.under.Exists(sk)
}
func (s *gatedStore) Set(key string, value any, ttl time.Duration) error {
	sk, _ := s.slotOf(key)
	s.wait()
	return s.under.Set(sk, value, ttl)
}

type thrIn struct {
	Kind   string   `json:"kind"` // "int" | "str"
	Ops    []string `json:"ops"`  // "G" | "R" | "U<script>" (int kind: IDManager.GenerateUniqueID with a scripted existence check: n = not taken, x = exists, e = the check fails)
	Faults []bool   `json:"faults"`
	TrueOnFault []bool `json:"true_on_fault,omitempty"`
}
type caseIn struct {
	Mode    string  `json:"mode"` // "sched" | "node"
	Threads []thrIn `json:"threads"`
	Sched   []int   `json:"sched"`
	Pre     []int   `json:"pre"`
	Slots   int     `json:"slots"`
	N       int     `json:"n"` // node mode: concurrent allocators
	FaultExists []int `json:"fault_exists,omitempty"` // fallback mode: which Exists calls (1-based, over all callers) fail
	FaultSet    []int `json:"fault_set,omitempty"`    // fallback mode: which Set calls fail
	Fails       []bool `json:"fails,omitempty"`       // uuid mode: per entropy read, true = the read fails
	Kind        int    `json:"kind"`                  // uuid mode: which generator (0 connection, 1 tunnel, 2 mapping instance, 3 bare UUIDGenerator)
}
type thrOut struct {
	Log   [][2]int `json:"log"` // [kind, slot]: 0=Got 1=Exhausted 2=Released
	Cands []int    `json:"cands"`
	Ops   []string `json:"ops"` // the primitive G/R script this caller's ops amount to (U expanded by its specification: release only after "exists")
}
type caseOut struct {
	Threads []thrOut `json:"threads"`
	Sched   []int    `json:"sched"` // the schedule actually executed (given schedule + completion suffix)
	Markers []int    `json:"markers"`
	PropOK  bool     `json:"prop_ok"`
	PropMsg string   `json:"prop_msg"`
	NodeIDs []string `json:"node_ids,omitempty"`
	Draws   []int    `json:"draws,omitempty"` // uuid mode: per entropy read, its index (1-based) or 0 when it failed
	IDs     []int    `json:"ids,omitempty"`   // uuid mode: per returned id, the index of the entropy read whose bytes it carries (0 = none / nil UUID)
}

func runSched(c caseIn) *caseOut {
	out := &caseOut{PropOK: true}
	ctx, cancel := context.WithCancel(context.Background())
	defer cancel()
	under := memory.New(ctx)
	for _, p := range c.Pre {
		under.Set(fmt.Sprintf("%s%d", slotPrefix, p), "pre", 0)
	}
	n := len(c.Threads)
	g := &gate{arrive: make(chan int), resume: make([]chan struct{}, n)}
	stores := make([]*gatedStore, n)
	done := make([]chan struct{}, n)
	logs := make([][][2]int, n)
	specOps := make([][]string, n)
	var logMu sync.Mutex
	live := map[int]int{} // slot -> holder
	pre := map[int]bool{}
	for _, p := range c.Pre {
		pre[p] = true
	}
	fail := func(msg string) {
		if out.PropOK {
			out.PropOK, out.PropMsg = false, msg
		}
	}
	for i, t := range c.Threads {
		g.resume[i] = make(chan struct{})
		done[i] = make(chan struct{})
		st := &gatedStore{Storage: under, under: under, idx: i, g: g, slots: c.Slots, faults: append([]bool(nil), t.Faults...), trueOnFault: append([]bool(nil), t.TrueOnFault...)}
		stores[i] = st
		go func(i int, t thrIn, st *gatedStore) {
			defer close(done[i])
			var genI *idgen.StorageIDGenerator[int64]
			var genS *idgen.StorageIDGenerator[string]
			if t.Kind == "int" {
				genI = idgen.NewStorageIDGenerator[int64](st, "", "tunnox:id:used:client", ctx)
			} else {
				genS = idgen.NewStorageIDGenerator[string](st, idgen.PrefixConnectionID, "tunnox:id:used:conn", ctx)
			}
			type heldID struct {
				i    int64
				s    string
				slot int
			}
			var held []heldID
			var mgr *idgen.IDManager
			for _, op := range t.Ops {
				if len(op) > 0 && op[0] == 'U' && genI != nil {
					// IDManager.GenerateUniqueID over this caller's generator, with a scripted existence check
					if mgr == nil {
						mgr = idgen.NewIDManager(under, ctx)
					}
					script := op[1:]
					gf := func() (int64, error) {
						id, err := genI.Generate()
						_, slot := st.slotOf(fmt.Sprintf("tunnox:id:used:client:%v", id))
						logMu.Lock()
						defer logMu.Unlock()
						specOps[i] = append(specOps[i], "G")
						if err != nil {
							logs[i] = append(logs[i], [2]int{1, 0})
							return id, err
						}
						if who, ok := live[slot]; ok {
							fail(fmt.Sprintf("caller %d was handed id in slot %d while caller %d still holds it (duplicate live id)", i, slot, who))
						}
						if pre[slot] {
							fail(fmt.Sprintf("caller %d was handed slot %d which was already taken before the run", i, slot))
						}
						live[slot] = i
						held = append([]heldID{{i: id, slot: slot}}, held...)
						logs[i] = append(logs[i], [2]int{0, slot})
						return id, nil
					}
					cf := func(int64) (bool, error) {
						r := byte('n')
						if len(script) > 0 {
							r, script = script[0], script[1:]
						}
						switch r {
						case 'x':
							logMu.Lock()
							specOps[i] = append(specOps[i], "R") // specification: an id that exists elsewhere is released and another one drawn
							logMu.Unlock()
							return true, nil
						case 'e':
							return false, errors.New("verif: existence check failed")
						}
						return false, nil
					}
					rf := func(id int64) error {
						err := genI.Release(id)
						_, slot := st.slotOf(fmt.Sprintf("tunnox:id:used:client:%v", id))
						logMu.Lock()
						defer logMu.Unlock()
						for k, h := range held {
							if h.i == id {
								held = append(held[:k:k], held[k+1:]...)
								break
							}
						}
						delete(live, slot)
						logs[i] = append(logs[i], [2]int{2, slot})
						return err
					}
					uid, uerr := mgr.GenerateUniqueID(gf, cf, rf, "client")
					if uerr == nil {
						// the id handed to the caller must be one it still holds (marker live): an id whose marker was
						// released before it is returned can be drawn again by anyone
						logMu.Lock()
						found := false
						for _, h := range held {
							if h.i == uid {
								found = true
							}
						}
						if !found {
							_, slot := st.slotOf(fmt.Sprintf("tunnox:id:used:client:%v", uid))
							fail(fmt.Sprintf("caller %d: GenerateUniqueID(check script %q) returned id %d (slot %d) after releasing its marker: the id is live but unmarked", i, op[1:], uid, slot))
						}
						logMu.Unlock()
					}
					continue
				}
				logMu.Lock()
				if op == "G" || (op == "R" && len(held) > 0) {
					specOps[i] = append(specOps[i], op)
				}
				logMu.Unlock()
				switch op {
				case "G":
					var err error
					var h heldID
					if genI != nil {
						h.i, err = genI.Generate()
						_, h.slot = st.slotOf(fmt.Sprintf("tunnox:id:used:client:%v", h.i))
					} else {
						h.s, err = genS.Generate()
						_, h.slot = st.slotOf(fmt.Sprintf("tunnox:id:used:conn:%v", h.s))
					}
					logMu.Lock()
					if err != nil {
						if !errors.Is(err, idgen.ErrIDExhausted) {
							fail(fmt.Sprintf("caller %d: Generate failed with %v instead of ErrIDExhausted", i, err))
						}
						logs[i] = append(logs[i], [2]int{1, 0})
					} else {
						// the property, evaluated at the moment the id is handed out
						if who, ok := live[h.slot]; ok {
							fail(fmt.Sprintf("caller %d was handed id in slot %d while caller %d still holds it (duplicate live id)", i, h.slot, who))
						}
						if pre[h.slot] {
							fail(fmt.Sprintf("caller %d was handed slot %d which was already taken before the run", i, h.slot))
						}
						live[h.slot] = i
						held = append([]heldID{h}, held...)
						logs[i] = append(logs[i], [2]int{0, h.slot})
					}
					logMu.Unlock()
				case "R":
					if len(held) == 0 {
						continue
					}
					h := held[0]
					held = held[1:]
					var err error
					if genI != nil {
						err = genI.Release(h.i)
					} else {
						err = genS.Release(h.s)
					}
					logMu.Lock()
					if err != nil {
						fail(fmt.Sprintf("caller %d: Release failed: %v", i, err))
					}
					delete(live, h.slot)
					logs[i] = append(logs[i], [2]int{2, h.slot})
					logMu.Unlock()
				}
			}
		}(i, t, st)
	}
	// scheduler: a caller is "parked" when it sits at a gate; every schedule entry releases exactly one
	// storage action of that caller and waits until the caller is parked again or finished.
	parked := make([]bool, n)
	finished := make([]bool, n)
	settle := func(i int) { // wait until caller i is parked or finished
		for !parked[i] && !finished[i] {
			select {
			case j := <-g.arrive:
				parked[j] = true
			case <-done[i]:
				finished[i] = true
			case <-time.After(20 * time.Second):
				fail(fmt.Sprintf("caller %d neither reached a storage call nor finished within 20s", i))
				finished[i] = true
			}
		}
	}
	for i := 0; i < n; i++ {
		settle(i)
	}
	stepOne := func(i int) {
		if i < 0 || i >= n || finished[i] {
			return
		}
		parked[i] = false
		g.resume[i] <- struct{}{}
		settle(i)
	}
	for _, i := range c.Sched {
		out.Sched = append(out.Sched, i)
		stepOne(i)
	}
	for i := 0; i < n; i++ { // completion suffix: run every caller to the end, in index order
		for !finished[i] {
			out.Sched = append(out.Sched, i)
			stepOne(i)
		}
	}
	for i := 0; i < n; i++ {
		out.Threads = append(out.Threads, thrOut{Log: logs[i], Cands: stores[i].cands, Ops: specOps[i]})
		if out.Threads[i].Ops == nil {
			out.Threads[i].Ops = []string{}
		}
		if out.Threads[i].Log == nil {
			out.Threads[i].Log = [][2]int{}
		}
		if out.Threads[i].Cands == nil {
			out.Threads[i].Cands = []int{}
		}
	}
	for k := 0; k < c.Slots; k++ {
		if ok, _ := under.Exists(fmt.Sprintf("%s%d", slotPrefix, k)); ok {
			out.Markers = append(out.Markers, k)
		}
	}
	if out.Markers == nil {
		out.Markers = []int{}
	}
	// "live ids equal the store's live markers": markers = pre ∪ live
	want := map[int]bool{}
	for p := range pre {
		want[p] = true
	}
	for s := range live {
		want[s] = true
	}
	for _, k := range out.Markers {
		if !want[k] {
			fail(fmt.Sprintf("marker for slot %d present although no live id owns it (leak after failed/exhausted generation)", k))
		}
		delete(want, k)
	}
	for k := range want {
		fail(fmt.Sprintf("slot %d is live or pre-taken but has no marker in the store", k))
	}
	return out
}

// node-id allocator: N concurrent AllocateNodeID on one store must return N distinct ids
func runNode(c caseIn) *caseOut {
	out := &caseOut{PropOK: true}
	ctx, cancel := context.WithCancel(context.Background())
	defer cancel()
	under := memory.New(ctx)
	var wg sync.WaitGroup
	ids := make([]string, c.N)
	errs := make([]error, c.N)
	start := make(chan struct{})
	for i := 0; i < c.N; i++ {
		wg.Add(1)
		go func(i int) {
			defer wg.Done()
			<-start
			ids[i], errs[i] = node.NewNodeIDAllocator(under).AllocateNodeID(ctx)
		}(i)
	}
	close(start)
	wg.Wait()
	seen := map[string]int{}
	for i, id := range ids {
		if errs[i] != nil {
			out.PropOK, out.PropMsg = false, fmt.Sprintf("allocator %d failed: %v", i, errs[i])
			continue
		}
		if j, ok := seen[id]; ok {
			out.PropOK, out.PropMsg = false, fmt.Sprintf("allocators %d and %d both got node id %s", j, i, id)
		}
		seen[id] = i
	}
	sort.Strings(ids)
	out.NodeIDs = ids
	out.Sched, out.Markers, out.Threads = []int{}, []int{}, []thrOut{}
	return out
}

func runCase(raw json.RawMessage) interface{} {
	var c caseIn
	must(json.Unmarshal(raw, &c))
	if c.Mode == "node" {
		return runNode(c)
	}
	if c.Mode == "fallback" {
		return runFallback(c)
	}
	if c.Mode == "uuid" {
		return runUUID(c)
	}
	if c.Mode == "hybridnx" {
		return runHybridNX(c)
	}
	if c.Mode == "nodehb" {
		return runNodeHB(c)
	}
	if c.Mode == "ttl" {
		return runTTL(c)
	}
	if c.Mode == "birthday" {
		return runBirthday(c)
	}
	if c.Mode == "nodeseq" {
		return runNodeSeq(c)
	}
	if c.Mode == "mgr2" {
		return runMgr2(c)
	}
	if c.Mode == "noderel" {
		return runNodeRel(c)
	}
	if c.Mode == "stress" {
		return runStress(c)
	}
	if c.Mode == "hybrid2" {
		return runHybrid2(c)
	}
	if c.Mode == "uniqwrap" {
		return runUniqWrap(c)
	}
	if c.Mode == "wrap" {
		return runWrap(c)
	}
	if c.Mode == "nodefull" {
		return runNodeFull(c)
	}
	if c.Mode == "nodefault" {
		return runNodeFault(c)
	}
	return runSched(c)
}

func gen() {
	fmt.Println("(* generated by verif_c15 gen from /repo's working tree — do not edit *)")
	fmt.Println("From Coq Require Import NArith List. Import ListNotations.")
	fmt.Printf("Definition MaxAttempts : nat := %d.\n", idgen.MaxAttempts)
	fmt.Printf("Definition ClientIDMin : N := %d%%N.\nDefinition ClientIDMax : N := %d%%N.\n", idgen.ClientIDMin, idgen.ClientIDMax)
	fmt.Printf("Definition NodeIDMin : N := %d%%N.\nDefinition NodeIDMax : N := %d%%N.\n", node.NodeIDMin, node.NodeIDMax)
	// does the shipped in-memory store implement the atomic set-if-absent (so the fallback branch is dead)?
	var st storage.Storage = memory.New(context.Background())
	_, ok := st.(storage.CASStore)
	fmt.Printf("Definition memory_store_has_SetNX : bool := %v.\n", ok)
	_ = strings.TrimSpace
	// node-id lease: lifetime of the slot marker (exported constant) and heartbeat period (literal of time.NewTicker in
	// heartbeatLoop, read from the syntax tree of the working tree's node_id_allocator.go)
	fmt.Printf("Definition NodeLockTTLSeconds : nat := %d.\n", int(node.NodeIDLockTTL/time.Second))
	// source tree: argument, else $VERIF_REPO, else /repo (the harness binary is built from that tree; ./check setup calls gen without arguments)
	root := os.Getenv("VERIF_REPO")
	if len(os.Args) > 2 {
		root = os.Args[2]
	}
	if root == "" {
		root = "/repo"
	}
	period := heartbeatPeriodSeconds(filepath.Join(root, "internal", "core", "node", "node_id_allocator.go"))
	fmt.Printf("Definition NodeHeartbeatSeconds : nat := %d.\n", period)
}

// heartbeatPeriodSeconds finds `time.NewTicker(<n> * time.Second)` inside func heartbeatLoop; 0 when the shape is not found
func heartbeatPeriodSeconds(path string) int {
	fset := token.NewFileSet()
	f, err := parser.ParseFile(fset, path, nil, 0)
	if err != nil {
		return 0
	}
	res := 0
	for _, d := range f.Decls {
		fd, ok := d.(*ast.FuncDecl)
		if !ok || fd.Name.Name != "heartbeatLoop" || fd.Body == nil {
			continue
		}
		ast.Inspect(fd.Body, func(n ast.Node) bool {
			call, ok := n.(*ast.CallExpr)
			if !ok || len(call.Args) != 1 {
				return true
			}
			sel, ok := call.Fun.(*ast.SelectorExpr)
			if !ok || sel.Sel.Name != "NewTicker" {
				return true
			}
			if be, ok := call.Args[0].(*ast.BinaryExpr); ok && be.Op == token.MUL {
				lit, unit := be.X, be.Y
				if _, isLit := lit.(*ast.BasicLit); !isLit {
					lit, unit = be.Y, be.X
				}
				bl, ok1 := lit.(*ast.BasicLit)
				us, ok2 := unit.(*ast.SelectorExpr)
				if ok1 && ok2 {
					v, _ := strconv.Atoi(bl.Value)
					switch us.Sel.Name {
					case "Second":
						res = v
					case "Minute":
						res = 60 * v
					}
				}
			}
			return true
		})
	}
	return res
}

func main() {
	if len(os.Args) > 1 && os.Args[1] == "gen" {
		gen()
		return
	}
	forEachCase(runCase)
}
